(* C01/Source2.v — the decision functions of the anchored code, re-translated from the source text on every
   run by translator v2 (coq/gen/C01Src2.v, C01Src2p.v), proved equal to the hand-written model.

   sigver.py   SecurityContext.correctly_signed_response  = Model.load_response      (Section, abstract externals)
   response.py AuthnResponse._assertion                   = Model.verify_assertions  (Section, abstract externals)
   response.py AuthnResponse.__init__                     : which option lands in which requirement flag
   client_base Base.__init__                              = Model.resolve (option defaults, "true" -> True)
   entity.py   Entity._parse_response (desugared)         = Model.core (two passes, either-or)
   client_base Base.parse_authn_request_response (desug.) : which attribute lands in which keyword
   and the chain of the last four, from the configured option values to the verdict = Model.parse_message.

   The four control-flow/plumbing theorems are proved by evaluation over the model's whole (finite) input
   domain; there the external calls are the functions ext_* below, which answer what the model's
   sub-functions say (ext_loads: what correctly_signed_response yields according to load_response, ...).
   No axioms; exceptions are results (PExc name). *)
Set Default Timeout 20.
From Coq Require Import String Ascii List Bool ZArith.
From Verif Require Import Base.Str Base.Py Base.Py2 C01.Model C01.Spec C01.Proofs.
From VerifGen Require Import C01Tables C01Src2 C01Src2p.
Import ListNotations.
Open Scope string_scope.

(* ================================================================================================ *)
(* names of the exceptions the model's outcomes stand for *)

Definition sres_of (present : bool) (v : vres) : sres :=
  if present then match v with VOk => SOk | VMissingKey => SMissingKey | VSigErr => SSigErr | VCrash => SCrash end
  else SAbsent.

Lemma look_sres_of only w ok s :
  look only w ok s = sres_of (match s with Some _ => true | None => false end)
                             (match s with Some g => check_signature only w ok g | None => VOk end).
Proof. destruct s as [g|]; [|reflexivity]. cbn. destruct (check_signature only w ok g); reflexivity. Qed.

(* what _check_signature raises *)
Definition enc_vres (item : pyval) (v : vres) : pyval :=
  match v with VOk => item | VMissingKey => PExc "MissingKey" | VSigErr => PExc "SignatureError" | VCrash => PExc "AttributeError" end.

(* the exception a failed load / verify ends with *)
Definition loads_exc (q : bool) (r : sres) : option string :=
  match load_response q r with
  | Done => None | SigverErr => Some "MissingKey" | SignatureErr => Some "SignatureError" | OtherErr => Some "AttributeError"
  end.
Definition verify_exc (q : bool) (a : sres) (im : bool) : option string :=
  match verify_assertions q a im with
  | Done => None | SigverErr => Some "MissingKey" | SignatureErr => Some "SignatureError"
  | OtherErr => Some (match a with SCrash => "AttributeError" | _ => "VerificationError" end)
  end.

(* ================================================================================================ *)
(* 1. SecurityContext.correctly_signed_response = load_response *)

Section CorrectlySignedResponse.
  (* externals: samlp.any_response_from_string, SecurityContext._check_signature, class_name *)
  Variable parse_resp : pyval -> pyval.
  Variable check_sig : pyval -> pyval -> pyval -> pyval -> pyval.
  Variable class_name_ext : pyval -> pyval.
  Variables xml origdoc : pyval.
  Variable present : bool.      (* the Response carries a ds:Signature *)
  Variable v : vres.            (* what _check_signature does with it *)

  Definition enc_parsed : pyval :=
    PObj [("__class__", PStr "Response"); ("id", PStr "r-1");
          ("signature", if present then PObj [("__class__", PStr "Signature"); ("signature_value", PStr "AAAA")] else PNone)].

  Hypothesis xml_good : is_bad xml = false.
  Hypothesis origdoc_good : is_bad origdoc = false.
  Hypothesis parse_spec : parse_resp xml = enc_parsed.
  Hypothesis class_name_good : is_bad (class_name_ext enc_parsed) = false.
  Hypothesis check_spec : check_sig xml enc_parsed (class_name_ext enc_parsed) origdoc = enc_vres enc_parsed v.

  Definition enc_loaded (o : outcome) : pyval :=
    match o with
    | Done => enc_parsed | SigverErr => PExc "MissingKey" | SignatureErr => PExc "SignatureError" | OtherErr => PExc "AttributeError"
    end.

  Theorem src2_correctly_signed_response_is_model : forall (self must ovc : pyval) (req : bool),
    src2_correctly_signed_response parse_resp check_sig class_name_ext self xml must origdoc ovc (PBool req) (PObj [])
    = enc_loaded (load_response req (sres_of present v)).
  Proof.
    intros self must ovc req. unfold src2_correctly_signed_response.
    rewrite (py_bind_good xml) by exact xml_good. rewrite parse_spec.
    rewrite (py_bind_good enc_parsed) by reflexivity.
    destruct present eqn:Hp.
    - (* signed *)
      assert (Hb : p2_branch (p2_not enc_parsed) = BFalse) by (unfold enc_parsed; rewrite Hp; reflexivity).
      rewrite Hb.
      assert (Hs : p2_branch (p2_attr enc_parsed "signature") = BTrue) by (unfold enc_parsed; rewrite Hp; reflexivity).
      rewrite Hs.
      change (p2_branch (p2_in (PStr "do_not_verify") (PObj []))) with BFalse. cbv iota.
      rewrite (py_bind_good xml) by exact xml_good.
      rewrite (py_bind_good enc_parsed) by reflexivity.
      rewrite (py_bind_good enc_parsed) by reflexivity.
      rewrite (py_bind_good (class_name_ext enc_parsed)) by exact class_name_good.
      rewrite (py_bind_good origdoc) by exact origdoc_good.
      rewrite check_spec. unfold sres_of. destruct v; reflexivity.
    - (* unsigned *)
      assert (Hb : p2_branch (p2_not enc_parsed) = BFalse) by (unfold enc_parsed; rewrite Hp; reflexivity).
      rewrite Hb.
      assert (Hs : p2_branch (p2_attr enc_parsed "signature") = BFalse) by (unfold enc_parsed; rewrite Hp; reflexivity).
      rewrite Hs. rewrite p2_branch_bool. destruct req; reflexivity.
  Qed.
End CorrectlySignedResponse.

Example correctly_signed_response_hyps_sat :
  let item := enc_parsed true in
  let parse_resp := fun _ : pyval => item in
  let check_sig := fun _ _ _ _ : pyval => enc_vres item VSigErr in
  let cn := fun _ : pyval => PStr "urn:oasis:names:tc:SAML:2.0:protocol:Response" in
  is_bad (PStr "<xml/>") = false /\ parse_resp (PStr "<xml/>") = item /\ is_bad (cn item) = false
  /\ check_sig (PStr "<xml/>") item (cn item) PNone = enc_vres item VSigErr.
Proof. repeat split. Qed.

(* ================================================================================================ *)
(* 2. AuthnResponse._assertion = verify_assertions (signature requirement, verification, issuer comparison;
      the remaining checks of the assertion - conditions, subject, authn statement - are "otherwise valid") *)

Section Assertion.
  Variable check_sig3 : pyval -> pyval -> pyval -> pyval.
  Variables class_name_ext issuer_ext authn_statement_ok_ext condition_ok_ext get_subject_ext : pyval -> pyval.
  Variable q : bool.              (* self.require_signature *)
  Variable present : bool.        (* the assertion carries a ds:Signature *)
  Variable v : vres.              (* what check_signature does with it *)
  Variable ri : option string.    (* self.issuer(): Issuer of the Response *)
  Variable ai : option string.    (* text of the assertion's Issuer element *)
  Variable xs : string.

  Definition enc_self : pyval :=
    PObj [("__class__", PStr "AuthnResponse"); ("require_signature", PBool q); ("do_not_verify", PBool false);
          ("xmlstr", PStr xs); ("context", PStr "AuthnReq"); ("asynchop", PBool true); ("allow_unsolicited", PBool false);
          ("came_from", PStr "/"); ("assertion", PNone)].
  Definition enc_assertion : pyval :=
    PObj [("__class__", PStr "Assertion"); ("id", PStr "a-1");
          ("signature", if present then PObj [("__class__", PStr "Signature"); ("signature_value", PStr "AAAA")] else PNone);
          ("issuer", match ai with Some t => PObj [("__class__", PStr "Issuer"); ("text", PStr t)] | None => PNone end)].
  Definition enc_ostr (o : option string) : pyval := match o with Some s => PStr s | None => PNone end.
  Definition ai_text : string := match ai with Some t => strip t | None => "" end.
  (* `_resp_issuer and _resp_issuer != _ass_issuer` does not hold *)
  Definition im_s : bool := match ri with None => true | Some "" => true | Some r => String.eqb r ai_text end.

  Hypothesis ai_ascii : match ai with Some t => end_ascii (strip t) = true | None => True end.
  Hypothesis class_name_good : is_bad (class_name_ext enc_assertion) = false.
  Hypothesis check_spec : check_sig3 enc_assertion (class_name_ext enc_assertion) (PStr xs) = enc_vres enc_assertion v.
  Hypothesis issuer_spec : issuer_ext enc_self = enc_ostr ri.
  (* "everything else is valid" *)
  Hypothesis authn_ok : forall s, is_bad (authn_statement_ok_ext s) = false.
  Hypothesis cond_ok : forall s, condition_ok_ext s = PBool true.
  Hypothesis subject_ok : forall s, is_bad (get_subject_ext s) = false.

  Theorem src2_assertion_is_model :
    src2_assertion check_sig3 class_name_ext issuer_ext authn_statement_ok_ext condition_ok_ext get_subject_ext
                   enc_self enc_assertion (PBool false)
    = match verify_exc q (sres_of present v) im_s with None => PBool true | Some n => PExc n end.
  Proof.
    cbv delta [src2_assertion]. cbv beta.
    do 3 (lazymatch goal with |- (let k := ?F in @?M k) = ?R => change (M F = R); cbv beta end).
    lazymatch goal with |- (let k := ?F in @?M k) = ?R => set (K := F); change (M K = R); cbv beta end.
    (* ---- after the signature: issuer comparison and the other checks *)
    assert (HK : forall e, K e = if im_s then PBool true else PExc "VerificationError").
    { intros e. unfold K. clear K. rewrite issuer_spec.
      match goal with |- context [py_bind enc_assertion ?k] => set (REST := py_bind enc_assertion k) end.
      assert (HR : REST = PBool true).
      { unfold REST. rewrite (py_bind_good enc_assertion) by reflexivity.
        match goal with |- py_bind ?S _ = _ => set (S' := S) end.
        assert (HS : is_bad S' = false) by (unfold S', enc_self, enc_assertion; destruct present, ai; reflexivity).
        rewrite (py_bind_good S' _ HS).
        assert (Hc : p2_branch (p2_eq (p2_attr S' "context") (PStr "AuthnReq")) = BTrue)
          by (unfold S', enc_self, enc_assertion; destruct present, ai; reflexivity).
        rewrite Hc. rewrite (py_bind_good _ _ (authn_ok S')). rewrite cond_ok.
        change (p2_branch (p2_not (PBool true))) with BFalse. cbv iota.
        rewrite (py_bindh_good _ _ _ (subject_ok S')).
        unfold S', enc_self, enc_assertion; destruct present, ai; reflexivity. }
      rewrite HR. clear HR REST.
      assert (HA : p2_ifexp (p2_is_not_none (p2_attr enc_assertion "issuer"))
                     (p2_strip (p2_or (p2_attr (p2_attr enc_assertion "issuer") "text") (PStr ""))) (PStr "")
                   = PStr ai_text).
      { unfold enc_assertion, ai_text. destruct ai as [t|]; [|destruct present; reflexivity].
        assert (E : p2_attr (PObj [("__class__", PStr "Assertion"); ("id", PStr "a-1");
                    ("signature", if present then PObj [("__class__", PStr "Signature"); ("signature_value", PStr "AAAA")] else PNone);
                    ("issuer", PObj [("__class__", PStr "Issuer"); ("text", PStr t)])]) "issuer"
                    = PObj [("__class__", PStr "Issuer"); ("text", PStr t)]) by (destruct present; reflexivity).
        rewrite E. change (p2_attr (PObj [("__class__", PStr "Issuer"); ("text", PStr t)]) "text") with (PStr t).
        unfold p2_ifexp. rewrite py_cond_good by reflexivity. cbn [p2_is_not_none py_truthy].
        replace (p2_or (PStr t) (PStr "")) with (PStr t) by (destruct t; reflexivity).
        change (p2_strip (PStr t)) with (guard_ends (strip t)). unfold guard_ends. rewrite ai_ascii. reflexivity. }
      rewrite HA. unfold im_s. destruct ri as [r|]; cbn [enc_ostr].
      - rewrite (py_bind_good (PStr r)) by reflexivity. rewrite (py_bind_good (PStr ai_text)) by reflexivity.
        rewrite p2_ne_str. rewrite p2_and_good by reflexivity.
        destruct r as [|c r]; [reflexivity|]. cbn [py_truthy is_empty negb]. rewrite p2_branch_bool.
        destruct (String.eqb (String c r) ai_text); cbn [negb]; [reflexivity|].
        match goal with |- py_bind ?X _ = _ => assert (HX : is_bad X = false) end.
        { change (PStr "Issuer mismatch: response issuer '" :: p2_str (PStr (String c r)) :: PStr "', assertion issuer '" :: p2_str (PStr ai_text) :: [PStr "'"])
            with (map PStr ["Issuer mismatch: response issuer '"; String c r; "', assertion issuer '"; ai_text; "'"]).
          rewrite p2_fconcat_strs. reflexivity. }
        rewrite py_bind_good by exact HX. reflexivity.
      - rewrite (py_bind_good PNone) by reflexivity. rewrite (py_bind_good (PStr ai_text)) by reflexivity. reflexivity. }
    (* ---- the signature part *)
    unfold verify_exc, sres_of. destruct present eqn:Hp.
    - assert (Hb : p2_branch (p2_or (p2_not (p2_hasattr enc_assertion "signature")) (p2_not (p2_attr enc_assertion "signature"))) = BFalse)
        by (unfold enc_assertion; rewrite Hp; destruct ai; reflexivity).
      rewrite Hb.
      assert (Hv : p2_branch (p2_and (p2_not (PBool false)) (p2_is_bool false (p2_attr enc_self "do_not_verify"))) = BTrue) by reflexivity.
      rewrite Hv.
      rewrite (py_bind_good enc_assertion) by (unfold enc_assertion; rewrite Hp; destruct ai; reflexivity).
      rewrite (py_bind_good enc_assertion) by (unfold enc_assertion; rewrite Hp; destruct ai; reflexivity).
      rewrite (py_bind_good (class_name_ext enc_assertion)) by exact class_name_good.
      change (p2_attr enc_self "xmlstr") with (PStr xs). rewrite (py_bind_good (PStr xs)) by reflexivity.
      rewrite check_spec. destruct v; cbn [enc_vres verify_assertions].
      + rewrite py_bindh_good by (unfold enc_assertion; rewrite Hp; destruct ai; reflexivity).
        rewrite HK. destruct im_s; reflexivity.
      + reflexivity.
      + reflexivity.
      + reflexivity.
    - assert (Hb : p2_branch (p2_or (p2_not (p2_hasattr enc_assertion "signature")) (p2_not (p2_attr enc_assertion "signature"))) = BTrue)
        by (unfold enc_assertion; rewrite Hp; destruct ai; reflexivity).
      rewrite Hb. change (p2_attr enc_self "require_signature") with (PBool q). rewrite p2_branch_bool.
      destruct q; cbn [verify_assertions]; [reflexivity|]. rewrite HK. destruct im_s; reflexivity.
  Qed.
End Assertion.

Example assertion_hyps_sat :
  let a := enc_assertion true (Some "https://idp.example.org/idp.xml") in
  let check_sig3 := fun _ _ _ : pyval => enc_vres a VOk in
  let cn := fun _ : pyval => PStr "urn:oasis:names:tc:SAML:2.0:assertion:Assertion" in
  let issuer := fun _ : pyval => PStr "https://idp.example.org/idp.xml" in
  end_ascii (strip "https://idp.example.org/idp.xml") = true /\ is_bad (cn a) = false
  /\ check_sig3 a (cn a) (PStr "<xml/>") = enc_vres a VOk
  /\ issuer (enc_self false "<xml/>") = enc_ostr (Some "https://idp.example.org/idp.xml")
  /\ (forall s : pyval, is_bad ((fun _ => PBool true) s) = false)
  /\ (forall s : pyval, (fun _ => PBool true) s = PBool true).
Proof. repeat split. Qed.

(* the issuer comparison on the entity IDs of the harness federation is Model.issuers_match *)
Definition who_name (w : who) : option string :=
  match w with
  | WIdp => Some "https://idp.example.org/idp.xml" | WOther => Some "https://other.example.org/idp.xml"
  | WUnknown => Some "https://unknown.example.net/idp.xml" | WNone => None
  end.
Lemma im_s_issuers_match m : im_s (who_name (r_who m)) (who_name (a_who m)) = issuers_match m.
Proof. unfold issuers_match. destruct (r_who m), (a_who m); reflexivity. Qed.

(* ================================================================================================ *)
(* 3. Entity._parse_response = core (the two forced passes and the either-or test) *)

Definition bind_uri (b : bind) : string :=
  match b with
  | POST => "urn:oasis:names:tc:SAML:2.0:bindings:HTTP-POST" | Redirect => "urn:oasis:names:tc:SAML:2.0:bindings:HTTP-Redirect"
  | SOAP => "urn:oasis:names:tc:SAML:2.0:bindings:SOAP" | PAOS => "urn:oasis:names:tc:SAML:2.0:bindings:PAOS"
  end.

(* the outcome of _parse_response with the NAME of the exception: core says whether it is an identity *)
Inductive result := RIdentity | RExc (n : string).
Definition is_sigver (n : string) : bool := existsb (String.eqb n) ["SigverError"; "MissingKey"; "SignatureError"].

Definition core_exc (wr wa wor : bool) (r a : sres) (im : bool) (b : bind) : result :=
  match b with
  | PAOS => RExc "UnknownBinding"
  | _ =>
    let pass1 :=
      match loads_exc true r with
      | None => inl true
      | Some n => if is_sigver n then (if wr then inr n else match loads_exc wr r with None => inl false | Some n' => inr n' end)
                  else inr n
      end in
    match pass1 with
    | inr n => RExc n
    | inl response_is_signed =>
      let pass2 :=
        match verify_exc true a im with
        | None => inl true
        | Some n => if String.eqb n "SignatureError"
                    then (if wa then inr n else match verify_exc wa a im with None => inl false | Some n' => inr n' end)
                    else inr n
        end in
      match pass2 with
      | inr n => RExc n
      | inl assertions_are_signed =>
          if wor && negb response_is_signed && negb assertions_are_signed then RExc "SigverError" else RIdentity
      end
    end
  end.

Lemma core_exc_core wr wa wor r a im b :
  match core_exc wr wa wor r a im b with RIdentity => true | RExc _ => false end = core wr wa wor r a im b.
Proof. destruct wr, wa, wor, r, a, im, b; reflexivity. Qed.

(* the AuthnResponse object as far as _parse_response looks at it *)
Definition enc_resp (wr wa wor : bool) : pyval :=
  PObj [("__class__", PStr "AuthnResponse"); ("require_signature", PBool wa);
        ("require_signature_or_response_signature", PBool wor); ("require_response_signature", PBool wr);
        ("assertion", PNone)].

(* externals, answering what the model's sub-functions say:
   response.loads -> StatusResponse._loads -> signature_check = correctly_signed_response (theorem 1): depends on the
   requirement flag the object carries AT THE TIME OF THE CALL and on what is found on the Response;
   response.verify -> parse_assertion -> _assertion (theorem 2) likewise; Entity.unravel knows no PAOS;
   response_cls(self.sec, **kwargs) builds the object from the keywords (theorem 4) *)
Definition ext_loads (r : sres) : pyval -> pyval -> pyval -> pyval -> pyval := fun resp _ _ _ =>
  match p2_attr resp "require_response_signature" with
  | PBool q => match loads_exc q r with None => resp | Some n => PExc n end
  | _ => PErr
  end.
Definition ext_verify (a : sres) (im : bool) : pyval -> pyval -> pyval := fun resp _ =>
  match p2_attr resp "require_signature" with
  | PBool q => match verify_exc q a im with None => resp | Some n => PExc n end
  | _ => PErr
  end.
Definition ext_unravel : pyval -> pyval -> pyval -> pyval -> pyval := fun _ x bnd _ =>
  match bnd with PStr s => if String.eqb s (bind_uri PAOS) then PExc "UnknownBinding" else x | _ => PErr end.
Definition ext_mk : pyval -> pyval -> pyval -> pyval := fun _ _ kw =>
  match p2_get3 kw (PStr "want_response_signed") PNone, p2_get3 kw (PStr "want_assertions_signed") PNone,
        p2_get3 kw (PStr "want_assertions_or_response_signed") PNone with
  | PBool wr, PBool wa, PBool wor => enc_resp wr wa wor
  | _, _, _ => PErr
  end.
Definition ext_endpoint : pyval -> pyval -> pyval -> pyval -> pyval := fun _ _ _ _ => PList [PStr "https://sp.example.org/acs/post"].

Definition enc_entity (time_diff : bool) (wr wa wor : bool) : pyval :=
  PObj [("__class__", PStr "Saml2Client"); ("entity_type", PStr "sp");
        ("config", PObj [("__class__", PStr "SPConfig"); ("accepted_time_diff", if time_diff then PInt 60 else PNone);
                         ("entityid", PStr "https://sp.example.org/sp.xml"); ("attribute_converters", PList []);
                         ("allow_unknown_attributes", PBool false)]);
        ("sec", PObj [("__class__", PStr "SecurityContext")]);
        ("allow_unsolicited", PBool false); ("want_assertions_signed", PBool wa); ("want_response_signed", PBool wr);
        ("want_assertions_or_response_signed", PBool wor)].
Definition enc_cls : pyval := PObj [("__class__", PStr "type"); ("msgtype", PStr "authn_response")].
(* the keywords parse_authn_request_response passes (theorem 5); with_addrs: "return_addrs" among them *)
Definition enc_kwargs (with_addrs : bool) (wr wa wor : bool) : pyval :=
  PObj ([("outstanding_queries", PObj [("req-1", PStr "/")]); ("allow_unsolicited", PBool false);
         ("want_assertions_signed", PBool wa); ("want_assertions_or_response_signed", PBool wor);
         ("want_response_signed", PBool wr)]
        ++ (if with_addrs then [("return_addrs", PList [PStr "https://sp.example.org/acs/post"])] else [])
        ++ [("entity_id", PStr "https://sp.example.org/sp.xml"); ("attribute_converters", PList []);
            ("allow_unknown_attributes", PBool false); ("conv_info", PNone)])%list.

Definition enc_result (wr wa wor : bool) (x : result) : pyval :=
  match x with RIdentity => enc_resp wr wa wor | RExc n => PExc n end.

(* enumeration of the finite domains, for proofs by one evaluation *)
Definition all_bool := [true; false].
Definition all_sres := [SAbsent; SOk; SMissingKey; SSigErr; SCrash].
Definition all_bind := [POST; Redirect; SOAP; PAOS].
Lemma in_all_bool b : In b all_bool. Proof. destruct b; cbn; auto. Qed.
Lemma in_all_sres r : In r all_sres. Proof. destruct r; cbn; auto 6. Qed.
Lemma in_all_bind b : In b all_bind. Proof. destruct b; cbn; auto 6. Qed.
Ltac enum H x lem := rewrite forallb_forall in H; specialize (H x (lem x)).

Definition parse_response_run (time_diff with_addrs wr wa wor : bool) (r a : sres) (im : bool) (b : bind) : pyval :=
  src2_parse_response ext_endpoint ext_mk ext_unravel (ext_loads r) (ext_verify a im)
                      (enc_entity time_diff wr wa wor) (PStr "<xml/>") enc_cls (PStr "assertion_consumer_service")
                      (PStr (bind_uri b)) PNone (enc_kwargs with_addrs wr wa wor).

Lemma parse_response_table_ok :
  forallb (fun td => forallb (fun wad => forallb (fun wr => forallb (fun wa => forallb (fun wor =>
  forallb (fun r => forallb (fun a => forallb (fun im => forallb (fun b =>
    pyval_eqb (parse_response_run td wad wr wa wor r a im b) (enc_result wr wa wor (core_exc wr wa wor r a im b)))
  all_bind) all_bool) all_sres) all_sres) all_bool) all_bool) all_bool) all_bool) all_bool = true.
Proof. vm_compute. reflexivity. Qed.

Theorem src2_parse_response_is_model : forall (time_diff with_addrs wr wa wor : bool) (r a : sres) (im : bool) (b : bind),
  parse_response_run time_diff with_addrs wr wa wor r a im b = enc_result wr wa wor (core_exc wr wa wor r a im b).
Proof.
  intros td wad wr wa wor r a im b. pose proof parse_response_table_ok as H.
  enum H td in_all_bool. enum H wad in_all_bool. enum H wr in_all_bool. enum H wa in_all_bool. enum H wor in_all_bool.
  enum H r in_all_sres. enum H a in_all_sres. enum H im in_all_bool. enum H b in_all_bind.
  apply pyval_eqb_eq. exact H.
Qed.

(* ================================================================================================ *)
(* 4. AuthnResponse.__init__: which keyword becomes which requirement flag *)

Definition ext_status_init : pyval -> pyval := fun _ => PNone.     (* StatusResponse.__init__ returns None *)
Definition blank_response : pyval := PObj [("__class__", PStr "AuthnResponse")].
Definition state_of (v : pyval) : pyval :=
  match v with PList [PNone; s] => s | PList [PExc n; _] => PExc n | _ => PErr end.
Definition acs : pyval := PList [PStr "https://sp.example.org/acs/post"].

Definition authn_response_init_run (wa wor wr : pyval) : pyval :=
  src2_authn_response_init ext_status_init blank_response
    (PObj [("__class__", PStr "SecurityContext")]) (PList []) (PStr "https://sp.example.org/sp.xml") acs
    (PObj [("req-1", PStr "/")]) (PInt 0) (PBool true) (PBool false) (PBool false) (PBool false) wa wor wr PNone (PObj []).

Definition flags_of (s : pyval) : pyval :=
  PList [p2_attr s "require_response_signature"; p2_attr s "require_signature"; p2_attr s "require_signature_or_response_signature"].

Theorem src2_authn_response_init_is_model : forall wa wor wr : bool,
  flags_of (state_of (authn_response_init_run (PBool wa) (PBool wor) (PBool wr))) = PList [PBool wr; PBool wa; PBool wor].
Proof. intros wa wor wr. destruct wa, wor, wr; vm_compute; reflexivity. Qed.

(* Python's binding of `response_cls(self.sec, **kwargs)` to the parameters of AuthnResponse.__init__ *)
Definition kwarg (kw : pyval) (name : string) (dflt : pyval) : pyval := p2_get3 kw (PStr name) dflt.
Definition call_authn_response_init : pyval -> pyval -> pyval -> pyval := fun _ sec kw =>
  state_of (src2_authn_response_init ext_status_init blank_response sec
              (kwarg kw "attribute_converters" PNone) (kwarg kw "entity_id" PNone) (kwarg kw "return_addrs" PNone)
              (kwarg kw "outstanding_queries" PNone) (kwarg kw "timeslack" (PInt 0)) (kwarg kw "asynchop" (PBool true))
              (kwarg kw "allow_unsolicited" (PBool false)) (kwarg kw "test" (PBool false))
              (kwarg kw "allow_unknown_attributes" (PBool false)) (kwarg kw "want_assertions_signed" (PBool false))
              (kwarg kw "want_assertions_or_response_signed" (PBool false)) (kwarg kw "want_response_signed" (PBool false))
              (kwarg kw "conv_info" PNone) (PObj [])).

(* ================================================================================================ *)
(* 5. Base.__init__ = resolve: the option values in force ("true" -> True, unset -> the default of the table) *)

(* what the configuration object stores, as a Python value; the configured option values of the earlier rounds embed *)
Definition enc_sval (v : sval) : pyval := match v with SNone => PNone | SBool b => PBool b | SText s => PStr s end.
Definition sval_of (v : optv) : sval := match v with Unset => SNone | B b => SBool b | StrTrue => SText "true" end.
Definition enc_optv (v : optv) : pyval := enc_sval (sval_of v).
(* self.config.getattr(attr, context) on a configuration OBJECT (round 4): the three options as stored for the SP
   (context "sp"), `other` under every other context ("idp", "aa", "": the want_* names are arguments of no other
   section, so a loaded object has nothing there, but the theorem lets anything be there); context None reads under
   the object's current context; no other attribute is configured *)
Definition ctx_of_str (s : string) : option octx :=
  if String.eqb s "sp" then Some XSp else if String.eqb s "idp" then Some XIdp
  else if String.eqb s "aa" then Some XAa else if String.eqb s "" then Some XNo else None.
Definition ext_getattr_ctx (o_wr o_wa o_wor other : sval) (cur : octx) : pyval -> pyval -> pyval -> pyval := fun _ attr ctx =>
  let under x := match x with XSp => (o_wr, o_wa, o_wor) | _ => (other, other, other) end in
  let answer x :=
    match attr with
    | PStr n => let '(a, b, c) := under x in
                if String.eqb n "want_response_signed" then enc_sval a
                else if String.eqb n "want_assertions_signed" then enc_sval b
                else if String.eqb n "want_assertions_or_response_signed" then enc_sval c else PNone
    | _ => PErr
    end in
  match ctx with
  | PNone => answer cur
  | PStr c => match ctx_of_str c with Some x => answer x | None => PNone end
  | _ => PErr
  end.
(* the SPConfig of the earlier rounds: current context "sp", nothing under the other contexts *)
Definition ext_getattr (o_wr o_wa o_wor : optv) : pyval -> pyval -> pyval -> pyval :=
  ext_getattr_ctx (sval_of o_wr) (sval_of o_wa) (sval_of o_wor) SNone XSp.
Definition ext_entity_init : pyval -> pyval := fun _ => PNone.
Definition ext_population : pyval -> pyval := fun _ => PObj [("__class__", PStr "Population")].
Definition ext_lock : pyval := PObj [("__class__", PStr "lock")].
(* the object as Entity.__init__ leaves it (its effect on self is external) *)
Definition sp_after_entity_init : pyval :=
  PObj [("__class__", PStr "Saml2Client"); ("entity_type", PStr "sp");
        ("config", PObj [("__class__", PStr "SPConfig"); ("accepted_time_diff", PNone);
                         ("entityid", PStr "https://sp.example.org/sp.xml"); ("attribute_converters", PList []);
                         ("allow_unknown_attributes", PBool false)]);
        ("sec", PObj [("__class__", PStr "SecurityContext")])].

Definition base_init_run (o_wr o_wa o_wor : optv) : pyval :=
  src2_base_init ext_entity_init ext_population ext_lock (ext_getattr o_wr o_wa o_wor)
                 sp_after_entity_init PNone PNone PNone (PStr "") (PStr "") PNone.

Definition options_of (s : pyval) : pyval :=
  PList [p2_attr s "want_response_signed"; p2_attr s "want_assertions_signed"; p2_attr s "want_assertions_or_response_signed"].

Theorem src2_base_init_is_model : forall o_wr o_wa o_wor : optv,
  options_of (state_of (base_init_run o_wr o_wa o_wor))
  = PList [PBool (resolve o_wr want_response_signed_default); PBool (resolve o_wa want_assertions_signed_default);
           PBool (resolve o_wor want_assertions_or_response_signed_default)].
Proof. intros o_wr o_wa o_wor. destruct o_wr as [|[|]|], o_wa as [|[|]|], o_wor as [|[|]|]; vm_compute; reflexivity. Qed.

(* the whole object: everything but the three options is the same for every configuration *)
Definition sp_ready (wr wa wor : bool) : pyval :=
  state_of (base_init_run (B wr) (B wa) (B wor)).
Lemma base_init_state o_wr o_wa o_wor :
  state_of (base_init_run o_wr o_wa o_wor)
  = sp_ready (resolve o_wr want_response_signed_default) (resolve o_wa want_assertions_signed_default)
             (resolve o_wor want_assertions_or_response_signed_default).
Proof. destruct o_wr as [|[|]|], o_wa as [|[|]|], o_wor as [|[|]|]; vm_compute; reflexivity. Qed.

(* round 4: the same for every configuration OBJECT — whatever its current context, whatever sits under the other
   contexts and however the values are spelled, Base.__init__ reads the options stored for the SP as fix 6bdc97cd
   reads them (Model.as_optv), and raises SAMLError when one of them is an unreadable word.  Proved by one evaluation
   over a SAMPLE of objects (the translated code is not run symbolically on an arbitrary str): the stored triples
   `all_triples` = {absent, True, False, "true"}^3 and every one of 13 texts at every one of the three options next to
   {absent, "FALSE"}^2, x value elsewhere in {absent, "False"} x the 4 current contexts = 1760 objects. *)
Definition all_optv := [Unset; B true; B false; StrTrue].
Definition all_octx := [XSp; XIdp; XAa; XNo].
Definition all_texts := ["true"; "false"; "True"; "FALSE"; "no"; "0"; " false "; ""; "maybe"; "yes"; "1"; " ON "; "off"].
Definition all_other := [SNone; SText "False"].
Definition small_sval := [SNone; SText "FALSE"].
Definition all_triples : list (sval * sval * sval) :=
  (flat_map (fun a => flat_map (fun b => map (fun c => (sval_of a, sval_of b, sval_of c)) all_optv) all_optv) all_optv
   ++ flat_map (fun t => flat_map (fun a => flat_map (fun b => [(SText t, a, b); (a, SText t, b); (a, b, SText t)]) small_sval) small_sval)
               all_texts)%list.
Lemma in_all_optv v : In v all_optv. Proof. destruct v as [|[|]|]; cbn; auto 6. Qed.
Lemma in_all_octx x : In x all_octx. Proof. destruct x; cbn; auto 6. Qed.

Definition sval_eqb (a b : sval) : bool :=
  match a, b with
  | SNone, SNone => true | SBool x, SBool y => Bool.eqb x y | SText x, SText y => String.eqb x y | _, _ => false
  end.
Lemma sval_eqb_eq a b : sval_eqb a b = true -> a = b.
Proof.
  destruct a, b; cbn; intros H; try discriminate; try reflexivity.
  - apply Bool.eqb_prop in H. congruence.
  - apply String.eqb_eq in H. congruence.
Qed.
Definition triple_eqb (x y : sval * sval * sval) : bool :=
  let '(a, b, c) := x in let '(a', b', c') := y in sval_eqb a a' && sval_eqb b b' && sval_eqb c c'.
Definition listed_b (t : sval * sval * sval) : bool := existsb (triple_eqb t) all_triples.
Lemma listed_b_in t : listed_b t = true -> In t all_triples.
Proof.
  unfold listed_b. rewrite existsb_exists. intros ([[a' b'] c'] & Hin & He). destruct t as [[a b] c]. cbn in He.
  apply andb_true_iff in He. destruct He as [He H3]. apply andb_true_iff in He. destruct He as [H1 H2].
  apply sval_eqb_eq in H1, H2, H3. subst. exact Hin.
Qed.

Definition base_init_ctx (o_wr o_wa o_wor other : sval) (cur : octx) : pyval :=
  src2_base_init ext_entity_init ext_population ext_lock (ext_getattr_ctx o_wr o_wa o_wor other cur)
                 sp_after_entity_init PNone PNone PNone (PStr "") (PStr "") PNone.

(* what the model says the constructor leaves: the object with the values in force, or SAMLError *)
Definition base_init_expected (o_wr o_wa o_wor : sval) : pyval :=
  match as_optv o_wr, as_optv o_wa, as_optv o_wor with
  | Some a, Some b, Some c => sp_ready (resolve a want_response_signed_default) (resolve b want_assertions_signed_default)
                                        (resolve c want_assertions_or_response_signed_default)
  | _, _, _ => PExc "SAMLError"
  end.

Lemma base_init_ctx_table_ok :
  forallb (fun t : sval * sval * sval => forallb (fun other => forallb (fun cur =>
    pyval_eqb (state_of (base_init_ctx (fst (fst t)) (snd (fst t)) (snd t) other cur))
              (base_init_expected (fst (fst t)) (snd (fst t)) (snd t)))
  all_octx) all_other) all_triples = true.
Proof. vm_compute. reflexivity. Qed.

Lemma base_init_ctx_state o_wr o_wa o_wor other cur :
  listed_b (o_wr, o_wa, o_wor) = true -> In other all_other ->
  state_of (base_init_ctx o_wr o_wa o_wor other cur) = base_init_expected o_wr o_wa o_wor.
Proof.
  intros I1 I4. apply listed_b_in in I1. pose proof base_init_ctx_table_ok as H.
  rewrite forallb_forall in H; specialize (H _ I1). rewrite forallb_forall in H; specialize (H other I4).
  enum H cur in_all_octx. apply pyval_eqb_eq. exact H.
Qed.

(* a client whose options are written in the sampled spellings *)
Definition listed (k : client) : Prop := listed_b (stored (k_wr k), stored (k_wa k), stored (k_wor k)) = true.

Definition base_init_client (k : client) : pyval :=
  base_init_ctx (config_object k XSp NWr) (config_object k XSp NWa) (config_object k XSp NWor) SNone (current_ctx k).

Lemma base_init_client_state k : listed k ->
  state_of (base_init_client k)
  = match read_config k with
    | Some c => sp_ready (resolve (c_wr c) want_response_signed_default) (resolve (c_wa c) want_assertions_signed_default)
                         (resolve (c_wor c) want_assertions_or_response_signed_default)
    | None => PExc "SAMLError"
    end.
Proof.
  intros L. unfold listed in L. unfold base_init_client. destruct (config_object_sp k) as (H1 & H2 & H3).
  rewrite H1, H2, H3. rewrite (base_init_ctx_state _ _ _ SNone (current_ctx k) L) by (cbn; auto).
  unfold base_init_expected, read_config, obj_getattr. rewrite H1, H2, H3.
  destruct (as_optv (stored (k_wr k))), (as_optv (stored (k_wa k))), (as_optv (stored (k_wor k))); reflexivity.
Qed.

(* the clients of the earlier rounds and every client that spells one option as one of the 13 texts are listed *)
Example listed_examples :
  listed (client_of {| c_wr := StrTrue; c_wa := B false; c_wor := Unset; c_only := Unset |})
  /\ listed {| k_deliver := DObject CIdp; k_assigned := Some XAa; k_proxy := true; k_wr := WSet (PT " false "); k_wa := WDict (PT "FALSE");
               k_wor := WUnset; k_only := Unset |}
  /\ listed {| k_deliver := DDict; k_assigned := None; k_proxy := false; k_wr := WUnset; k_wa := WUnset; k_wor := WDict (PT "maybe"); k_only := Unset |}.
Proof. repeat split; vm_compute; reflexivity. Qed.

Theorem src2_base_init_client_is_model : forall k : client, listed k ->
  match read_config k with
  | Some c => options_of (state_of (base_init_client k))
              = PList [PBool (resolve (c_wr c) want_response_signed_default); PBool (resolve (c_wa c) want_assertions_signed_default);
                       PBool (resolve (c_wor c) want_assertions_or_response_signed_default)]
  | None => state_of (base_init_client k) = PExc "SAMLError"
  end.
Proof.
  intros k L. rewrite (base_init_client_state k L). destruct (read_config k) as [c|]; [|reflexivity].
  destruct (resolve (c_wr c) _), (resolve (c_wa c) _), (resolve (c_wor c) _); vm_compute; reflexivity.
Qed.

(* ================================================================================================ *)
(* 6. Base.parse_authn_request_response: which attribute of the SP becomes which keyword of _parse_response *)

Definition ext_service_urls : pyval -> pyval -> pyval := fun _ _ => acs.
Definition ext_add_info : pyval -> pyval -> pyval := fun _ _ => PNone.
Definition ext_session_info : pyval -> pyval := fun _ => PObj [].
(* an external _parse_response that hands back what it was called with *)
Definition echo_parse_response : pyval -> pyval -> pyval -> pyval -> pyval -> pyval -> pyval := fun _ x cls svc bnd kw =>
  PObj [("__class__", PStr "AuthnResponse"); ("called_with", PList [x; cls; svc; bnd; kw]); ("assertion", PNone)].

Theorem src2_parse_authn_request_response_plumbing : forall (wr wa wor : bool) (b : bind),
  src2_parse_authn_request_response ext_service_urls echo_parse_response ext_add_info ext_session_info
    (sp_ready wr wa wor) (PStr "<xml/>") (PStr (bind_uri b)) (PObj [("req-1", PStr "/")]) PNone PNone
  = echo_parse_response PNone (PStr "<xml/>") enc_cls (PStr "assertion_consumer_service") (PStr (bind_uri b))
      (PObj [("outstanding_queries", PObj [("req-1", PStr "/")]); ("outstanding_certs", PNone);
             ("allow_unsolicited", PBool false); ("want_assertions_signed", PBool wa);
             ("want_assertions_or_response_signed", PBool wor); ("want_response_signed", PBool wr);
             ("return_addrs", acs); ("entity_id", PStr "https://sp.example.org/sp.xml"); ("attribute_converters", PList []);
             ("allow_unknown_attributes", PBool false); ("conv_info", PNone)]).
Proof. intros wr wa wor b. destruct wr, wa, wor, b; vm_compute; reflexivity. Qed.

(* ================================================================================================ *)
(* 7. the chain: configured option values -> Base.__init__ -> parse_authn_request_response -> _parse_response ->
      AuthnResponse.__init__ -> the two passes = core on the values in force *)

(* Python's binding of `self._parse_response(xmlstr, AuthnResponse, "assertion_consumer_service", binding, **kwargs)`:
   outstanding_certs is a named parameter, the other keywords travel on as **kwargs *)
Definition call_parse_response (r a : sres) (im : bool) : pyval -> pyval -> pyval -> pyval -> pyval -> pyval -> pyval :=
  fun self x cls svc bnd kw =>
    src2_parse_response ext_endpoint call_authn_response_init ext_unravel (ext_loads r) (ext_verify a im)
                        self x cls svc bnd (kwarg kw "outstanding_certs" PNone) (p2_pop_rest kw (PStr "outstanding_certs")).

Definition outcome_of (v : pyval) : result :=
  match v with
  | PExc n => RExc n
  | PObj (("__class__", PStr "AuthnResponse") :: _) => RIdentity
  | _ => RExc "no response"
  end.

(* sp: the Saml2Client object *)
Definition chain_run (sp : pyval) (r a : sres) (im : bool) (b : bind) : pyval :=
  src2_parse_authn_request_response ext_service_urls (call_parse_response r a im) ext_add_info ext_session_info
    sp (PStr "<xml/>") (PStr (bind_uri b)) (PObj [("req-1", PStr "/")]) PNone PNone.

Lemma chain_table_ok :
  forallb (fun wr => forallb (fun wa => forallb (fun wor => forallb (fun r => forallb (fun a => forallb (fun im => forallb (fun b =>
    match outcome_of (chain_run (sp_ready wr wa wor) r a im b), core_exc wr wa wor r a im b with
    | RIdentity, RIdentity => true
    | RExc n, RExc n' => String.eqb n n'
    | _, _ => false
    end) all_bind) all_bool) all_sres) all_sres) all_bool) all_bool) all_bool = true.
Proof. vm_compute. reflexivity. Qed.

Theorem src2_chain_is_model : forall (o_wr o_wa o_wor : optv) (r a : sres) (im : bool) (b : bind),
  outcome_of (chain_run (state_of (base_init_run o_wr o_wa o_wor)) r a im b)
  = core_exc (resolve o_wr want_response_signed_default) (resolve o_wa want_assertions_signed_default)
             (resolve o_wor want_assertions_or_response_signed_default) r a im b.
Proof.
  intros o_wr o_wa o_wor r a im b. rewrite base_init_state.
  set (wr := resolve o_wr _). set (wa := resolve o_wa _). set (wor := resolve o_wor _).
  pose proof chain_table_ok as H.
  enum H wr in_all_bool. enum H wa in_all_bool. enum H wor in_all_bool.
  enum H r in_all_sres. enum H a in_all_sres. enum H im in_all_bool. enum H b in_all_bind.
  destruct (outcome_of (chain_run (sp_ready wr wa wor) r a im b)), (core_exc wr wa wor r a im b); try discriminate H; try reflexivity.
  apply String.eqb_eq in H. rewrite H. reflexivity.
Qed.

(* ... which is the verdict of the model on the whole message *)
Corollary src2_chain_parse_message : forall (c : config) (m : msg),
  let r := look (resolve (c_only c) only_use_keys_in_metadata_default) (r_who m) (r_schema_ok m) (m_rs m) in
  let a := look (resolve (c_only c) only_use_keys_in_metadata_default) (a_issuer m) (has_issuer (a_who m)) (m_as m) in
  match outcome_of (chain_run (state_of (base_init_run (c_wr c) (c_wa c) (c_wor c))) r a (issuers_match m) (m_bind m))
  with RIdentity => true | RExc _ => false end
  = parse_message c m.
Proof. intros c m r a. rewrite src2_chain_is_model, core_exc_core. reflexivity. Qed.

(* round 4: the same chain from a configuration OBJECT of any class / current context / delivery, options in the
   sampled spellings, when the constructor does not raise *)
Corollary src2_chain_client : forall (k : client) (c : config) (m : msg), listed k -> read_config k = Some c ->
  let r := look (resolve (c_only c) only_use_keys_in_metadata_default) (r_who m) (r_schema_ok m) (m_rs m) in
  let a := look (resolve (c_only c) only_use_keys_in_metadata_default) (a_issuer m) (has_issuer (a_who m)) (m_as m) in
  match outcome_of (chain_run (state_of (base_init_client k)) r a (issuers_match m) (m_bind m))
  with RIdentity => true | RExc _ => false end
  = parse_message c m.
Proof.
  intros k c m L E r a. rewrite (base_init_client_state k L), E, <- base_init_state. apply src2_chain_parse_message.
Qed.
