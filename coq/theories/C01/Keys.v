(* C01/Keys.v — round 6: (1) which ds:Signature the engine verifies versus which one the library inspects;
   (2) which private keys open an EncryptedAssertion, and which pass of Entity._parse_response is given them. *)
From Coq Require Import Bool String List Arith Lia.
From Verif Require Import C01.Model C01.Spec C01.Proofs.
From VerifGen Require Import C01Tables.
Import ListNotations.

(* ---- (1) the tie between the engine's signature and the parsed one ----------------------------------------- *)

(* the code's guard makes the first ds:Signature at or below the element the element's own Signature child *)
Lemma tie_engine s : only_signature_child s = true -> engine_target s = EOwn.
Proof. unfold only_signature_child, engine_target. destruct (xsig s) as [| | |[|] k b]; cbn; congruence. Qed.

(* with that guard, the verdict computed through the engine's choice is the verdict of Model.check_signature *)
Lemma check_signature_engine only w ok g :
  check_signature_with only_signature_child only w ok g = check_signature only w ok g.
Proof.
  unfold check_signature_with, check_signature, profile_gate.
  destruct (is_nil (if is_nil (md_certs w) && negb only then instance_certs g else md_certs w)); [reflexivity|].
  destruct (negb ok); [reflexivity|].
  destruct (crashes (parsed (shp g))); [reflexivity|].
  destruct (negb (validators (parsed (shp g)))); [reflexivity|].
  destruct (only_signature_child (shp g)) eqn:T; cbn [negb]; [|reflexivity].
  unfold engine_verify. rewrite (tie_engine _ T). reflexivity.
Qed.

(* the weaker guard "exactly one Signature CHILD" (seeded change C01-a) gives the same verdicts on every element whose
   Signature stands where the schema puts it ... *)
Lemma children_only_agrees_in_place only w ok g :
  in_place (shp g) = true ->
  check_signature_with one_signature_child only w ok g = check_signature_with only_signature_child only w ok g.
Proof.
  unfold check_signature_with, one_signature_child, only_signature_child, in_place.
  destruct (xsig (shp g)) as [| | |[|] k b]; intros H; try discriminate H; reflexivity.
Qed.

Definition wrapped (own nested : key) : sgn :=
  {| signer := own; ki := KiNone; corrupt := false;
     shp := {| refs := [ROwn]; c14n := CExc; trs := [TEnv; TExc]; obj := false; xsig := XIn true nested false |} |}.

(* ... and lets the signature of a DESCENDANT (a genuine assertion of the IdP for another account, parked in the Advice
   ahead of the element's Signature child) stand in for the element's own, made by anybody: the code's guard refuses
   it, the state of the text is Untrusted *)
Example children_only_refuted :
  let g := wrapped KAttacker KIdp in
  let c := {| c_wr := B false; c_wa := B true; c_wor := Unset; c_only := Unset |} in
  check_signature_with one_signature_child true WIdp true g = VOk
  /\ check_signature true WIdp true g = VSigErr
  /\ state c WIdp (Some g) = Untrusted
  /\ parse_message c {| r_who := WIdp; a_who := WIdp; m_rs := None; m_as := Some g; m_enc := false; m_bind := POST |} = false.
Proof. vm_compute. repeat split; reflexivity. Qed.

(* a descendant's signature after the element's own changes nothing *)
Lemma nested_after_irrelevant only w ok k i cr rf ca t o nk nb :
  check_signature only w ok {| signer := k; ki := i; corrupt := cr; shp := {| refs := rf; c14n := ca; trs := t; obj := o; xsig := XIn false nk nb |} |}
  = check_signature only w ok {| signer := k; ki := i; corrupt := cr; shp := {| refs := rf; c14n := ca; trs := t; obj := o; xsig := XNone |} |}.
Proof. reflexivity. Qed.

(* ---- (2) the keys that open an EncryptedAssertion ---------------------------------------------------------- *)

Lemma opens_holds o r : opens (request_keys o) r = holds_key o r.
Proof.
  unfold opens, keys_tried, holds_key. rewrite existsb_app. cbn [existsb].
  destruct o as [| |ks|ks]; destruct r; cbn; rewrite ?orb_false_r, ?orb_true_r; reflexivity.
Qed.

Lemma walked_used x : walked (request_keys (x_oc x)) x = used x.
Proof. unfold walked, used, can_read. rewrite opens_holds. reflexivity. Qed.

Lemma schema_plain l : forallb x_schema_ok (filter (fun a => negb (x_enc a)) l) = forallb x_schema_ok l.
Proof.
  induction l as [|a l IH]; [reflexivity|]. cbn [filter forallb].
  destruct (x_enc a) eqn:E; cbn [negb forallb]; rewrite IH; [|reflexivity].
  unfold x_schema_ok at 2. rewrite E. reflexivity.
Qed.

Lemma used_schema x : mm_schema_ok (used x) = mm_schema_ok (xm x).
Proof. unfold used, mm_schema_ok. destruct (can_read x); [reflexivity|]. cbn [with_asl mm_asl]. apply schema_plain. Qed.

Lemma core_gen_ext wr wa wor r v v' b : (forall q, v q = v' q) -> core_gen wr wa wor r v b = core_gen wr wa wor r v' b.
Proof. intros H. unfold core_gen. rewrite !H. reflexivity. Qed.

(* both passes holding the same keys: the walk of `used x` under the number rule of what the Response carries *)
Lemma parse_xmsg_walk c x :
  parse_xmsg c x = parse_walk (count_ok (mm_asl (xm x)) && nonempty_l (mm_asl (used x))) c (used x).
Proof.
  unfold parse_xmsg, parse_xmsg_keys, parse_walk. cbv zeta. rewrite walked_used, used_schema.
  assert (mm_rwho (used x) = mm_rwho (xm x) /\ mm_rs (used x) = mm_rs (xm x) /\ mm_bind (used x) = mm_bind (xm x)) as (-> & -> & ->)
    by (unfold used; destruct (can_read x); repeat split; reflexivity).
  apply core_gen_ext. intros [|]; reflexivity.
Qed.

Lemma parse_walk_eq okc c mm :
  parse_walk okc c mm =
  core_gen (wr_c c) (wa_c c) (wor_c c) (look (only_md c) (mm_rwho mm) (mm_schema_ok mm) (mm_rs mm))
           (fun q => verify_all q okc (schedule (only_md c) mm)) (mm_bind mm).
Proof.
  unfold parse_walk, wr_c, wa_c, wor_c, only_md.
  destruct c as [o1 o2 o3 o4]; destruct o1 as [|[|]|], o2 as [|[|]|], o3 as [|[|]|], o4 as [|[|]|]; reflexivity.
Qed.

Lemma parse_walk_char okc c mm :
  let R := look (only_md c) (mm_rwho mm) (mm_schema_ok mm) (mm_rs mm) in
  let V q := okc && (forallb (x_done (only_md c) q mm) (mm_asl mm) && negb (several_unsigned mm)) in
  parse_walk okc c mm =
  negb (is_paos (mm_bind mm)) && is_done (load_response (wr_c c) R) && V (wa_c c)
  && negb (wor_c c && negb (is_done (load_response true R)) && negb (V true)).
Proof.
  cbv zeta. rewrite parse_walk_eq.
  rewrite core_gen_char; [|apply verify_all_mono1|apply verify_all_mono2].
  rewrite !verify_all_done, !schedule_done. reflexivity.
Qed.

(* the number rule's verdict is a factor *)
Lemma walk_okc okc c mm : parse_walk okc c mm = okc && parse_walk true c mm.
Proof.
  rewrite !parse_walk_char. cbv zeta. destruct okc; cbn [andb]; [reflexivity|].
  rewrite andb_false_r. reflexivity.
Qed.

Lemma parse_mmsg_walk c mm : parse_mmsg c mm = parse_walk (count_ok (mm_asl mm)) c mm.
Proof. reflexivity. Qed.

(* DECOMPOSITION of the walk of a non-empty list, whatever the number rule says about it *)
Lemma walk_decomp c mm :
  mm_asl mm <> [] ->
  parse_walk true c mm = negb (several_unsigned mm) && forallb (fun x => parse_message c (as_msg mm x)) (mm_asl mm).
Proof.
  intros Hne. rewrite parse_walk_char. cbv zeta. cbn [andb].
  destruct (several_unsigned mm); cbn [negb andb].
  - rewrite !andb_false_r. reflexivity.
  - rewrite !andb_true_r.
    destruct (mm_rs mm) as [g|] eqn:Hrs.
    + destruct (mm_schema_ok mm) eqn:Hs.
      * rewrite <- (forallb_either _ _ _ _ _ _ Hne). apply forallb_ext_in. intros x Hx.
        rewrite parse_message_char. cbv zeta. rewrite r_schema_as_msg. cbn [as_msg r_who m_rs m_bind a_who m_as].
        unfold mm_schema_ok in Hs. rewrite forallb_forall in Hs. rewrite (Hs x Hx), Hrs. reflexivity.
      * rewrite load_noschema, andb_false_r. cbn [andb]. symmetry.
        unfold mm_schema_ok in Hs. apply (forallb_false_impl x_schema_ok _ _ ) with (2 := Hs).
        intros x Hx. rewrite parse_message_char. cbv zeta. rewrite r_schema_as_msg, Hx. cbn [as_msg r_who m_rs].
        rewrite Hrs, load_noschema, andb_false_r. reflexivity.
    + rewrite <- (forallb_either _ _ _ _ _ _ Hne). apply forallb_ext_in. intros x Hx.
      rewrite parse_message_char. cbv zeta. cbn [as_msg r_who m_rs m_bind a_who m_as]. rewrite Hrs. reflexivity.
Qed.

(* when the Response yields an identity with every single assertion of a non-empty list, the list satisfies the options *)
Lemma all_msgs_satisfied c mm :
  mm_asl mm <> [] -> Forall (fun x => parse_message c (as_msg mm x) = true) (mm_asl mm) -> satisfied_mm c mm.
Proof.
  intros Hne Hall.
  assert (Forall (fun x => satisfied_m c (as_msg mm x)) (mm_asl mm)) as Hs.
  { rewrite Forall_forall in *. intros x Hx. destruct (policy_holds_m c (as_msg mm x)) as [K _]. apply K, Hall, Hx. }
  clear Hall. unfold satisfied_mm. unfold satisfied_m in Hs.
  change (fun x => ok (r_state c (as_msg mm x)) /\ ok (a_state c (as_msg mm x))
                   /\ (wr_c c = true -> r_state c (as_msg mm x) = Valid) /\ (wa_c c = true -> a_state c (as_msg mm x) = Valid)
                   /\ (wor_c c = true -> r_state c (as_msg mm x) = Valid \/ a_state c (as_msg mm x) = Valid))
    with (fun x => ok (rr_state c mm) /\ ok (x_state c x) /\ (wr_c c = true -> rr_state c mm = Valid)
                   /\ (wa_c c = true -> x_state c x = Valid) /\ (wor_c c = true -> rr_state c mm = Valid \/ x_state c x = Valid)) in Hs.
  destruct (mm_asl mm) as [|x0 l] eqn:El; [congruence|].
  pose proof (Forall_inv Hs) as (H1 & _ & H3 & _ & _).
  rewrite Forall_forall in Hs.
  repeat split.
  + exact H1.
  + apply Forall_forall. intros x Hx. apply (Hs x Hx).
  + exact H3.
  + intros W. apply Forall_forall. intros x Hx. apply (Hs x Hx), W.
  + intros W. destruct (rr_state c mm) eqn:Er; try (left; reflexivity); right; apply Forall_forall; intros x Hx;
      destruct (Hs x Hx) as (_ & _ & _ & _ & K); destruct (K W) as [K'|K']; try discriminate K'; exact K'.
Qed.

Lemma count_nonempty l : count_ok l && nonempty_l l = count_ok l.
Proof. destruct l; [reflexivity|apply andb_true_r]. Qed.

(* a receiver that holds the key: exactly the verdict of the earlier rounds *)
Lemma readable_is_mmsg c x : can_read x = true -> parse_xmsg c x = parse_mmsg c (xm x).
Proof.
  intros R. rewrite parse_xmsg_walk. unfold used. rewrite R. rewrite count_nonempty. reflexivity.
Qed.

Lemma plain_msg_is_mmsg c mm : parse_xmsg c (plain_msg mm) = parse_mmsg c mm.
Proof. apply readable_is_mmsg. reflexivity. Qed.

(* THE PROPERTY with the keys: every configuration, every Response, every recipient, every outstanding_certs *)
Lemma policy_holds_x c x : spec_x c x (parse_xmsg c x).
Proof.
  unfold spec_x. destruct (can_read x) eqn:R.
  - rewrite (readable_is_mmsg c x R). unfold used. rewrite R.
    destruct (policy_holds_mm c (xm x)) as [S C]. split; [exact S|]. intros H1 H2 _. exact (C H1 H2).
  - split; [|intros _ _ K; discriminate K].
    rewrite parse_xmsg_walk. set (u := used x). intros H.
    rewrite walk_okc in H. apply andb_true_iff in H. destruct H as [Hk H].
    apply andb_true_iff in Hk. destruct Hk as [_ Hne].
    assert (mm_asl u <> []) as Hne' by (destruct (mm_asl u); [discriminate Hne|discriminate]).
    split; [exact Hne'|].
    rewrite (walk_decomp c u Hne') in H. apply andb_true_iff in H. destruct H as [_ H].
    apply all_msgs_satisfied; [exact Hne'|]. apply Forall_forall. rewrite forallb_forall in H. exact H.
Qed.

Lemma spec_x_b_iff c x i : spec_x_b c x i = true <-> spec_x c x i.
Proof.
  unfold spec_x_b, spec_x. rewrite andb_true_iff, !implb_iff, !andb_true_iff, nonempty_iff.
  rewrite !satisfied_mm_b_iff, otherwise_valid_mm_b_iff. tauto.
Qed.

Lemma table_x c x : spec_x_b c x (parse_xmsg c x) = true.
Proof. apply spec_x_b_iff, policy_holds_x. Qed.

(* an EncryptedAssertion the receiver cannot open contributes nothing: the verdict is the one on the plain assertions *)
Lemma unreadable_plain_only c x :
  can_read x = false ->
  parse_xmsg c x = count_ok (mm_asl (xm x)) && nonempty_l (plain_of (mm_asl (xm x)))
                   && parse_walk true c (with_asl (xm x) (plain_of (mm_asl (xm x)))).
Proof.
  intros R. rewrite parse_xmsg_walk, walk_okc. unfold used. rewrite R. reflexivity.
Qed.

(* which of the keys the receiver holds opens the assertion does not matter *)
Lemma keys_irrelevant c mm r o r' o' :
  holds_key o r = true -> holds_key o' r' = true ->
  parse_xmsg c {| xm := mm; x_rcpt := r; x_oc := o |} = parse_xmsg c {| xm := mm; x_rcpt := r'; x_oc := o' |}.
Proof. intros H H'. rewrite !readable_is_mmsg by assumption. reflexivity. Qed.

(* ---- sequences and clients ---- *)
Lemma spec_seq_x_b_iff c xs ids : spec_seq_x_b c xs ids = true <-> spec_seq_x c xs ids.
Proof.
  unfold spec_seq_x. revert ids. induction xs as [|m ms IH]; intros [|i ids]; cbn.
  - split; [constructor | reflexivity].
  - split; [discriminate | intros H; inversion H].
  - split; [discriminate | intros H; inversion H].
  - rewrite andb_true_iff, spec_x_b_iff, IH. split.
    + intros [H1 H2]. constructor; assumption.
    + intros H. inversion H; subst. split; assumption.
Qed.

Lemma spec_client_x_b_iff k xs ids : spec_client_x_b k xs ids = true <-> spec_client_x k xs ids.
Proof.
  unfold spec_client_x_b, spec_client_x. destruct (meant_config k) as [c|]; [apply spec_seq_x_b_iff|].
  rewrite andb_true_iff, Nat.eqb_eq, forallb_forall, Forall_forall.
  split; intros [H1 H2]; (split; [exact H1|]); intros i Hi; specialize (H2 i Hi); destruct i; try reflexivity; discriminate.
Qed.

Lemma sequence_holds_x c xs : spec_seq_x c xs (sp_run_x c xs).
Proof.
  unfold spec_seq_x, sp_run_x. induction xs as [|m ms IH]; cbn; constructor; [apply policy_holds_x | exact IH].
Qed.

Lemma client_holds_x k xs : spec_client_x k xs (client_run_x k xs).
Proof.
  unfold spec_client_x, client_run_x. rewrite read_config_meant. destruct (meant_config k) as [c|]; [apply sequence_holds_x|].
  split; [apply map_length|]. apply Forall_forall. intros i Hi. apply in_map_iff in Hi. destruct Hi as (m & Hm & _). congruence.
Qed.

(* the messages of the earlier rounds: encrypted for the configured key, no outstanding_certs *)
Lemma client_run_plain k ms : client_run_x k (map plain_msg ms) = client_run_mm k ms.
Proof.
  unfold client_run_x, client_run_mm. destruct (read_config k) as [c|]; [|rewrite map_map; reflexivity].
  unfold sp_run_x, sp_run_mm. rewrite map_map. apply map_ext. intros m. apply plain_msg_is_mmsg.
Qed.

Lemma spec_x_b_plain c mm i : spec_x_b c (plain_msg mm) i = spec_mm_b c mm i.
Proof.
  unfold spec_x_b, spec_mm_b. change (used (plain_msg mm)) with mm. change (xm (plain_msg mm)) with mm.
  change (can_read (plain_msg mm)) with true. rewrite andb_true_r. reflexivity.
Qed.

Lemma spec_client_x_b_plain k ms ids : spec_client_x_b k (map plain_msg ms) ids = spec_client_mm_b k ms ids.
Proof.
  unfold spec_client_x_b, spec_client_mm_b. destruct (meant_config k) as [c|]; [|rewrite map_length; reflexivity].
  revert ids. induction ms as [|m ms IH]; intros [|i ids]; cbn; try reflexivity. rewrite spec_x_b_plain, IH. reflexivity.
Qed.

(* ---- non-vacuity: the keys matter, and so does the pass that is given them ---- *)
Definition idp_sig : option sgn := Some {| signer := KIdp; ki := KiNone; corrupt := false; shp := std |}.
Definition one_enc (a : option sgn) : mmsg :=
  {| mm_rwho := WIdp; mm_rs := idp_sig; mm_asl := [ {| x_who := WIdp; x_sig := a; x_enc := true |} ]; mm_bind := POST |}.
Definition defaults_c : config := {| c_wr := Unset; c_wa := Unset; c_wor := Unset; c_only := Unset |}.

Example keys_matter :
  let m r o := {| xm := one_enc None; x_rcpt := r; x_oc := o |} in
  map (parse_xmsg defaults_c)
      [m DConfigured OAbsent; m DRequest (OThis [DRequest]); m DRequest (OThis [DRequest2; DRequest]); m DConfigured (OThis [DRequest]);
       m DRequest OAbsent; m DRequest OEmpty; m DRequest (OElse [DRequest]); m DRequest (OThis [DRequest2]);
       m DRequest (OThis [DConfigured]); m DForeign (OThis [DRequest])]
  = [true; true; true; true; false; false; false; false; false; false].
Proof. vm_compute. reflexivity. Qed.

(* two plain assertions next to an EncryptedAssertion nobody here can open: the number rule is met by the sealed one,
   the plain ones are taken under the signature of the Response *)
Example sealed_next_to_plain :
  let p := {| x_who := WIdp; x_sig := idp_sig; x_enc := false |} in
  let e := {| x_who := WIdp; x_sig := idp_sig; x_enc := true |} in
  let mm l := {| mm_rwho := WIdp; mm_rs := idp_sig; mm_asl := l; mm_bind := POST |} in
  parse_xmsg defaults_c {| xm := mm [p; p; e]; x_rcpt := DForeign; x_oc := OAbsent |} = true
  /\ parse_mmsg defaults_c (mm [p; p]) = false
  /\ parse_xmsg defaults_c {| xm := mm [e]; x_rcpt := DForeign; x_oc := OAbsent |} = false.
Proof. vm_compute. repeat split; reflexivity. Qed.

(* the seeded change C01-b: a retry that forgets the keys of the request.  It agrees wherever the forced pass succeeds
   (signed assertion) or the configured key opens the assertion; for an unsigned assertion encrypted for the key of
   the request, under a valid signature of the Response, it yields no identity: the spec is broken (completeness) *)
Example retry_bare_refuted :
  let x a := {| xm := one_enc a; x_rcpt := DRequest; x_oc := OThis [DRequest] |} in
  parse_xmsg_retry_bare defaults_c (x idp_sig) = parse_xmsg defaults_c (x idp_sig)
  /\ parse_xmsg defaults_c (x None) = true
  /\ parse_xmsg_retry_bare defaults_c (x None) = false
  /\ spec_x_b defaults_c (x None) (parse_xmsg_retry_bare defaults_c (x None)) = false.
Proof. vm_compute. repeat split; reflexivity. Qed.

Lemma retry_bare_agrees_configured c mm o :
  parse_xmsg_retry_bare c {| xm := mm; x_rcpt := DConfigured; x_oc := o |} = parse_xmsg c {| xm := mm; x_rcpt := DConfigured; x_oc := o |}.
Proof.
  unfold parse_xmsg_retry_bare, parse_xmsg, parse_xmsg_keys, walked, opens, keys_tried. cbv zeta. cbn [x_rcpt x_oc xm].
  rewrite !existsb_app. cbn [existsb dkey_eqb]. rewrite !orb_true_r. reflexivity.
Qed.
