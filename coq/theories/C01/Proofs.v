From Coq Require Import Bool String List Arith Permutation.
From Verif Require Base.Str.
From Verif Require Import C01.Model C01.Spec.
From VerifGen Require Import C01Tables.
Import ListNotations.

(* obligation on the regenerated defaults table *)
Lemma defaults_as_documented :
  want_response_signed_default = true /\ want_assertions_signed_default = false
  /\ want_assertions_or_response_signed_default = false
  /\ only_use_keys_in_metadata_default = true.
Proof. repeat split; reflexivity. Qed.

(* ---- reflection of the boolean spec --------------------------------------------------------------- *)

Lemma sat_b_iff w1 w2 w3 sr sa :
  sat_b w1 w2 w3 sr sa = true <->
  (ok sr /\ ok sa /\ (w1 = true -> sr = Valid) /\ (w2 = true -> sa = Valid)
   /\ (w3 = true -> sr = Valid \/ sa = Valid)).
Proof.
  unfold sat_b, ok.
  destruct sr, sa, w1, w2, w3; cbn; split; intros H;
    try reflexivity; try discriminate;
    try (repeat split; auto; intros; try discriminate; auto; fail);
    try (exfalso; destruct H as (H1 & H2 & H3 & H4 & H5);
         first [ destruct H1; discriminate | destruct H2; discriminate
               | specialize (H3 eq_refl); discriminate | specialize (H4 eq_refl); discriminate
               | destruct (H5 eq_refl); discriminate ]).
Qed.

Lemma satisfied_m_b_iff c m : satisfied_m_b c m = true <-> satisfied_m c m.
Proof. unfold satisfied_m_b, satisfied_m. apply sat_b_iff. Qed.

Lemma otherwise_valid_b_iff m : otherwise_valid_b m = true <-> otherwise_valid m.
Proof.
  unfold otherwise_valid_b, otherwise_valid.
  destruct (sig_in_profile (m_rs m)), (sig_in_profile (m_as m));
  destruct (m_bind m), (a_who m), (r_who m); cbn; split; intros H;
    try reflexivity; try discriminate;
    try (repeat split; try discriminate; auto; fail);
    try (exfalso; destruct H as (H1 & H2 & H3 & H4 & H5);
         first [ discriminate H4 | discriminate H5 | apply H1; reflexivity | apply H2; reflexivity
               | destruct H3; discriminate ]).
Qed.

Lemma spec_m_b_iff c m i : spec_m_b c m i = true <-> spec_m c m i.
Proof.
  unfold spec_m_b, spec_m. rewrite <- satisfied_m_b_iff, <- otherwise_valid_b_iff.
  destruct i; destruct (satisfied_m_b c m); destruct (otherwise_valid_b m); cbn;
    intuition (try discriminate; try congruence).
Qed.

Lemma spec_seq_b_iff c ms ids : spec_seq_b c ms ids = true <-> spec_seq c ms ids.
Proof.
  unfold spec_seq. revert ids. induction ms as [|m ms IH]; intros [|i ids]; cbn.
  - split; [constructor | reflexivity].
  - split; [discriminate | intros H; inversion H].
  - split; [discriminate | intros H; inversion H].
  - rewrite andb_true_iff, spec_m_b_iff, IH. split.
    + intros [H1 H2]. constructor; assumption.
    + intros H. inversion H; subst. split; assumption.
Qed.

(* ---- what the code finds on an element vs. the state of the property text -------------------------- *)

(* sound: the code sees "no signature" exactly for Absent and is content only with Valid *)
Definition rel_sound (r : sres) (s : sigst) : bool :=
  match r, s with
  | SAbsent, Absent => true
  | SOk, Valid => true
  | SMissingKey, (Valid | Corrupt | Untrusted) | SSigErr, (Valid | Corrupt | Untrusted)
  | SCrash, (Valid | Corrupt | Untrusted) => true
  | _, _ => false
  end.
(* exact: moreover every Valid signature is found good *)
Definition rel_exact (r : sres) (s : sigst) : bool :=
  match r, s with
  | SAbsent, Absent => true
  | SOk, Valid => true
  | SMissingKey, (Corrupt | Untrusted) | SSigErr, (Corrupt | Untrusted) | SCrash, (Corrupt | Untrusted) => true
  | _, _ => false
  end.

(* ---- the profile validators of the code vs. the XML Signature profile of SAML core 5.4 --------------- *)

Definition passes (s : shape) : bool := match profile_gate s with GPass => true | _ => false end.

(* the validators table + the only-Signature-child test let through exactly the signatures in profile
   form, for Reference and Transform lists of ANY length *)
Lemma gate_is_profile s : passes s = in_profile s.
Proof.
  destruct s as [rf c t o x]. unfold passes, profile_gate, in_profile, parsed, sole, in_place, only_signature_child.
  cbn [refs c14n trs obj xsig].
  destruct x as [| | |[|] k b].
  - destruct rf as [|r [|r' rf]]; destruct t as [|t1 [|t2 [|t3 t]]];
      try (destruct r); try (destruct t1); try (destruct t2); destruct c, o; reflexivity.
  - rewrite andb_false_r. cbn [negb andb]. destruct (crashes _); [reflexivity|]. destruct (validators _); reflexivity.
  - rewrite andb_false_r. cbn [negb andb]. destruct (crashes _); [reflexivity|]. destruct (validators _); reflexivity.
  - rewrite andb_false_r. cbn [negb]. destruct (crashes _); [reflexivity|]. destruct (validators _); reflexivity.
  - destruct rf as [|r [|r' rf]]; destruct t as [|t1 [|t2 [|t3 t]]];
      try (destruct r); try (destruct t1); try (destruct t2); destruct c, o; reflexivity.
Qed.

Lemma gate_pass_profile s : profile_gate s = GPass -> in_profile s = true.
Proof. intros H. rewrite <- gate_is_profile. unfold passes. rewrite H. reflexivity. Qed.

Lemma profile_gate_pass s : in_profile s = true -> profile_gate s = GPass.
Proof. rewrite <- gate_is_profile. unfold passes. destruct (profile_gate s); congruence. Qed.

(* a signature in profile form digests the element that carries it and is the only one *)
Lemma profile_covers s : in_profile s = true -> covers_own s = true /\ sole s = true.
Proof.
  destruct s as [rf c t o x]. unfold in_profile, covers_own. cbn [refs c14n trs obj xsig].
  intros H. apply andb_true_iff in H. destruct H as [H _]. apply andb_true_iff in H. destruct H as [H Hs]. split; [|exact Hs].
  destruct rf as [|[] [|r' rf]]; try discriminate H. reflexivity.
Qed.

Lemma rel_exact_sound r s : rel_exact r s = true -> rel_sound r s = true.
Proof. destruct r, s; cbn; congruence. Qed.

(* the option plumbing of the model yields the documented values in force (4^4 settings) *)
Lemma parse_message_eq c m :
  parse_message c m =
  core (wr_c c) (wa_c c) (wor_c c)
       (look (only_md c) (r_who m) (r_schema_ok m) (m_rs m))
       (look (only_md c) (a_issuer m) (has_issuer (a_who m)) (m_as m))
       (issuers_match m) (m_bind m).
Proof.
  unfold parse_message, wr_c, wa_c, wor_c, only_md.
  destruct c as [o1 o2 o3 o4]; destruct o1 as [|[|]|], o2 as [|[|]|], o3 as [|[|]|], o4 as [|[|]|]; reflexivity.
Qed.

(* key choice + verification of one element whose schema is in order: exactly the trusted, intact
   signatures pass (2 x 4 x 37 cells) *)
Lemma look_exact c w s :
  sig_in_profile s = true -> rel_exact (look (only_md c) w true s) (state c w s) = true.
Proof.
  destruct s as [[k i cr sh]|]; [|reflexivity]. cbn [sig_in_profile shp]. intros Hp.
  destruct (profile_covers sh Hp) as [Hc Hs]. pose proof (profile_gate_pass sh Hp) as Hg.
  unfold look, check_signature, state, trusted, xmlsec_verify, instance_certs, ships_signer. cbn [shp signer ki corrupt].
  rewrite Hg, Hc, Hs.
  destruct (only_md c), w, k, i, cr; reflexivity.
Qed.

(* a present signature is never overlooked, whatever its shape *)
Lemma look_present only w ok g : look only w ok (Some g) <> SAbsent.
Proof. unfold look. destruct (check_signature only w ok g); discriminate. Qed.

Lemma state_present c w g : state c w (Some g) <> Absent.
Proof.
  unfold state. destruct (corrupt g || negb (covers_own (shp g)) || negb (sole (shp g))); [discriminate|].
  destruct (trusted c w g); discriminate.
Qed.

(* a signature outside the profile never passes *)
Lemma look_off_profile only w ok g : in_profile (shp g) = false -> look only w ok (Some g) <> SOk.
Proof.
  intros Hp. rewrite <- gate_is_profile in Hp. unfold passes in Hp.
  unfold look, check_signature.
  destruct (is_nil _); [discriminate|]. destruct (negb ok); [discriminate|].
  destruct (profile_gate (shp g)); [discriminate Hp | discriminate | discriminate].
Qed.

(* an element that fails the schema never passes, whichever issuer the keys are looked up for *)
Lemma look_noschema only w g : look only w false (Some g) <> SOk.
Proof.
  unfold look, check_signature. destruct (is_nil _); [discriminate|]. cbn [negb]. discriminate.
Qed.

Lemma rel_sound_notok c w r g :
  r <> SAbsent -> r <> SOk -> rel_sound r (state c w (Some g)) = true.
Proof.
  intros H1 H2. pose proof (state_present c w g) as H3.
  destruct r, (state c w (Some g)); try reflexivity; congruence.
Qed.

Lemma look_noschema_sound c w w' s : rel_sound (look (only_md c) w false s) (state c w' s) = true.
Proof.
  destruct s as [g|]; [|reflexivity].
  apply rel_sound_notok; [apply look_present | apply look_noschema].
Qed.

(* whatever the schema check says and whatever the shape of the signature: never more than the
   trusted, intact signatures over the element itself pass *)
Lemma look_sound c w ok s : rel_sound (look (only_md c) w ok s) (state c w s) = true.
Proof.
  destruct ok; [|apply look_noschema_sound].
  destruct (sig_in_profile s) eqn:Hp; [apply rel_exact_sound, look_exact, Hp|].
  destruct s as [g|]; [|discriminate Hp].
  apply rel_sound_notok; [apply look_present | apply look_off_profile, Hp].
Qed.

(* ... and whichever issuer the keys are looked up for (the assertion's own, or the Response's for an
   encrypted assertion without Issuer) *)
Lemma look_sound_a c m :
  rel_sound (look (only_md c) (a_issuer m) (has_issuer (a_who m)) (m_as m)) (a_state c m) = true.
Proof.
  unfold a_state, a_issuer.
  destruct (a_who m) eqn:Ha; cbn [has_issuer]; try (apply look_sound).
  apply look_noschema_sound.
Qed.

Lemma look_exact_r c m :
  has_issuer (a_who m) = true -> sig_in_profile (m_rs m) = true ->
  rel_exact (look (only_md c) (r_who m) (r_schema_ok m) (m_rs m)) (r_state c m) = true.
Proof. intros H Hp. unfold r_schema_ok, r_state. rewrite H, orb_true_r. apply look_exact, Hp. Qed.

Lemma look_exact_a c m :
  has_issuer (a_who m) = true -> sig_in_profile (m_as m) = true ->
  rel_exact (look (only_md c) (a_issuer m) (has_issuer (a_who m)) (m_as m)) (a_state c m) = true.
Proof.
  intros H Hp. unfold a_state, a_issuer. rewrite H.
  destruct (a_who m); try discriminate; apply look_exact, Hp.
Qed.

(* ---- the two-pass control flow over what it finds --------------------------------------------------- *)

(* soundness of the flow: 2^3 options x the 8 x 8 related (finding, state) pairs x 2 x 4 bindings *)
Lemma core_sound w1 w2 w3 r a sr sa im b :
  rel_sound r sr = true -> rel_sound a sa = true ->
  implb (core w1 w2 w3 r a im b) (sat_b w1 w2 w3 sr sa) = true.
Proof.
  intros H1 H2.
  destruct r, sr; try discriminate H1; clear H1;
    destruct a, sa; try discriminate H2; clear H2;
    destruct w1, w2, w3, im, b; reflexivity.
Qed.

Lemma core_complete w1 w2 w3 r a sr sa b :
  rel_exact r sr = true -> rel_exact a sa = true ->
  implb (sat_b w1 w2 w3 sr sa && negb (is_paos b)) (core w1 w2 w3 r a true b) = true.
Proof.
  intros H1 H2.
  destruct r, sr; try discriminate H1; clear H1;
    destruct a, sa; try discriminate H2; clear H2;
    destruct w1, w2, w3, b; reflexivity.
Qed.

(* the truth table, for every configuration and every message *)
Lemma table_m c m : spec_m_b c m (parse_message c m) = true.
Proof.
  unfold spec_m_b. rewrite parse_message_eq.
  pose proof (look_sound c (r_who m) (r_schema_ok m) (m_rs m)) as Hr.
  pose proof (look_exact_r c m) as Hre.
  pose proof (look_sound_a c m) as Ha.
  pose proof (look_exact_a c m) as Hae.
  set (r := look _ (r_who m) _ (m_rs m)) in *.
  set (a := look _ (a_issuer m) _ (m_as m)) in *.
  apply andb_true_iff; split.
  - unfold satisfied_m_b. exact (core_sound _ _ _ _ _ _ _ _ _ Hr Ha).
  - destruct (satisfied_m_b c m && otherwise_valid_b m) eqn:Hs; [|reflexivity].
    cbn [implb]. apply andb_true_iff in Hs. destruct Hs as [Hs Ho].
    unfold otherwise_valid_b in Ho. apply andb_true_iff in Ho. destruct Ho as [Ho Hpa].
    apply andb_true_iff in Ho. destruct Ho as [Ho Hpr].
    apply andb_true_iff in Ho. destruct Ho as [Ho Him].
    apply andb_true_iff in Ho. destruct Ho as [Hb Hi].
    unfold issuers_match. rewrite Him.
    pose proof (core_complete (wr_c c) (wa_c c) (wor_c c) r a (r_state c m) (a_state c m) (m_bind m) (Hre Hi Hpr) (Hae Hi Hpa)) as Hc.
    unfold satisfied_m_b in Hs. rewrite Hs, Hb in Hc. exact Hc.
Qed.

Lemma policy_holds_m c m : spec_m c m (parse_message c m).
Proof. apply spec_m_b_iff, table_m. Qed.

(* ---- sequences: a long-lived SP ------------------------------------------------------------------- *)

Lemma sequence_holds c ms : spec_seq c ms (sp_run c ms).
Proof.
  unfold spec_seq, sp_run. induction ms as [|m ms IH]; cbn; constructor; [apply policy_holds_m | exact IH].
Qed.

(* the verdict on a message does not depend on what the SP consumed before *)
Lemma history_independent c pre m : sp_run c (pre ++ [m]) = sp_run c pre ++ [parse_message c m].
Proof. unfold sp_run. rewrite map_app. reflexivity. Qed.

(* ---- the message cannot vouch for its own key ---------------------------------------------------- *)

Definition strip_ki_sig (s : option sgn) : option sgn :=
  match s with None => None | Some g => Some {| signer := signer g; ki := KiNone; corrupt := corrupt g; shp := shp g |} end.
Definition strip_ki (m : msg) : msg :=
  {| r_who := r_who m; a_who := a_who m; m_rs := strip_ki_sig (m_rs m); m_as := strip_ki_sig (m_as m);
     m_enc := m_enc m; m_bind := m_bind m |}.

Lemma look_ignores_keyinfo w ok s : look true w ok (strip_ki_sig s) = look true w ok s.
Proof.
  destruct s as [[k i cr sh]|]; [|reflexivity].
  unfold look, strip_ki_sig, check_signature, xmlsec_verify. cbn [shp signer ki corrupt].
  destruct (profile_gate sh); destruct w, ok, k, i, cr; reflexivity.
Qed.

(* with only_use_keys_in_metadata in force (the default) the KeyInfo of the message is irrelevant *)
Lemma keyinfo_ignored c m : only_md c = true -> parse_message c (strip_ki m) = parse_message c m.
Proof.
  intros H. rewrite !parse_message_eq, H.
  destruct m as [rw aw r a e b]; cbn [strip_ki r_who a_who m_rs m_as m_enc m_bind a_issuer issuers_match r_schema_ok].
  rewrite !look_ignores_keyinfo. reflexivity.
Qed.

(* necessity: with only_use_keys_in_metadata in force, a present signature made by a key that the
   metadata does not publish as a signing key of the issuer the signed element names — or made over
   other content — never yields an identity, whatever the three want_* options say *)
Definition vouched (w : who) (s : option sgn) : Prop :=
  match s with
  | None => True
  | Some g => corrupt g = false /\ covers_own (shp g) = true /\ sole (shp g) = true /\ md_trusts w (signer g) = true
  end.

Lemma state_ok_vouched c w s : only_md c = true -> ok (state c w s) -> vouched w s.
Proof.
  unfold state, trusted, ok, vouched, sole. intros H. rewrite H. cbn [negb andb].
  destruct s as [g|]; [|trivial].
  destruct (corrupt g); [intros [K|K]; discriminate|].
  destruct (covers_own (shp g)); [|intros [K|K]; discriminate].
  destruct (match xsig (shp g) with XNone | XIn _ _ _ => true | XBefore | XAfter => false end); cbn [negb orb]; try (intros [K|K]; discriminate).
  rewrite orb_false_r. destruct (md_trusts w (signer g)); [auto | intros [K|K]; discriminate].
Qed.

(* whatever the options (the opt-out of only_use_keys_in_metadata included): an identity is never
   produced from a message that carries a signature outside the XML Signature profile — in particular
   one whose Reference selects ANOTHER element (signature wrapping), or that comes with a second
   ds:Signature child *)
Lemma core_needs_findings w1 w2 w3 r a im b :
  core w1 w2 w3 r a im b = true -> (r = SAbsent \/ r = SOk) /\ (a = SAbsent \/ a = SOk).
Proof. destruct r, a, w1, w2, w3, im, b; cbn; intros H; try discriminate H; auto. Qed.

Lemma look_ok_profile only w ok s : look only w ok s = SAbsent \/ look only w ok s = SOk -> sig_in_profile s = true.
Proof.
  destruct s as [g|]; [|reflexivity]. cbn [sig_in_profile]. intros [H|H].
  - exfalso. exact (look_present _ _ _ _ H).
  - destruct (in_profile (shp g)) eqn:Hp; [reflexivity|]. exfalso. exact (look_off_profile _ _ _ _ Hp H).
Qed.

Lemma identity_needs_profile c m :
  parse_message c m = true -> sig_in_profile (m_rs m) = true /\ sig_in_profile (m_as m) = true.
Proof.
  rewrite parse_message_eq. intros H. apply core_needs_findings in H. destruct H as [Hr Ha].
  split; eapply look_ok_profile; eauto.
Qed.

Lemma identity_needs_metadata_keys c m :
  only_md c = true -> parse_message c m = true -> vouched (r_who m) (m_rs m) /\ vouched (a_who m) (m_as m).
Proof.
  intros H Hp. destruct (policy_holds_m c m) as [Hs _]. destruct (Hs Hp) as (H1 & H2 & _).
  split; eapply state_ok_vouched; eauto.
Qed.

(* ---- the single-message view of round 1 (C09 composes with policy_holds) ------------------------------- *)

Lemma satisfied_b_iff x : satisfied_b x = true <-> satisfied x.
Proof. unfold satisfied_b, satisfied. apply sat_b_iff. Qed.

Lemma spec_b_iff x i : spec_b x i = true <-> spec x i.
Proof.
  unfold spec_b, spec. rewrite <- !satisfied_b_iff.
  destruct i; destruct (satisfied_b x); destruct (binding x); cbn; intuition (try discriminate; try congruence).
Qed.

(* the states of round 1 are the states the property text derives for the embedded message *)
Lemma state_sgn_of o1 o2 o3 s :
  state {| c_wr := o1; c_wa := o2; c_wor := o3; c_only := Unset |} WIdp (sgn_of s) = s.
Proof. destruct s; reflexivity. Qed.

Lemma satisfied_b_embed x : satisfied_m_b (config_of x) (msg_of x) = satisfied_b x.
Proof.
  unfold satisfied_m_b, satisfied_b, r_state, a_state, config_of, msg_of; cbn [r_who a_who m_rs m_as].
  rewrite !state_sgn_of. reflexivity.
Qed.

Lemma sgn_of_in_profile s : sig_in_profile (sgn_of s) = true.
Proof. destruct s; reflexivity. Qed.

Lemma spec_b_embed x i : spec_m_b (config_of x) (msg_of x) i = spec_b x i.
Proof.
  unfold spec_m_b, spec_b. rewrite satisfied_b_embed. unfold otherwise_valid_b, msg_of; cbn.
  rewrite !sgn_of_in_profile, !andb_true_r. reflexivity.
Qed.

(* the truth table of round 1 (4^3 option settings x 4 x 4 signature states x 2 x 4 bindings = 8192
   cells) is the instance "Response and assertion of the IdP, metadata keys only" of the general one *)
Lemma table x : spec_b x (parse_response x) = true.
Proof. rewrite <- spec_b_embed. apply table_m. Qed.

Lemma policy_holds x : spec x (parse_response x).
Proof. apply spec_b_iff, table. Qed.

(* ---- non-vacuity ----------------------------------------------------------------------------------- *)

Definition defaults := {| c_wr := Unset; c_wa := Unset; c_wor := Unset; c_only := Unset |}.
Definition by_ (k : key) (i : kinfo) (c : bool) := Some {| signer := k; ki := i; corrupt := c; shp := std |}.
Definition shaped (k : key) (s : shape) := Some {| signer := k; ki := KiNone; corrupt := false; shp := s |}.

(* the accepted cell of the defaults *)
Example accepts_signed_response :
  parse_message defaults {| r_who := WIdp; a_who := WIdp; m_rs := by_ KIdp KiNone false; m_as := None; m_enc := false; m_bind := POST |} = true.
Proof. reflexivity. Qed.

(* an issuer without metadata that ships its own certificate: rejected by default, accepted only
   under the documented opt-out *)
Example self_vouching_rejected :
  let m := {| r_who := WUnknown; a_who := WUnknown; m_rs := by_ KAttacker KiSigner false;
              m_as := by_ KAttacker KiSigner false; m_enc := false; m_bind := POST |} in
  parse_message defaults m = false
  /\ parse_message {| c_wr := Unset; c_wa := Unset; c_wor := Unset; c_only := B false |} m = true.
Proof. split; reflexivity. Qed.

(* a Response without Issuer, signed by anybody, around an unsigned assertion of the trusted IdP *)
Example issuerless_envelope_rejected :
  parse_message defaults {| r_who := WNone; a_who := WIdp; m_rs := by_ KAttacker KiSigner false; m_as := None; m_enc := false; m_bind := POST |} = false.
Proof. reflexivity. Qed.

(* the encryption-only key of the IdP is not a signing key *)
Example encryption_key_rejected :
  parse_message defaults {| r_who := WIdp; a_who := WIdp; m_rs := by_ KIdpEnc KiNone false; m_as := None; m_enc := false; m_bind := POST |} = false.
Proof. reflexivity. Qed.

(* genuine message, then the same signature around rewritten content, then the genuine one again *)
Example forged_after_genuine :
  let c := {| c_wr := B false; c_wa := B true; c_wor := Unset; c_only := Unset |} in
  let g := {| r_who := WIdp; a_who := WIdp; m_rs := None; m_as := by_ KIdp KiNone false; m_enc := false; m_bind := POST |} in
  let f := {| r_who := WIdp; a_who := WIdp; m_rs := None; m_as := by_ KIdp KiNone true; m_enc := false; m_bind := POST |} in
  sp_run c [g; f; g] = [true; false; true].
Proof. reflexivity. Qed.

(* signature wrapping: the forged assertion carries the genuine IdP signature of ANOTHER assertion that
   is parked in the same document (Reference "#<its ID>"): xmlsec1 would say OK, the profile validators
   refuse; alone or with an in-profile decoy ds:Signature behind it *)
Example wrapped_assertion_rejected :
  let c := {| c_wr := B false; c_wa := B true; c_wor := Unset; c_only := Unset |} in
  let wrap x := {| refs := [ROther]; c14n := CExc; trs := [TEnv; TExc]; obj := false; xsig := x |} in
  let m x := {| r_who := WIdp; a_who := WIdp; m_rs := None; m_as := shaped KIdp (wrap x); m_enc := false; m_bind := POST |} in
  sp_run c [m XNone; m XAfter; m XBefore] = [false; false; false]
  /\ spec_seq_b c [m XNone; m XAfter; m XBefore] [true; false; false] = false.
Proof. split; reflexivity. Qed.

(* the other legal spellings of the profile are accepted *)
Example profile_spellings_accepted :
  let c := {| c_wr := B false; c_wa := B true; c_wor := Unset; c_only := Unset |} in
  let m s := {| r_who := WIdp; a_who := WIdp; m_rs := None; m_as := shaped KIdp s; m_enc := false; m_bind := POST |} in
  sp_run c [m {| refs := [ROwn]; c14n := CExcWC; trs := [TEnv]; obj := false; xsig := XNone |};
            m {| refs := [ROwn]; c14n := CExc; trs := [TExcWC; TEnv]; obj := false; xsig := XNone |};
            m {| refs := [ROwn]; c14n := CExc; trs := [TEnv; TEnv]; obj := false; xsig := XNone |};
            m {| refs := [ROwn; ROther]; c14n := CExc; trs := [TEnv; TExc]; obj := false; xsig := XNone |}]
  = [true; true; false; false].
Proof. reflexivity. Qed.

(* ---- round 4: how the options reach the client ------------------------------------------------------ *)

(* the reading of the code (fix 6bdc97cd) is the reading of the text: the same vocabulary *)
Lemma read_word_says s : read_word s = says s.
Proof.
  unfold read_word, says. set (w := Str.lower (Str.strip s)). cbn [existsb find].
  destruct (String.eqb w "true"), (String.eqb w "yes"), (String.eqb w "on"), (String.eqb w "1"),
           (String.eqb w "false"), (String.eqb w "no"), (String.eqb w "off"), (String.eqb w "0"), (String.eqb w ""); reflexivity.
Qed.

(* what is stored for the SP, read as Base.__init__ reads it, is what the deployer meant; in particular
   Config.load's own "true" / "false" agree with it *)
Lemma as_optv_stored w : as_optv (stored w) = meant w.
Proof.
  destruct w as [|[b|s]|[b|s]]; try reflexivity.
  - cbn [stored meant meant_v]. rewrite <- read_word_says.
    destruct (String.eqb s "true") eqn:E1; [apply String.eqb_eq in E1; subst s; reflexivity|].
    destruct (String.eqb s "false") eqn:E2; [apply String.eqb_eq in E2; subst s; reflexivity|].
    reflexivity.
  - cbn [stored meant meant_v as_optv]. rewrite read_word_says. reflexivity.
Qed.

Lemma config_object_sp k :
  config_object k XSp NWr = stored (k_wr k) /\ config_object k XSp NWa = stored (k_wa k) /\ config_object k XSp NWor = stored (k_wor k).
Proof. destruct k as [d a p w1 w2 w3 o]. destruct w1 as [|[|]|[|]], w2 as [|[|]|[|]], w3 as [|[|]|[|]]; repeat split; reflexivity. Qed.
Lemma config_object_elsewhere k x n : x <> XSp -> config_object k x n = SNone.
Proof.
  destruct k as [d a p w1 w2 w3 o]. intros H.
  destruct x; try congruence; destruct w1 as [|[|]|[|]], w2 as [|[|]|[|]], w3 as [|[|]|[|]], n; reflexivity.
Qed.

(* what Base.__init__ reads is what the deployer meant for the SP: whatever the class of the configuration
   object, its current context, the way it was delivered, the other service sections, the spelling *)
Lemma read_config_meant k : read_config k = meant_config k.
Proof.
  unfold read_config, meant_config, obj_getattr. destruct (config_object_sp k) as (H1 & H2 & H3).
  rewrite H1, H2, H3, !as_optv_stored. reflexivity.
Qed.

Definition same_force (c c' : config) : Prop :=
  wr_c c = wr_c c' /\ wa_c c = wa_c c' /\ wor_c c = wor_c c' /\ only_md c = only_md c'.

Lemma state_same_force c c' w s : only_md c = only_md c' -> state c w s = state c' w s.
Proof. intros H. destruct s as [g|]; [|reflexivity]. unfold state, trusted. rewrite H. reflexivity. Qed.

Lemma parse_message_same_force c c' m : same_force c c' -> parse_message c m = parse_message c' m.
Proof. intros (H1 & H2 & H3 & H4). rewrite !parse_message_eq, H1, H2, H3, H4. reflexivity. Qed.

Lemma spec_m_b_same_force c c' m i : same_force c c' -> spec_m_b c m i = spec_m_b c' m i.
Proof.
  intros (H1 & H2 & H3 & H4). unfold spec_m_b, satisfied_m_b, r_state, a_state.
  rewrite H1, H2, H3, (state_same_force c c' _ _ H4), (state_same_force c c' _ _ H4). reflexivity.
Qed.

Lemma sp_run_same_force c c' ms : same_force c c' -> sp_run c ms = sp_run c' ms.
Proof. intros H. unfold sp_run. apply map_ext. intros m. apply parse_message_same_force, H. Qed.

Lemma spec_client_b_iff k ms ids : spec_client_b k ms ids = true <-> spec_client k ms ids.
Proof.
  unfold spec_client_b, spec_client. destruct (meant_config k) as [c|]; [apply spec_seq_b_iff|].
  rewrite andb_true_iff, Nat.eqb_eq, forallb_forall, Forall_forall.
  split; intros [H1 H2]; (split; [exact H1|]); intros i Hi; specialize (H2 i Hi); destruct i; try reflexivity; discriminate.
Qed.

(* the property for every client: every configuration class, context, delivery, spelling; every sequence *)
Lemma client_holds k ms : spec_client k ms (client_run k ms).
Proof.
  unfold spec_client, client_run. rewrite read_config_meant. destruct (meant_config k) as [c|]; [apply sequence_holds|].
  split; [apply map_length|]. apply Forall_forall. intros i Hi. apply in_map_iff in Hi. destruct Hi as (m & Hm & _). congruence.
Qed.

(* class of the object, assigned context, delivery and a second service section do not matter *)
Lemma surface_irrelevant d a p d' a' p' w1 w2 w3 o ms :
  client_run {| k_deliver := d; k_assigned := a; k_proxy := p; k_wr := w1; k_wa := w2; k_wor := w3; k_only := o |} ms
  = client_run {| k_deliver := d'; k_assigned := a'; k_proxy := p'; k_wr := w1; k_wa := w2; k_wor := w3; k_only := o |} ms.
Proof. unfold client_run. rewrite !read_config_meant. reflexivity. Qed.

(* nor does the spelling of a value *)
Lemma spelling_irrelevant k k' ms :
  meant_config k = meant_config k' -> client_run k ms = client_run k' ms.
Proof. intros H. unfold client_run. rewrite !read_config_meant, H. reflexivity. Qed.

(* an unreadable word: no client, no identity, whatever the messages *)
Lemma unreadable_no_identity k ms : meant_config k = None -> client_run k ms = map (fun _ => false) ms.
Proof. intros H. unfold client_run. rewrite read_config_meant, H. reflexivity. Qed.

(* the clients of the earlier rounds are the SPConfig instance *)
Lemma client_of_run c ms : client_run (client_of c) ms = sp_run c ms.
Proof.
  unfold client_run. rewrite read_config_meant.
  destruct c as [o1 o2 o3 o4]. destruct o1 as [|[|]|], o2 as [|[|]|], o3 as [|[|]|];
    (apply sp_run_same_force; repeat split; reflexivity).
Qed.

(* non-vacuity: a client that read the options under the CURRENT context of the object (getattr(attr)
   without "sp") would, handed an IdPConfig, fall back to the defaults: with want_assertions_signed=True
   it yields an identity from a signed Response around an unsigned assertion, and the spec says so *)
Definition read_config_current (k : client) : option config :=
  let g := obj_getattr (config_object k) (current_ctx k) None in
  match as_optv (g NWr), as_optv (g NWa), as_optv (g NWor) with
  | Some a, Some b, Some c => Some {| c_wr := a; c_wa := b; c_wor := c; c_only := k_only k |}
  | _, _, _ => None
  end.
Definition run_current (k : client) (ms : list msg) : list bool :=
  match read_config_current k with Some c => sp_run c ms | None => map (fun _ => false) ms end.
Example current_context_reader_refuted :
  let k d := {| k_deliver := d; k_assigned := None; k_proxy := false; k_wr := WUnset; k_wa := WDict (PB true); k_wor := WUnset; k_only := Unset |} in
  let m := {| r_who := WIdp; a_who := WIdp; m_rs := by_ KIdp KiNone false; m_as := None; m_enc := false; m_bind := POST |} in
  run_current (k (DObject CSp)) [m] = client_run (k (DObject CSp)) [m]
  /\ client_run (k (DObject CIdp)) [m] = [false]
  /\ run_current (k (DObject CIdp)) [m] = [true]
  /\ spec_client_b (k (DObject CIdp)) [m] [true] = false.
Proof. repeat split; reflexivity. Qed.

Local Open Scope string_scope.
Local Open Scope list_scope.
(* the reading before fix 6bdc97cd violated the property: want_response_signed written as the text "False"
   (or "no", "0", " false ") stayed a non-empty str, i.e. a requirement: a validly signed assertion in an unsigned
   Response, which satisfies (False, True, unset), was refused; and "maybe" built a client *)
Example reading_v0_refuted :
  let k t := {| k_deliver := DObject CSp; k_assigned := None; k_proxy := false; k_wr := WSet (PT t); k_wa := WDict (PB true);
                k_wor := WUnset; k_only := Unset |} in
  let m := {| r_who := WIdp; a_who := WIdp; m_rs := None; m_as := by_ KIdp KiNone false; m_enc := false; m_bind := POST |} in
  client_run_v0 (k "False") [m] = [false] /\ spec_client_b (k "False") [m] [false] = false
  /\ client_run_v0 (k "false") [m] = [false] /\ spec_client_b (k "false") [m] [false] = false
  /\ client_run (k "False") [m] = [true] /\ client_run (k " no ") [m] = [true] /\ client_run (k "0") [m] = [true]
  /\ client_run (k "maybe") [m] = [false] /\ spec_client_b (k "maybe") [m] [false] = true
  /\ spec_client_b (k "maybe") [m] [true] = false.
Proof. repeat split; reflexivity. Qed.

(* on the spellings the earlier rounds generated (booleans, "true" / "false" in the dict, "true" through setattr)
   the two readings agree *)
Definition old_spelling (w : written) : Prop :=
  In w [WUnset; WDict (PB true); WDict (PB false); WSet (PB true); WSet (PB false); WDict (PT "true"); WDict (PT "false"); WSet (PT "true")].
Lemma old_spelling_v0 w : old_spelling w ->
  exists v, as_optv (stored w) = Some v /\ forall d, in_force (as_optv_v0 (stored w)) d = in_force v d.
Proof.
  unfold old_spelling. cbn [In]. intros H.
  repeat (destruct H as [H|H]; [rewrite <- H; eexists; split; [reflexivity|intros d; reflexivity]|]). contradiction.
Qed.
Lemma reading_v0_agrees_on_old_spellings k ms :
  old_spelling (k_wr k) -> old_spelling (k_wa k) -> old_spelling (k_wor k) -> client_run_v0 k ms = client_run k ms.
Proof.
  intros A1 A2 A3. unfold client_run_v0, client_run, read_config_v0, read_config, obj_getattr.
  destruct (config_object_sp k) as (H1 & H2 & H3). rewrite H1, H2, H3.
  destruct (old_spelling_v0 _ A1) as (v1 & E1 & F1), (old_spelling_v0 _ A2) as (v2 & E2 & F2), (old_spelling_v0 _ A3) as (v3 & E3 & F3).
  rewrite E1, E2, E3. apply sp_run_same_force. unfold same_force, wr_c, wa_c, wor_c, only_md. cbn [c_wr c_wa c_wor c_only].
  rewrite F1, F2, F3. repeat split; reflexivity.
Qed.

(* ---- round 5: several assertions in one Response ----------------------------------------------------- *)
Lemma first_err_done l : is_done (first_err l) = forallb is_done l.
Proof. induction l as [|o l IH]; [reflexivity|]. destruct o; cbn; auto. Qed.

Lemma run_chk_mono1 k : run_chk true k = Done -> run_chk false k = Done.
Proof. destruct k as [s im|s|s im|b]; [destruct s, im | destruct s | destruct s, im | destruct b]; cbn; congruence. Qed.

Lemma run_chk_mono2 k : run_chk false k = Done -> run_chk true k = Done \/ run_chk true k = SignatureErr.
Proof.
  destruct k as [s im|s|s im|b]; [destruct s, im | destruct s | destruct s, im | destruct b]; cbn; intros H; try discriminate H; auto.
Qed.

Lemma first_err_mono1 sch : first_err (map (run_chk true) sch) = Done -> first_err (map (run_chk false) sch) = Done.
Proof.
  induction sch as [|k sch IH]; [reflexivity|]. cbn [map first_err].
  destruct (run_chk true k) eqn:E; try discriminate. intros H. rewrite (run_chk_mono1 _ E). auto.
Qed.

Lemma first_err_mono2 sch :
  first_err (map (run_chk false) sch) = Done ->
  first_err (map (run_chk true) sch) = Done \/ first_err (map (run_chk true) sch) = SignatureErr.
Proof.
  induction sch as [|k sch IH]; [auto|]. cbn [map first_err].
  destruct (run_chk false k) eqn:E; try discriminate. intros H.
  destruct (run_chk_mono2 _ E) as [E'|E']; rewrite E'; auto.
Qed.

Lemma core_gen_char wr wa wor r v b :
  (v true = Done -> v false = Done) ->
  (v false = Done -> v true = Done \/ v true = SignatureErr) ->
  core_gen wr wa wor r v b =
  negb (is_paos b) && is_done (load_response wr r) && is_done (v wa)
  && negb (wor && negb (is_done (load_response true r)) && negb (is_done (v true))).
Proof.
  intros H1 H2. unfold core_gen.
  destruct (v true) eqn:E1; destruct (v false) eqn:E2;
    try (specialize (H1 eq_refl); discriminate H1);
    try (destruct (H2 eq_refl) as [K|K]; discriminate K);
    destruct b, r, wr, wa, wor; cbn; rewrite ?E1, ?E2; reflexivity.
Qed.

Lemma core_is_gen wr wa wor r a im b :
  core wr wa wor r a im b = core_gen wr wa wor r (fun q => verify_assertions q a im) b.
Proof. destruct b, r, a, im, wr, wa, wor; reflexivity. Qed.

Lemma core_char wr wa wor r a im b :
  core wr wa wor r a im b =
  negb (is_paos b) && is_done (load_response wr r) && is_done (verify_assertions wa a im)
  && negb (wor && negb (is_done (load_response true r)) && negb (is_done (verify_assertions true a im))).
Proof. destruct b, r, a, im, wr, wa, wor; reflexivity. Qed.

(* the three checks of a decrypted assertion amount to the one of a plain assertion *)
Lemma enc_checks q s im :
  is_done (run_chk q (KDecrypted s)) && is_done (run_chk q (KRest s im)) = is_done (run_chk q (KPlain s im)).
Proof. destruct q, s, im; reflexivity. Qed.

Lemma forallb_andb {A} (f g : A -> bool) l : forallb (fun x => f x && g x) l = forallb f l && forallb g l.
Proof.
  induction l as [|x l IH]; [reflexivity|]. cbn. rewrite IH.
  destruct (f x), (g x), (forallb f l), (forallb g l); reflexivity.
Qed.

Lemma forallb_split {A} (p f : A -> bool) l :
  forallb f (filter (fun x => negb (p x)) l) && forallb f (filter p l) = forallb f l.
Proof.
  induction l as [|x l IH]; [reflexivity|]. cbn. destruct (p x); cbn; rewrite <- IH;
  destruct (f x), (forallb f (filter (fun x => negb (p x)) l)), (forallb f (filter p l)); reflexivity.
Qed.

Lemma forallb_map' {A B} (f : A -> B) (g : B -> bool) l : forallb g (map f l) = forallb (fun x => g (f x)) l.
Proof. induction l as [|x l IH]; [reflexivity|]. cbn. rewrite IH. reflexivity. Qed.

Lemma forallb_ext' {A} (f g : A -> bool) l : (forall x, f x = g x) -> forallb f l = forallb g l.
Proof. intros H. induction l as [|x l IH]; [reflexivity|]. cbn. rewrite H, IH. reflexivity. Qed.

Definition x_done (only_md q : bool) (mm : mmsg) (x : asn) : bool :=
  is_done (verify_assertions q (x_find only_md mm x) (x_im mm x)).

Lemma schedule_v0_done only q mm :
  forallb is_done (map (run_chk q) (schedule_v0 only mm)) = forallb (x_done only q mm) (mm_asl mm).
Proof.
  unfold schedule_v0. rewrite !map_app, !forallb_app, !map_map.
  rewrite <- (forallb_split x_enc (x_done only q mm) (mm_asl mm)).
  unfold plain_of, enc_of, is_plain. f_equal.
  - rewrite forallb_map'. reflexivity.
  - rewrite !forallb_map'. rewrite <- forallb_andb. apply forallb_ext'. intros x. apply enc_checks.
Qed.

(* fix 6a3bb24f: the walk ends with the repaired number rule *)
Lemma schedule_done only q mm :
  forallb is_done (map (run_chk q) (schedule only mm))
  = forallb (x_done only q mm) (mm_asl mm) && negb (several_unsigned mm).
Proof.
  unfold schedule. rewrite map_app, forallb_app, schedule_v0_done. cbn [map forallb run_chk].
  destruct (several_unsigned mm); reflexivity.
Qed.

Lemma parse_mmsg_eq sch c mm :
  parse_mmsg_with sch c mm =
  core_gen (wr_c c) (wa_c c) (wor_c c) (look (only_md c) (mm_rwho mm) (mm_schema_ok mm) (mm_rs mm))
           (fun q => verify_all q (count_ok (mm_asl mm)) (sch (only_md c) mm)) (mm_bind mm).
Proof.
  unfold parse_mmsg_with, wr_c, wa_c, wor_c, only_md.
  destruct c as [o1 o2 o3 o4]; destruct o1 as [|[|]|], o2 as [|[|]|], o3 as [|[|]|], o4 as [|[|]|]; reflexivity.
Qed.

Lemma verify_all_mono1 okc sch : verify_all true okc sch = Done -> verify_all false okc sch = Done.
Proof. unfold verify_all. destruct okc; cbn; [apply first_err_mono1 | discriminate]. Qed.

Lemma verify_all_mono2 okc sch :
  verify_all false okc sch = Done -> verify_all true okc sch = Done \/ verify_all true okc sch = SignatureErr.
Proof. unfold verify_all. destruct okc; cbn; [apply first_err_mono2 | discriminate]. Qed.

Lemma verify_all_done q okc sch : is_done (verify_all q okc sch) = okc && forallb is_done (map (run_chk q) sch).
Proof. unfold verify_all. destruct okc; cbn; [apply first_err_done | reflexivity]. Qed.

(* the verdict on a Response with a list of assertions, in closed form *)
Lemma parse_with_char sch c mm :
  let R := look (only_md c) (mm_rwho mm) (mm_schema_ok mm) (mm_rs mm) in
  let V q := count_ok (mm_asl mm) && forallb is_done (map (run_chk q) (sch (only_md c) mm)) in
  parse_mmsg_with sch c mm =
  negb (is_paos (mm_bind mm)) && is_done (load_response (wr_c c) R) && V (wa_c c)
  && negb (wor_c c && negb (is_done (load_response true R)) && negb (V true)).
Proof.
  cbv zeta. rewrite parse_mmsg_eq.
  rewrite core_gen_char; [|apply verify_all_mono1|apply verify_all_mono2].
  rewrite !verify_all_done. reflexivity.
Qed.

Lemma parse_mmsg_v0_char c mm :
  let R := look (only_md c) (mm_rwho mm) (mm_schema_ok mm) (mm_rs mm) in
  let V q := count_ok (mm_asl mm) && forallb (x_done (only_md c) q mm) (mm_asl mm) in
  parse_mmsg_v0 c mm =
  negb (is_paos (mm_bind mm)) && is_done (load_response (wr_c c) R) && V (wa_c c)
  && negb (wor_c c && negb (is_done (load_response true R)) && negb (V true)).
Proof. cbv zeta. unfold parse_mmsg_v0. rewrite parse_with_char. cbv zeta. rewrite !schedule_v0_done. reflexivity. Qed.

(* fix 6a3bb24f is CONSERVATIVE: the walk of today refuses what the walk before refused, and besides that exactly the
   Responses with more than one assertion that carry no signature of their own *)
Lemma fix_conservative c mm : parse_mmsg c mm = negb (several_unsigned mm) && parse_mmsg_v0 c mm.
Proof.
  unfold parse_mmsg, parse_mmsg_v0. rewrite !parse_with_char. cbv zeta. rewrite !schedule_done, !schedule_v0_done.
  destruct (several_unsigned mm); cbn [negb andb].
  - destruct (negb (is_paos (mm_bind mm))), (is_done (load_response (wr_c c) _)), (count_ok (mm_asl mm)),
      (forallb (x_done (only_md c) (wa_c c) mm) (mm_asl mm)); reflexivity.
  - rewrite !andb_true_r. reflexivity.
Qed.

Lemma parse_message_char c m :
  let R := look (only_md c) (r_who m) (r_schema_ok m) (m_rs m) in
  let V q := is_done (verify_assertions q (look (only_md c) (a_issuer m) (has_issuer (a_who m)) (m_as m)) (issuers_match m)) in
  parse_message c m =
  negb (is_paos (m_bind m)) && is_done (load_response (wr_c c) R) && V (wa_c c)
  && negb (wor_c c && negb (is_done (load_response true R)) && negb (V true)).
Proof. cbv zeta. rewrite parse_message_eq. apply core_char. Qed.

Lemma count_ok_nonempty l : count_ok l = true -> l <> [].
Proof. intros H E. subst l. discriminate H. Qed.

Lemma forallb_const {A} (k : bool) (l : list A) : l <> [] -> forallb (fun _ => k) l = k.
Proof.
  intros H. destruct l as [|x l]; [congruence|]. clear H. cbn.
  induction l as [|y l IH]; cbn; [apply andb_true_r|]. destruct k; auto.
Qed.

Lemma forallb_ext_in {A} (f g : A -> bool) l : (forall x, In x l -> f x = g x) -> forallb f l = forallb g l.
Proof.
  induction l as [|x l IH]; intros H; [reflexivity|]. cbn. rewrite (H x (or_introl eq_refl)), IH; [reflexivity|].
  intros y Hy. apply H. right. exact Hy.
Qed.

Lemma forallb_false_impl {A} (f g : A -> bool) l :
  (forall x, f x = false -> g x = false) -> forallb f l = false -> forallb g l = false.
Proof.
  intros H. induction l as [|x l IH]; cbn; [congruence|].
  destruct (f x) eqn:E; cbn.
  - intros K. rewrite (IH K). apply andb_false_r.
  - intros _. rewrite (H x E). reflexivity.
Qed.

Lemma forallb_either {A} (a b c : bool) (f g : A -> bool) l :
  l <> [] ->
  forallb (fun x => a && b && f x && negb (c && negb (g x))) l = a && b && forallb f l && negb (c && negb (forallb g l)).
Proof.
  intros H.
  rewrite (forallb_andb (fun x => a && b && f x) (fun x => negb (c && negb (g x)))).
  rewrite (forallb_andb (fun x => a && b) f). rewrite (forallb_const (a && b) l H).
  f_equal. destruct c; cbn [andb negb].
  - rewrite negb_involutive. apply forallb_ext'. intros x. apply negb_involutive.
  - apply forallb_const, H.
Qed.

(* a signed Response around a plain assertion that names no issuer fails the schema: never loaded *)
Lemma load_noschema q only w g : is_done (load_response q (look only w false (Some g))) = false.
Proof. unfold look, check_signature. destruct (is_nil _); cbn; destruct q; reflexivity. Qed.

Lemma r_schema_as_msg mm x : r_schema_ok (as_msg mm x) = x_schema_ok x.
Proof. reflexivity. Qed.

(* DECOMPOSITION: a Response with a list of assertions yields an identity exactly when the number rule of
   parse_assertion admits the list and the Response yields one with EVERY SINGLE of its assertions *)
Lemma decomposition_v0 c mm :
  parse_mmsg_v0 c mm = count_ok (mm_asl mm) && forallb (fun x => parse_message c (as_msg mm x)) (mm_asl mm).
Proof.
  rewrite parse_mmsg_v0_char. cbv zeta.
  destruct (count_ok (mm_asl mm)) eqn:Hc; cbn [andb]; [|rewrite !andb_false_r; reflexivity].
  pose proof (count_ok_nonempty _ Hc) as Hne.
  destruct (mm_rs mm) as [g|] eqn:Hrs.
  - destruct (mm_schema_ok mm) eqn:Hs.
    + rewrite <- (forallb_either _ _ _ _ _ _ Hne). apply forallb_ext_in. intros x Hx.
      rewrite parse_message_char. cbv zeta. rewrite r_schema_as_msg. cbn [as_msg r_who m_rs m_bind a_who m_as].
      unfold mm_schema_ok in Hs. rewrite forallb_forall in Hs. rewrite (Hs x Hx), Hrs. reflexivity.
    + rewrite load_noschema, andb_false_r. cbn [andb]. symmetry.
      unfold mm_schema_ok in Hs. apply (forallb_false_impl x_schema_ok _ _ ) with (2 := Hs).
      intros x Hx. rewrite parse_message_char. cbv zeta. rewrite r_schema_as_msg, Hx. cbn [as_msg r_who m_rs].
      rewrite Hrs, load_noschema, andb_false_r. reflexivity.
  - rewrite <- (forallb_either _ _ _ _ _ _ Hne). apply forallb_ext_in. intros x Hx.
    rewrite parse_message_char. cbv zeta. cbn [as_msg r_who m_rs m_bind a_who m_as]. rewrite Hrs. reflexivity.
Qed.

(* ... and, since fix 6a3bb24f, more than one assertion only under a signature of the Response *)
Lemma decomposition c mm :
  parse_mmsg c mm = negb (several_unsigned mm)
                    && (count_ok (mm_asl mm) && forallb (fun x => parse_message c (as_msg mm x)) (mm_asl mm)).
Proof. rewrite fix_conservative, decomposition_v0. reflexivity. Qed.

(* the messages of the earlier rounds are the one-assertion instance *)
Lemma as_msg_embed m : as_msg (embed m) (asn_of m) = m.
Proof. destruct m; reflexivity. Qed.

Lemma parse_mmsg_embed c m : parse_mmsg c (embed m) = parse_message c m.
Proof.
  rewrite decomposition. change (several_unsigned (embed m)) with false. cbn [negb andb].
  cbn [embed mm_asl forallb]. rewrite as_msg_embed, andb_true_r.
  unfold count_ok, plain_of, enc_of, is_plain. cbn [filter asn_of x_enc]. destruct (m_enc m); reflexivity.
Qed.

(* ---- reflection ---- *)
Lemma ok_b_iff s : ok_b s = true <-> ok s.
Proof. unfold ok. destruct s; cbn; split; intros H; try reflexivity; try discriminate; auto; destruct H; discriminate. Qed.
Lemma valid_b_iff s : valid_b s = true <-> s = Valid.
Proof. destruct s; cbn; split; intros H; try reflexivity; try discriminate. Qed.

Lemma forallb_Forall {A} (f : A -> bool) (P : A -> Prop) l :
  (forall x, f x = true <-> P x) -> (forallb f l = true <-> Forall P l).
Proof.
  intros H. rewrite forallb_forall, Forall_forall. split; intros K x Hx; apply H, K, Hx.
Qed.

Lemma implb_iff a b : implb a b = true <-> (a = true -> b = true).
Proof. destruct a, b; cbn; intuition congruence. Qed.

Lemma satisfied_mm_b_iff c mm : satisfied_mm_b c mm = true <-> satisfied_mm c mm.
Proof.
  unfold satisfied_mm_b, satisfied_mm. rewrite !andb_true_iff, !implb_iff, orb_true_iff.
  rewrite (forallb_Forall _ (fun x => ok (x_state c x))) by (intros x; apply ok_b_iff).
  rewrite (forallb_Forall _ (fun x => x_state c x = Valid)) by (intros x; apply valid_b_iff).
  rewrite ok_b_iff, valid_b_iff. tauto.
Qed.

Lemma count_ok_iff l : count_ok l = true <-> (length (plain_of l) = 1 \/ length (enc_of l) = 1).
Proof. unfold count_ok. rewrite orb_true_iff, !Nat.eqb_eq. tauto. Qed.

Lemma who_eqb_eq a b : who_eqb a b = true <-> a = b.
Proof. destruct a, b; cbn; split; intros H; try reflexivity; try discriminate. Qed.
Lemma has_issuer_iff w : has_issuer w = true <-> w <> WNone.
Proof. destruct w; cbn; split; intros H; try reflexivity; try discriminate; congruence. Qed.
Lemma is_paos_iff b : negb (is_paos b) = true <-> b <> PAOS.
Proof. destruct b; cbn; split; intros H; try reflexivity; try discriminate; congruence. Qed.

Lemma otherwise_valid_mm_b_iff mm : otherwise_valid_mm_b mm = true <-> otherwise_valid_mm mm.
Proof.
  unfold otherwise_valid_mm_b, otherwise_valid_mm. rewrite !andb_true_iff, is_paos_iff, orb_true_iff, !Nat.eqb_eq.
  rewrite (forallb_Forall _ (fun x => x_who x <> WNone /\ (mm_rwho mm = WNone \/ mm_rwho mm = x_who x) /\ sig_in_profile (x_sig x) = true)).
  - rewrite orb_true_iff, Nat.leb_le.
    assert ((match mm_rs mm with Some _ => true | None => false end) = true <-> mm_rs mm <> None) as ->
      by (destruct (mm_rs mm); split; congruence).
    tauto.
  - intros x. rewrite !andb_true_iff, orb_true_iff, has_issuer_iff, who_eqb_eq.
    assert (negb (has_issuer (mm_rwho mm)) = true <-> mm_rwho mm = WNone) as -> by (destruct (mm_rwho mm); cbn; split; congruence).
    tauto.
Qed.

Lemma nonempty_iff {A} (l : list A) : nonempty l = true <-> l <> [].
Proof. destruct l; cbn; split; congruence. Qed.

Lemma spec_mm_b_iff c mm i : spec_mm_b c mm i = true <-> spec_mm c mm i.
Proof.
  unfold spec_mm_b, spec_mm. rewrite andb_true_iff, !implb_iff, !andb_true_iff, nonempty_iff.
  rewrite satisfied_mm_b_iff, otherwise_valid_mm_b_iff. tauto.
Qed.

(* ---- the property for a Response with any list of assertions ---- *)
Lemma parse_mmsg_true c mm :
  parse_mmsg c mm = true <-> several_unsigned mm = false /\ count_ok (mm_asl mm) = true
                             /\ Forall (fun x => parse_message c (as_msg mm x) = true) (mm_asl mm).
Proof. rewrite decomposition, !andb_true_iff, negb_true_iff, forallb_forall, Forall_forall. tauto. Qed.

Lemma not_several_unsigned mm : (length (mm_asl mm) <= 1 \/ mm_rs mm <> None) -> several_unsigned mm = false.
Proof.
  unfold several_unsigned. intros [H|H].
  - apply andb_false_iff. left. apply Nat.ltb_ge. exact H.
  - destruct (mm_rs mm); [apply andb_false_r | congruence].
Qed.

Lemma policy_holds_mm c mm : spec_mm c mm (parse_mmsg c mm).
Proof.
  split.
  - intros H. apply parse_mmsg_true in H. destruct H as (_ & Hc & Hall).
    pose proof (count_ok_nonempty _ Hc) as Hne. split; [exact Hne|].
    assert (Forall (fun x => satisfied_m c (as_msg mm x)) (mm_asl mm)) as Hs.
    { rewrite Forall_forall in *. intros x Hx. destruct (policy_holds_m c (as_msg mm x)) as [K _]. apply K, Hall, Hx. }
    clear Hall Hc. unfold satisfied_mm. unfold satisfied_m in Hs.
    change (fun x => ok (r_state c (as_msg mm x)) /\ ok (a_state c (as_msg mm x))
                     /\ (wr_c c = true -> r_state c (as_msg mm x) = Valid) /\ (wa_c c = true -> a_state c (as_msg mm x) = Valid)
                     /\ (wor_c c = true -> r_state c (as_msg mm x) = Valid \/ a_state c (as_msg mm x) = Valid))
      with (fun x => ok (rr_state c mm) /\ ok (x_state c x) /\ (wr_c c = true -> rr_state c mm = Valid)
                     /\ (wa_c c = true -> x_state c x = Valid) /\ (wor_c c = true -> rr_state c mm = Valid \/ x_state c x = Valid)) in Hs.
    destruct (mm_asl mm) as [|x0 l] eqn:El; [congruence|].
    pose proof (Forall_inv Hs) as (H1 & _ & H3 & _ & _).
    rewrite Forall_forall in Hs.
    repeat split.
    + exact H1.
    + apply Forall_forall. intros x Hx. apply (Hs x Hx).
    + exact H3.
    + intros W. apply Forall_forall. intros x Hx. apply (Hs x Hx), W.
    + intros W. destruct (rr_state c mm) eqn:Er; try (left; reflexivity); right; apply Forall_forall; intros x Hx;
        destruct (Hs x Hx) as (_ & _ & _ & _ & K); destruct (K W) as [K'|K']; try discriminate K'; exact K'.
  - intros (S1 & S2 & S3 & S4 & S5) (O1 & O2 & O3 & O4 & O5).
    apply parse_mmsg_true. split; [apply not_several_unsigned, O5|]. split; [apply count_ok_iff, O2|].
    rewrite Forall_forall in *. intros x Hx.
    destruct (policy_holds_m c (as_msg mm x)) as [_ K]. apply K.
    + unfold satisfied_m.
      change (r_state c (as_msg mm x)) with (rr_state c mm). change (a_state c (as_msg mm x)) with (x_state c x).
      repeat split; auto.
      intros W. destruct (S5 W) as [K'|K']; [left; exact K'|right]. apply K', Hx.
    + destruct (O3 x Hx) as (A1 & A2 & A3). unfold otherwise_valid. cbn [as_msg m_bind a_who r_who m_rs m_as]. auto.
Qed.

Lemma table_mm c mm : spec_mm_b c mm (parse_mmsg c mm) = true.
Proof. apply spec_mm_b_iff, policy_holds_mm. Qed.

(* every signature that any assertion of the Response carries must verify, whatever the options *)
Lemma identity_needs_every_assertion c mm :
  parse_mmsg c mm = true -> forall x, In x (mm_asl mm) -> x_sig x <> None -> x_state c x = Valid.
Proof.
  intros H x Hx Hsig. destruct (policy_holds_mm c mm) as [K _]. destruct (K H) as (_ & _ & S2 & _).
  rewrite Forall_forall in S2. specialize (S2 x Hx). unfold x_state in *.
  destruct (x_sig x) as [g|]; [|congruence].
  destruct S2 as [S2|S2]; [|exact S2]. exfalso. exact (state_present _ _ _ S2).
Qed.

(* ---- the order of the assertions in the Response is irrelevant ---- *)
Lemma filter_length_perm {A} (p : A -> bool) l l' : Permutation l l' -> length (filter p l) = length (filter p l').
Proof.
  induction 1 as [|x l l' _ IH|x y l|l l' l'' _ IH1 _ IH2]; cbn.
  - reflexivity.
  - destruct (p x); cbn; congruence.
  - destruct (p x), (p y); reflexivity.
  - congruence.
Qed.

Lemma forallb_perm {A} (f : A -> bool) l l' : Permutation l l' -> forallb f l = forallb f l'.
Proof.
  induction 1 as [|x l l' _ IH|x y l|l l' l'' _ IH1 _ IH2]; cbn.
  - reflexivity.
  - rewrite IH. reflexivity.
  - destruct (f x), (f y); reflexivity.
  - congruence.
Qed.

Definition with_assertions (mm : mmsg) (l : list asn) : mmsg :=
  {| mm_rwho := mm_rwho mm; mm_rs := mm_rs mm; mm_asl := l; mm_bind := mm_bind mm |}.

Lemma order_irrelevant c mm l l' :
  Permutation l l' -> parse_mmsg c (with_assertions mm l) = parse_mmsg c (with_assertions mm l').
Proof.
  intros P. rewrite !decomposition. cbn [with_assertions mm_asl].
  replace (several_unsigned (with_assertions mm l')) with (several_unsigned (with_assertions mm l))
    by (unfold several_unsigned; cbn [with_assertions mm_asl mm_rs]; rewrite (Permutation_length P); reflexivity).
  f_equal. f_equal.
  - unfold count_ok, plain_of, enc_of. rewrite (filter_length_perm _ _ _ P), (filter_length_perm x_enc _ _ P). reflexivity.
  - apply (forallb_perm (fun x => parse_message c (as_msg (with_assertions mm l) x))), P.
Qed.

(* ---- sequences and clients ---- *)
Lemma spec_seq_mm_b_iff c ms ids : spec_seq_mm_b c ms ids = true <-> spec_seq_mm c ms ids.
Proof.
  unfold spec_seq_mm. revert ids. induction ms as [|m ms IH]; intros [|i ids]; cbn.
  - split; [constructor | reflexivity].
  - split; [discriminate | intros H; inversion H].
  - split; [discriminate | intros H; inversion H].
  - rewrite andb_true_iff, spec_mm_b_iff, IH. split.
    + intros [H1 H2]. constructor; assumption.
    + intros H. inversion H; subst. split; assumption.
Qed.

Lemma spec_client_mm_b_iff k ms ids : spec_client_mm_b k ms ids = true <-> spec_client_mm k ms ids.
Proof.
  unfold spec_client_mm_b, spec_client_mm. destruct (meant_config k) as [c|]; [apply spec_seq_mm_b_iff|].
  rewrite andb_true_iff, Nat.eqb_eq, forallb_forall, Forall_forall.
  split; intros [H1 H2]; (split; [exact H1|]); intros i Hi; specialize (H2 i Hi); destruct i; try reflexivity; discriminate.
Qed.

Lemma sequence_holds_mm c ms : spec_seq_mm c ms (sp_run_mm c ms).
Proof.
  unfold spec_seq_mm, sp_run_mm. induction ms as [|m ms IH]; cbn; constructor; [apply policy_holds_mm | exact IH].
Qed.

Lemma client_holds_mm k ms : spec_client_mm k ms (client_run_mm k ms).
Proof.
  unfold spec_client_mm, client_run_mm. rewrite read_config_meant. destruct (meant_config k) as [c|]; [apply sequence_holds_mm|].
  split; [apply map_length|]. apply Forall_forall. intros i Hi. apply in_map_iff in Hi. destruct Hi as (m & Hm & _). congruence.
Qed.

(* the sequences of the earlier rounds are the instance "one assertion per Response" *)
Lemma client_run_embed k ms : client_run_mm k (map embed ms) = client_run k ms.
Proof.
  unfold client_run_mm, client_run. destruct (read_config k) as [c|]; [|rewrite map_map; reflexivity].
  unfold sp_run_mm, sp_run. rewrite map_map. apply map_ext. intros m. apply parse_mmsg_embed.
Qed.

Lemma spec_mm_b_embed c m i : spec_mm_b c (embed m) i = spec_m_b c m i.
Proof.
  unfold spec_mm_b, spec_m_b, satisfied_mm_b, satisfied_m_b, sat_b, otherwise_valid_mm_b, otherwise_valid_b.
  change (mm_asl (embed m)) with [asn_of m].
  assert ((Nat.eqb (length (filter (fun x => negb (x_enc x)) [asn_of m])) 1 || Nat.eqb (length (filter x_enc [asn_of m])) 1) = true) as ->
    by (cbn [filter asn_of x_enc]; destruct (m_enc m); reflexivity).
  change (Nat.leb (length [asn_of m]) 1) with true. cbn [orb].
  cbn [embed mm_bind mm_rwho mm_rs forallb nonempty asn_of x_who x_sig x_enc].
  change (rr_state c (embed m)) with (r_state c m). change (x_state c (asn_of m)) with (a_state c m).
  rewrite !andb_true_r. cbn [andb].
  set (S := ok_b (r_state c m) && ok_b (a_state c m) && _ && _ && _).
  destruct i, S, (is_paos (m_bind m)), (has_issuer (a_who m)), (negb (has_issuer (r_who m)) || who_eqb (r_who m) (a_who m)),
    (sig_in_profile (m_as m)), (sig_in_profile (m_rs m)); reflexivity.
Qed.

Lemma spec_client_mm_b_embed k ms ids : spec_client_mm_b k (map embed ms) ids = spec_client_b k ms ids.
Proof.
  unfold spec_client_mm_b, spec_client_b. destruct (meant_config k) as [c|]; [|rewrite map_length; reflexivity].
  revert ids. induction ms as [|m ms IH]; intros [|i ids]; cbn; try reflexivity. rewrite spec_mm_b_embed, IH. reflexivity.
Qed.

(* ---- non-vacuity ---- *)
Definition xa (k : key) (corrupted e : bool) : asn :=
  {| x_who := WIdp; x_sig := Some {| signer := k; ki := KiNone; corrupt := corrupted; shp := std |}; x_enc := e |}.
Definition resp_of (rs : option sgn) (l : list asn) : mmsg := {| mm_rwho := WIdp; mm_rs := rs; mm_asl := l; mm_bind := POST |}.

(* one plain + two encrypted assertions, all genuine, in a Response signed by the IdP: accepted; the second encrypted one
   made by a key the SP does not trust, or altered: refused, whatever its place; two plain, two encrypted or no
   assertion: refused by the number rule; and (fix 6a3bb24f) the all-genuine list in an UNSIGNED Response: refused *)
Definition rsig : option sgn := Some {| signer := KIdp; ki := KiNone; corrupt := false; shp := std |}.
Example several_assertions :
  let c := {| c_wr := B false; c_wa := B true; c_wor := Unset; c_only := Unset |} in
  sp_run_mm c [resp_of rsig [xa KIdp false false; xa KIdp false true; xa KIdp false true];
               resp_of rsig [xa KIdp false false; xa KIdp false true; xa KAttacker false true];
               resp_of rsig [xa KIdp false false; xa KIdp true true; xa KIdp false true];
               resp_of rsig [xa KIdp false true; xa KIdp false false; xa KIdp false false];
               resp_of rsig [xa KIdp false false; xa KIdp false false];
               resp_of rsig [xa KIdp false true; xa KIdp false true];
               resp_of rsig [];
               resp_of None [xa KIdp false false; xa KIdp false true; xa KIdp false true];
               resp_of None [xa KIdp false true]]
  = [true; false; false; true; false; false; false; false; true].
Proof. reflexivity. Qed.

(* before fix 6a3bb24f the unsigned Response with several individually signed assertions went through (C02-F4: the
   report then mixes them); neither walk ever violated the safety half of C01 there, the acceptance half did not and
   does not ask for it *)
Example fix_6a3bb24f :
  let c := {| c_wr := B false; c_wa := B true; c_wor := Unset; c_only := Unset |} in
  let m := resp_of None [xa KIdp false false; xa KIdp false true] in
  parse_mmsg_v0 c m = true /\ parse_mmsg c m = false /\ spec_mm_b c m true = true /\ spec_mm_b c m false = true.
Proof. repeat split; reflexivity. Qed.

(* a receiver that verified only the FIRST decrypted assertion (one decryption round before decrypt_assertions, the
   rest opened by the later loop with verified=True) would yield an identity from a forged second encrypted
   assertion, and the spec says so *)
Definition first_only (l : list asn) : list asn := plain_of l ++ firstn 1 (enc_of l).
Definition parse_mmsg_single_round (c : config) (mm : mmsg) : bool :=
  negb (several_unsigned mm) && count_ok (mm_asl mm) && forallb (fun x => parse_message c (as_msg mm x)) (first_only (mm_asl mm)).
Example single_round_refuted :
  let c := {| c_wr := B false; c_wa := B true; c_wor := Unset; c_only := Unset |} in
  let good := resp_of rsig [xa KIdp false false; xa KIdp false true; xa KIdp false true] in
  let bad := resp_of rsig [xa KIdp false false; xa KIdp false true; xa KAttacker false true] in
  parse_mmsg_single_round c good = parse_mmsg c good
  /\ parse_mmsg c bad = false /\ parse_mmsg_single_round c bad = true
  /\ spec_mm_b c bad true = false /\ spec_mm_b c bad false = true.
Proof. repeat split; reflexivity. Qed.
