From Coq Require Import Bool List.
From Verif Require Import C01.Model C01.Spec.
From VerifGen Require Import C01Tables.

(* obligation on the regenerated defaults table *)
Lemma defaults_as_documented :
  want_response_signed_default = true /\ want_assertions_signed_default = false
  /\ want_assertions_or_response_signed_default = false.
Proof. repeat split; reflexivity. Qed.

Lemma satisfied_b_iff x : satisfied_b x = true <-> satisfied x.
Proof.
  unfold satisfied_b, satisfied, ok.
  destruct (rs x), (as_ x), (wr x), (wa x), (wor x); cbn; split; intros H;
    try reflexivity; try discriminate;
    try (repeat split; auto; intros; try discriminate; auto; fail);
    try (exfalso; destruct H as (H1 & H2 & H3 & H4 & H5);
         first [ destruct H1; discriminate | destruct H2; discriminate
               | specialize (H3 eq_refl); discriminate | specialize (H4 eq_refl); discriminate
               | destruct (H5 eq_refl); discriminate ]).
Qed.

Lemma spec_b_iff x i : spec_b x i = true <-> spec x i.
Proof.
  unfold spec_b, spec. rewrite <- !satisfied_b_iff.
  destruct i; destruct (satisfied_b x); destruct (binding x); cbn; intuition (try discriminate; try congruence).
Qed.

(* the truth table: the control flow accepts exactly the satisfied cells (all 4^3 option settings
   x 4 x 4 signature states x 2 x 4 bindings = 8192 cells) *)
Lemma table x : spec_b x (parse_response x) = true.
Proof.
  destruct x as [a b c r s e bd].
  destruct a as [|[|]|], b as [|[|]|], c as [|[|]|], r, s, e, bd; vm_compute; reflexivity.
Qed.

Lemma policy_holds x : spec x (parse_response x).
Proof. apply spec_b_iff, table. Qed.
