(* C01/Model.v — signature policy of the SP acceptance path, as coded.
   Mirrors the control flow of Entity._parse_response (entity.py 1388-1524): two-pass forced
   signature check for the Response and for the assertions and the final either-or test;
   SecurityContext.correctly_signed_response (sigver.py 1644-1671); the choice of verification
   keys in SecurityContext._check_signature (sigver.py 1391-1432: metadata certs of the issuer named
   by the signed element, certificates of the message's own ds:KeyInfo only when there are none AND
   only_use_keys_in_metadata is off, MissingKey when the list stays empty); AuthnResponse._assertion
   (response.py 777-810, with the Response/assertion issuer comparison) and decrypt_assertions
   (842-866); option defaults of client_base.Base.__init__ (162-193) and config.Config.__init__
   (generated table C01Tables).

   The SP is long-lived: it consumes a SEQUENCE of messages.  Nothing that one message leaves behind
   (identity cache, temporary certificate files, the metadata store) is consulted by the signature
   checks of a later one, so the model of a sequence is the map of the model of one message
   (sp_run); the correspondence check runs real sequences on one Saml2Client to validate that. *)
From Coq Require Import Bool List.
From VerifGen Require Import C01Tables.
Import ListNotations.

(* ---- abstract inputs ------------------------------------------------------------------------ *)

(* who made a signature: the keys of the harness federation (harness/fixtures.py) *)
Inductive key := KIdp | KIdp2 | KIdpEnc | KOther | KSp | KAttacker.
(* the Issuer an element names: the IdP, another federation member (both in the SP's metadata),
   an entity the SP holds no metadata for, or no Issuer element at all *)
Inductive who := WIdp | WOther | WUnknown | WNone.
(* what ds:KeyInfo of a signature ships: nothing, the signer's certificate, or (decoy) the
   certificate of the trusted IdP whoever signed *)
Inductive kinfo := KiNone | KiSigner | KiIdp.
Record sgn := { signer : key; ki : kinfo; corrupt : bool }.

Inductive bind := POST | Redirect | SOAP | PAOS.
(* a configured option value: not configured, a boolean, or the string "true" *)
Inductive optv := Unset | B (b : bool) | StrTrue.

Record config := {
  c_wr : optv;      (* want_response_signed *)
  c_wa : optv;      (* want_assertions_signed *)
  c_wor : optv;     (* want_assertions_or_response_signed *)
  c_only : optv     (* only_use_keys_in_metadata *)
}.

Record msg := {
  r_who : who;          (* Issuer of the Response *)
  a_who : who;          (* Issuer of the assertion *)
  m_rs : option sgn;    (* signature of the Response *)
  m_as : option sgn;    (* signature of the assertion *)
  m_enc : bool;         (* assertion sent encrypted *)
  m_bind : bind
}.

(* Base.__init__: val = config value if not None else default; "true" -> True.
   Config.load: setattr when configured; `not "true"` is False, like True *)
Definition resolve (v : optv) (default : bool) : bool :=
  match v with Unset => default | B b => b | StrTrue => true end.

(* ---- SecurityContext._check_signature ------------------------------------------------------------ *)

Definition key_eqb (a b : key) : bool :=
  match a, b with
  | KIdp, KIdp | KIdp2, KIdp2 | KIdpEnc, KIdpEnc | KOther, KOther | KSp, KSp | KAttacker, KAttacker => true
  | _, _ => false
  end.

(* self.metadata.certs(_issuer, "any", "signing") in the harness federation (harness/world.py:
   the IdP publishes idp and idp2 for signing and idpenc for encryption only, the other member
   publishes other without a use); KeyError (unknown entity / None) -> [] *)
Definition md_certs (w : who) : list key :=
  match w with WIdp => [KIdp; KIdp2] | WOther => [KOther] | WUnknown | WNone => [] end.

(* cert_from_instance(item): the X509Certificate values of the signature's own KeyInfo *)
Definition instance_certs (g : sgn) : list key :=
  match ki g with KiNone => [] | KiSigner => [signer g] | KiIdp => [KIdp] end.

Definition is_nil {A} (l : list A) : bool := match l with [] => true | _ => false end.

(* xmlsec verify of one signature against one certificate *)
Definition xmlsec_verify (g : sgn) (cert : key) : bool := key_eqb cert (signer g) && negb (corrupt g).

(* result of one check: returns the item, raises MissingKey (a SigverError that is not a
   SignatureError) or raises SignatureError *)
Inductive vres := VOk | VMissingKey | VSigErr.

Definition check_signature (only_md : bool) (issuer : who) (schema_ok : bool) (g : sgn) : vres :=
  let certs := md_certs issuer in
  let certs := if is_nil certs && negb only_md then instance_certs g else certs in
  if is_nil certs then VMissingKey
  else if negb schema_ok then VSigErr                        (* validate_doc_with_schema *)
  else if existsb (xmlsec_verify g) certs then VOk else VSigErr.

(* what the code finds when it looks at one element *)
Inductive sres := SAbsent | SOk | SMissingKey | SSigErr.

Definition look (only_md : bool) (issuer : who) (schema_ok : bool) (s : option sgn) : sres :=
  match s with
  | None => SAbsent
  | Some g => match check_signature only_md issuer schema_ok g with
              | VOk => SOk | VMissingKey => SMissingKey | VSigErr => SSigErr end
  end.

(* ---- the two passes ------------------------------------------------------------------------------- *)

Inductive outcome := Done | SigverErr | SignatureErr | OtherErr.

(* correctly_signed_response: a present signature is verified, an absent one is a SignatureError
   iff require_response_signature *)
Definition load_response (require_response_signature : bool) (r : sres) : outcome :=
  match r with
  | SOk => Done
  | SMissingKey => SigverErr
  | SSigErr => SignatureErr
  | SAbsent => if require_response_signature then SignatureErr else Done
  end.

(* AuthnResponse.verify() -> parse_assertion -> _assertion for the single assertion, plain or
   decrypted: a present signature is verified (for decrypted assertions in decrypt_assertions),
   an absent one is a SignatureError iff require_signature; then the issuer comparison
   (VerificationError) *)
Definition verify_assertions (require_signature : bool) (a : sres) (issuers_match : bool) : outcome :=
  match a with
  | SMissingKey => SigverErr
  | SSigErr => SignatureErr
  | SAbsent => if require_signature then SignatureErr else if issuers_match then Done else OtherErr
  | SOk => if issuers_match then Done else OtherErr
  end.

Definition is_done (o : outcome) : bool := match o with Done => true | _ => false end.

Definition core (wr wa wor : bool) (r a : sres) (issuers_match : bool) (b : bind) : bool :=
  match b with
  | PAOS => false                                     (* unravel: UnknownBinding *)
  | _ =>
    (* pass 1: require_response_signature forced to True; `except SigverError` *)
    let '(loaded, response_is_signed) :=
      match load_response true r with
      | Done => (true, true)
      | OtherErr => (false, false)
      | SigverErr | SignatureErr =>
          if wr then (false, false) else (is_done (load_response wr r), false)
      end in
    if negb loaded then false else
    (* pass 2: require_signature forced to True; `except SignatureError` only *)
    let '(verified, assertions_are_signed) :=
      match verify_assertions true a issuers_match with
      | Done => (true, true)
      | SignatureErr => if wa then (false, false) else (is_done (verify_assertions wa a issuers_match), false)
      | SigverErr | OtherErr => (false, false)
      end in
    if negb verified then false else
    if wor && negb response_is_signed && negb assertions_are_signed then false else true
  end.

Definition who_eqb (a b : who) : bool :=
  match a, b with WIdp, WIdp | WOther, WOther | WUnknown, WUnknown | WNone, WNone => true | _, _ => false end.
Definition has_issuer (w : who) : bool := match w with WNone => false | _ => true end.

(* _assertion: `if _resp_issuer and _resp_issuer != _ass_issuer: raise` *)
Definition issuers_match (m : msg) : bool := negb (has_issuer (r_who m)) || who_eqb (r_who m) (a_who m).

(* the issuer whose keys are looked up for the assertion: its own Issuer; decrypt_assertions passes
   the Response's Issuer as a fallback, _assertion passes none *)
Definition a_issuer (m : msg) : who :=
  match a_who m with WNone => if m_enc m then r_who m else WNone | w => w end.

(* validate_doc_with_schema(str(item)): an Assertion without Issuer fails the schema, and so does
   the Response around it unless the assertion travels as EncryptedAssertion *)
Definition r_schema_ok (m : msg) : bool := m_enc m || has_issuer (a_who m).

Definition parse_message (c : config) (m : msg) : bool :=
  let wr := resolve (c_wr c) want_response_signed_default in
  let wa := resolve (c_wa c) want_assertions_signed_default in
  let wor := resolve (c_wor c) want_assertions_or_response_signed_default in
  let only_md := resolve (c_only c) only_use_keys_in_metadata_default in
  core wr wa wor
       (look only_md (r_who m) (r_schema_ok m) (m_rs m))
       (look only_md (a_issuer m) (has_issuer (a_who m)) (m_as m))
       (issuers_match m) (m_bind m).

(* a long-lived SP consuming a sequence of messages: identity (or not) per message *)
Definition sp_run (c : config) (ms : list msg) : list bool := map (parse_message c) ms.

(* ---- the single-message view of round 1 (C09 composes with it) ------------------------------------
   The four signature states of the property text, for a Response and an assertion that both name
   the IdP of the metadata, keys looked up in the metadata only: an instance of the above. *)
Inductive sigst := Absent | Valid | Corrupt | Untrusted.

Record input := {
  o_wr : optv;      (* want_response_signed *)
  o_wa : optv;      (* want_assertions_signed *)
  o_wor : optv;     (* want_assertions_or_response_signed *)
  rs : sigst;       (* signature state of the Response *)
  as_ : sigst;      (* signature state of the assertion *)
  enc : bool;       (* assertion sent encrypted *)
  binding : bind
}.

Definition sgn_of (s : sigst) : option sgn :=
  match s with
  | Absent => None
  | Valid => Some {| signer := KIdp; ki := KiNone; corrupt := false |}
  | Corrupt => Some {| signer := KIdp; ki := KiNone; corrupt := true |}
  | Untrusted => Some {| signer := KAttacker; ki := KiNone; corrupt := false |}
  end.
Definition config_of (x : input) : config :=
  {| c_wr := o_wr x; c_wa := o_wa x; c_wor := o_wor x; c_only := Unset |}.
Definition msg_of (x : input) : msg :=
  {| r_who := WIdp; a_who := WIdp; m_rs := sgn_of (rs x); m_as := sgn_of (as_ x); m_enc := enc x; m_bind := binding x |}.

Definition parse_response (x : input) : bool := parse_message (config_of x) (msg_of x).
