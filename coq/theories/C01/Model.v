(* C01/Model.v — signature policy of the SP acceptance path, as coded.
   Mirrors the control flow of Entity._parse_response (entity.py 1388-1524): two-pass forced
   signature check for the Response and for the assertions and the final either-or test;
   SecurityContext.correctly_signed_response (sigver.py 1644-1671); AuthnResponse._assertion
   (response.py 777-797) and decrypt_assertions (830-854); option defaults of
   client_base.Base.__init__ (162-193; generated table C01Tables). *)
From Coq Require Import Bool List.
From VerifGen Require Import C01Tables.
Import ListNotations.

Inductive sigst := Absent | Valid | Corrupt | Untrusted.
Inductive bind := POST | Redirect | SOAP | PAOS.
(* a configured option value: not configured, a boolean, or the string "true" *)
Inductive optv := Unset | B (b : bool) | StrTrue.

Record input := {
  o_wr : optv;      (* want_response_signed *)
  o_wa : optv;      (* want_assertions_signed *)
  o_wor : optv;     (* want_assertions_or_response_signed *)
  rs : sigst;       (* signature state of the Response *)
  as_ : sigst;      (* signature state of the assertion *)
  enc : bool;       (* assertion sent encrypted *)
  binding : bind
}.

(* Base.__init__: val = config value if not None else default; "true" -> True *)
Definition resolve (v : optv) (default : bool) : bool :=
  match v with Unset => default | B b => b | StrTrue => true end.

(* outcome of one signature verification attempt *)
Definition verifies (s : sigst) : bool := match s with Valid => true | _ => false end.
Definition present (s : sigst) : bool := match s with Absent => false | _ => true end.

(* correctly_signed_response: None = SigverError raised *)
Definition load_response (require_response_signature : bool) (s : sigst) : option unit :=
  if present s then (if verifies s then Some tt else None)
  else if require_response_signature then None else Some tt.

(* AuthnResponse.verify() -> parse_assertion -> _assertion for the single assertion, plain or
   decrypted: a present signature is verified (for decrypted assertions in decrypt_assertions),
   an absent one is an error iff require_signature *)
Definition verify_assertions (require_signature : bool) (s : sigst) : option unit :=
  if present s then (if verifies s then Some tt else None)
  else if require_signature then None else Some tt.

Definition parse_response (x : input) : bool :=
  let wr := resolve (o_wr x) want_response_signed_default in
  let wa := resolve (o_wa x) want_assertions_signed_default in
  let wor := resolve (o_wor x) want_assertions_or_response_signed_default in
  match binding x with
  | PAOS => false                                     (* unravel: UnknownBinding *)
  | _ =>
    (* pass 1: require_response_signature forced to True *)
    let '(loaded, response_is_signed) :=
      match load_response true (rs x) with
      | Some _ => (true, true)
      | None => if wr then (false, false)
                else match load_response wr (rs x) with Some _ => (true, false) | None => (false, false) end
      end in
    if negb loaded then false else
    (* pass 2: require_signature forced to True *)
    let '(verified, assertions_are_signed) :=
      match verify_assertions true (as_ x) with
      | Some _ => (true, true)
      | None => if wa then (false, false)
                else match verify_assertions wa (as_ x) with Some _ => (true, false) | None => (false, false) end
      end in
    if negb verified then false else
    if wor && negb response_is_signed && negb assertions_are_signed then false else true
  end.
