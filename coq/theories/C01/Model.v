(* C01/Model.v — signature policy of the SP acceptance path, as coded.
   Mirrors the control flow of Entity._parse_response (entity.py 1388-1524): two-pass forced
   signature check for the Response and for the assertions and the final either-or test;
   SecurityContext.correctly_signed_response (sigver.py 1644-1671); the choice of verification
   keys in SecurityContext._check_signature (sigver.py 1391-1432: metadata certs of the issuer named
   by the signed element, certificates of the message's own ds:KeyInfo only when there are none AND
   only_use_keys_in_metadata is off, MissingKey when the list stays empty; 1455-1534: the XML-DSig
   profile validators and the only-Signature-child test, over the SHAPE of the ds:Signature);
   AuthnResponse._assertion
   (response.py 777-810, with the Response/assertion issuer comparison) and decrypt_assertions
   (842-866); option defaults of client_base.Base.__init__ (162-193) and config.Config.__init__
   (generated table C01Tables).

   The SP is long-lived: it consumes a SEQUENCE of messages.  Nothing that one message leaves behind
   (identity cache, temporary certificate files, the metadata store) is consulted by the signature
   checks of a later one, so the model of a sequence is the map of the model of one message
   (sp_run); the correspondence check runs real sequences on one Saml2Client to validate that. *)
From Coq Require Import Bool String List.
From Verif Require Base.Str.
From VerifGen Require Import C01Tables.
Import ListNotations.

(* ---- abstract inputs ------------------------------------------------------------------------ *)

(* who made a signature: the keys of the harness federation (harness/fixtures.py) *)
Inductive key := KIdp | KIdp2 | KIdpEnc | KOther | KSp | KAttacker.
(* the Issuer an element names: the IdP, another federation member (both in the SP's metadata),
   an entity the SP holds no metadata for, or no Issuer element at all *)
Inductive who := WIdp | WOther | WUnknown | WNone.
(* what ds:KeyInfo of a signature ships: nothing, the signer's certificate, or (decoy) the
   certificate of the trusted IdP whoever signed *)
Inductive kinfo := KiNone | KiSigner | KiIdp.

(* ---- the shape of a ds:Signature on the wire (round 3) ---------------------------------------------
   What the single ds:Reference elements point to, the algorithms named, whether a ds:Object rides
   along, and whether the signed element carries a second ds:Signature child. *)
Inductive rtarget :=
  | ROwn        (* URI = "#" + ID of the element that carries the signature *)
  | ROther      (* URI = "#" + ID of ANOTHER element of the same type present in the document *)
  | REmpty      (* URI = "" : the whole document *)
  | RNoUri      (* no URI attribute : the whole document *)
  | RXPtr       (* URI = "#xpointer(id('<own ID>'))" *)
  | RBare       (* URI = "#" *)
  | RDangling   (* URI = "#" + an ID that no element of that type carries *)
  | RExternal.  (* URI = "https://..." *)
Inductive calg := CExc | CExcWC | CInc.            (* exc-c14n, exc-c14n#WithComments, inclusive c14n 1.0 *)
Inductive talg := TEnv | TExc | TExcWC | TInc.     (* enveloped-signature and the three above as transforms *)
(* a second ds:Signature child of the signed element (a filled-in signature in profile form that does
   not verify), placed before or after the one described by the record *)
Inductive extra :=
  | XNone | XBefore | XAfter
  (* round 6: no second ds:Signature CHILD, but a DESCENDANT of the signed element (an assertion parked in saml:Advice,
     SubjectConfirmationData, an AttributeValue, samlp:Extensions, StatusDetail; for a Response also its own signed
     assertion) carries a complete ds:Signature of its own, in profile form, made by key k over that descendant
     (bad: altered afterwards).  ahead: it precedes the element's Signature child in document order (the child then is
     not in the place the schema gives it, right after Issuer) *)
  | XIn (ahead : bool) (k : key) (bad : bool).
Record shape := {
  refs : list rtarget;    (* the ds:Reference elements of SignedInfo, in order *)
  c14n : calg;            (* CanonicalizationMethod *)
  trs : list talg;        (* the Transform elements of every Reference ([] = no ds:Transforms element) *)
  obj : bool;             (* a ds:Object child *)
  xsig : extra
}.
(* the form every SAML implementation emits *)
Definition std : shape := {| refs := [ROwn]; c14n := CExc; trs := [TEnv; TExc]; obj := false; xsig := XNone |}.

(* corrupt: a DigestValue or the SignatureValue does not match what the References select *)
Record sgn := { signer : key; ki : kinfo; corrupt : bool; shp : shape }.

Inductive bind := POST | Redirect | SOAP | PAOS.
(* a configured option value: not configured, a boolean, or the string "true" *)
Inductive optv := Unset | B (b : bool) | StrTrue.

Record config := {
  c_wr : optv;      (* want_response_signed *)
  c_wa : optv;      (* want_assertions_signed *)
  c_wor : optv;     (* want_assertions_or_response_signed *)
  c_only : optv     (* only_use_keys_in_metadata *)
}.

Record msg := {
  r_who : who;          (* Issuer of the Response *)
  a_who : who;          (* Issuer of the assertion *)
  m_rs : option sgn;    (* signature of the Response *)
  m_as : option sgn;    (* signature of the assertion *)
  m_enc : bool;         (* assertion sent encrypted *)
  m_bind : bind
}.

(* Base.__init__: val = config value if not None else default; "true" -> True.
   Config.load: setattr when configured; `not "true"` is False, like True *)
Definition resolve (v : optv) (default : bool) : bool :=
  match v with Unset => default | B b => b | StrTrue => true end.

(* ---- SecurityContext._check_signature ------------------------------------------------------------ *)

Definition key_eqb (a b : key) : bool :=
  match a, b with
  | KIdp, KIdp | KIdp2, KIdp2 | KIdpEnc, KIdpEnc | KOther, KOther | KSp, KSp | KAttacker, KAttacker => true
  | _, _ => false
  end.

(* self.metadata.certs(_issuer, "any", "signing") in the harness federation (harness/world.py:
   the IdP publishes idp and idp2 for signing and idpenc for encryption only, the other member
   publishes other without a use); KeyError (unknown entity / None) -> [] *)
Definition md_certs (w : who) : list key :=
  match w with WIdp => [KIdp; KIdp2] | WOther => [KOther] | WUnknown | WNone => [] end.

(* cert_from_instance(item): the X509Certificate values of the signature's own KeyInfo *)
Definition instance_certs (g : sgn) : list key :=
  match ki g with KiNone => [] | KiSigner => [signer g] | KiIdp => [KIdp] end.

Definition is_nil {A} (l : list A) : bool := match l with [] => true | _ => false end.

(* xmlsec verify of one signature against one certificate *)
Definition xmlsec_verify (g : sgn) (cert : key) : bool := key_eqb cert (signer g) && negb (corrupt g).

(* ---- the XML-DSig profile validators of _check_signature (sigver.py, "saml-core section 5.4") --------
   item.signature is the LAST ds:Signature child of the parsed element (a single-valued child: the last
   one wins), xmlsec1 verifies the FIRST ds:Signature at or below the element. *)
Definition parsed (s : shape) : shape := match xsig s with XAfter => std | _ => s end.

Definition talg_eqb (a b : talg) : bool :=
  match a, b with TEnv, TEnv | TExc, TExc | TExcWC, TExcWC | TInc, TInc => true | _, _ => false end.
Definition allowed_t (t : talg) : bool := match t with TEnv | TExc | TExcWC => true | TInc => false end.
Definition allowed_c (c : calg) : bool := match c with CExc | CExcWC => true | CInc => false end.
(* len(ALLOWED_TRANSFORMS.intersection(transform_algos)): the number of DISTINCT allowed algorithms *)
Fixpoint distinct (l : list talg) : list talg :=
  match l with [] => [] | t :: l' => if existsb (talg_eqb t) l' then distinct l' else t :: distinct l' end.
(* references[0].uri.startswith("#") and len(references[0].uri) > 1 *)
Definition uri_anchor (t : rtarget) : bool :=
  match t with ROwn | ROther | RXPtr | RDangling => true | REmpty | RNoUri | RBare | RExternal => false end.
(* references[0].uri == f"#{item.id}" *)
Definition uri_is_own (t : rtarget) : bool := match t with ROwn => true | _ => false end.
Definition is_env (t : talg) : bool := match t with TEnv => true | _ => false end.
Definition single (s : shape) : bool := Nat.eqb (length (refs s)) 1.

(* AttributeError: None.startswith (a single Reference without URI attribute) or None.transform (no
   ds:Transforms element); neither a SigverError nor caught anywhere *)
Definition crashes (s : shape) : bool :=
  (single s && match refs s with RNoUri :: _ => true | _ => false end) || is_nil (trs s).

Definition validators (s : shape) : bool :=
  let r0 := hd ROwn (refs s) in
  let the_Reference_element_must_have_a_URI_attribute := single s in               (* hasattr: always *)
  let the_URI_attribute_contains_an_anchor := the_Reference_element_must_have_a_URI_attribute && uri_anchor r0 in
  let the_anchor_points_to_the_enclosing_element_ID_attribute := the_URI_attribute_contains_an_anchor && uri_is_own r0 in
  let n := length (trs s) in
  let valid_n := length (distinct (filter allowed_t (trs s))) in
  let the_number_of_transforms_is_one_or_two := single s && Nat.leb 1 n && Nat.leb n 2 in
  let all_transform_algs_are_allowed := the_number_of_transforms_is_one_or_two && Nat.eqb n valid_n in
  let the_enveloped_signature_transform_is_defined := the_number_of_transforms_is_one_or_two && existsb is_env (trs s) in
  single s && the_Reference_element_must_have_a_URI_attribute && the_URI_attribute_contains_an_anchor
  && the_anchor_points_to_the_enclosing_element_ID_attribute && allowed_c (c14n s)
  && the_number_of_transforms_is_one_or_two && all_transform_algs_are_allowed
  && the_enveloped_signature_transform_is_defined && negb (obj s).

(* _is_the_only_signature_child: exactly one ds:Signature child, ahead of any other ds:Signature *)
Definition only_signature_child (s : shape) : bool :=
  match xsig s with XNone => true | XIn ahead _ _ => negb ahead | XBefore | XAfter => false end.

Inductive gres := GPass | GReject | GCrash.
Definition profile_gate (s : shape) : gres :=
  if crashes (parsed s) then GCrash
  else if negb (validators (parsed s)) then GReject
  else if negb (only_signature_child s) then GReject
  else GPass.

(* result of one check: returns the item, raises MissingKey (a SigverError that is not a
   SignatureError), raises SignatureError, or dies of an AttributeError *)
Inductive vres := VOk | VMissingKey | VSigErr | VCrash.

Definition check_signature (only_md : bool) (issuer : who) (schema_ok : bool) (g : sgn) : vres :=
  let certs := md_certs issuer in
  let certs := if is_nil certs && negb only_md then instance_certs g else certs in
  if is_nil certs then VMissingKey
  else if negb schema_ok then VSigErr                        (* validate_doc_with_schema *)
  else match profile_gate (shp g) with
       | GCrash => VCrash
       | GReject => VSigErr
       (* past the gate the single Reference selects the signed element itself: xmlsec1 decides on
          the key and on the integrity of digest and signature value *)
       | GPass => if existsb (xmlsec_verify g) certs then VOk else VSigErr
       end.

(* ---- round 6: WHICH ds:Signature the engine verifies -----------------------------------------------------
   xmlsec1 --node-id X (and the stand-in) verifies the FIRST ds:Signature in document order at or below X; the
   validators above read the Signature CHILD the parser kept.  _is_the_only_signature_child is what ties the two. *)
Inductive esig :=
  | EOwn                              (* the Signature child described by the record *)
  | EFiller                           (* the second Signature child (never verifies) *)
  | ENested (k : key) (bad : bool).   (* the signature of a descendant *)
Definition engine_target (s : shape) : esig :=
  match xsig s with
  | XNone | XAfter => EOwn
  | XBefore => EFiller
  | XIn true k bad => ENested k bad
  | XIn false _ _ => EOwn
  end.
(* the verdict of the engine for one certificate: on the signature it meets first.  A descendant's signature refers
   to the descendant; the engine resolves that (when the descendant is of the element type whose ID attribute is
   registered: an assertion inside an assertion) and reports on it *)
Definition engine_verify (g : sgn) (cert : key) : bool :=
  match engine_target (shp g) with
  | EOwn => xmlsec_verify g cert
  | EFiller => false
  | ENested k bad => key_eqb cert k && negb bad
  end.
(* _check_signature with the engine spelled out and the tie as a parameter (the code's: only_signature_child) *)
Definition check_signature_with (tie : shape -> bool) (only_md : bool) (issuer : who) (schema_ok : bool) (g : sgn) : vres :=
  let certs := md_certs issuer in
  let certs := if is_nil certs && negb only_md then instance_certs g else certs in
  if is_nil certs then VMissingKey
  else if negb schema_ok then VSigErr
  else if crashes (parsed (shp g)) then VCrash
  else if negb (validators (parsed (shp g))) then VSigErr
  else if negb (tie (shp g)) then VSigErr
  else if existsb (engine_verify g) certs then VOk else VSigErr.
(* the tie of the seeded change C01-a: exactly one Signature CHILD, wherever it stands *)
Definition one_signature_child (s : shape) : bool := match xsig s with XNone | XIn _ _ _ => true | XBefore | XAfter => false end.

(* what the code finds when it looks at one element *)
Inductive sres := SAbsent | SOk | SMissingKey | SSigErr | SCrash.

Definition look (only_md : bool) (issuer : who) (schema_ok : bool) (s : option sgn) : sres :=
  match s with
  | None => SAbsent
  | Some g => match check_signature only_md issuer schema_ok g with
              | VOk => SOk | VMissingKey => SMissingKey | VSigErr => SSigErr | VCrash => SCrash end
  end.

(* ---- the two passes ------------------------------------------------------------------------------- *)

Inductive outcome := Done | SigverErr | SignatureErr | OtherErr.

(* correctly_signed_response: a present signature is verified, an absent one is a SignatureError
   iff require_response_signature *)
Definition load_response (require_response_signature : bool) (r : sres) : outcome :=
  match r with
  | SOk => Done
  | SMissingKey => SigverErr
  | SSigErr => SignatureErr
  | SCrash => OtherErr
  | SAbsent => if require_response_signature then SignatureErr else Done
  end.

(* AuthnResponse.verify() -> parse_assertion -> _assertion for the single assertion, plain or
   decrypted: a present signature is verified (for decrypted assertions in decrypt_assertions),
   an absent one is a SignatureError iff require_signature; then the issuer comparison
   (VerificationError) *)
Definition verify_assertions (require_signature : bool) (a : sres) (issuers_match : bool) : outcome :=
  match a with
  | SMissingKey => SigverErr
  | SSigErr => SignatureErr
  | SCrash => OtherErr
  | SAbsent => if require_signature then SignatureErr else if issuers_match then Done else OtherErr
  | SOk => if issuers_match then Done else OtherErr
  end.

Definition is_done (o : outcome) : bool := match o with Done => true | _ => false end.

Definition core (wr wa wor : bool) (r a : sres) (issuers_match : bool) (b : bind) : bool :=
  match b with
  | PAOS => false                                     (* unravel: UnknownBinding *)
  | _ =>
    (* pass 1: require_response_signature forced to True; `except SigverError` *)
    let '(loaded, response_is_signed) :=
      match load_response true r with
      | Done => (true, true)
      | OtherErr => (false, false)
      | SigverErr | SignatureErr =>
          if wr then (false, false) else (is_done (load_response wr r), false)
      end in
    if negb loaded then false else
    (* pass 2: require_signature forced to True; `except SignatureError` only *)
    let '(verified, assertions_are_signed) :=
      match verify_assertions true a issuers_match with
      | Done => (true, true)
      | SignatureErr => if wa then (false, false) else (is_done (verify_assertions wa a issuers_match), false)
      | SigverErr | OtherErr => (false, false)
      end in
    if negb verified then false else
    if wor && negb response_is_signed && negb assertions_are_signed then false else true
  end.

Definition who_eqb (a b : who) : bool :=
  match a, b with WIdp, WIdp | WOther, WOther | WUnknown, WUnknown | WNone, WNone => true | _, _ => false end.
Definition has_issuer (w : who) : bool := match w with WNone => false | _ => true end.

(* _assertion: `if _resp_issuer and _resp_issuer != _ass_issuer: raise` *)
Definition issuers_match (m : msg) : bool := negb (has_issuer (r_who m)) || who_eqb (r_who m) (a_who m).

(* the issuer whose keys are looked up for the assertion: its own Issuer; decrypt_assertions passes
   the Response's Issuer as a fallback, _assertion passes none *)
Definition a_issuer (m : msg) : who :=
  match a_who m with WNone => if m_enc m then r_who m else WNone | w => w end.

(* validate_doc_with_schema(str(item)): an Assertion without Issuer fails the schema, and so does
   the Response around it unless the assertion travels as EncryptedAssertion *)
Definition r_schema_ok (m : msg) : bool := m_enc m || has_issuer (a_who m).

Definition parse_message (c : config) (m : msg) : bool :=
  let wr := resolve (c_wr c) want_response_signed_default in
  let wa := resolve (c_wa c) want_assertions_signed_default in
  let wor := resolve (c_wor c) want_assertions_or_response_signed_default in
  let only_md := resolve (c_only c) only_use_keys_in_metadata_default in
  core wr wa wor
       (look only_md (r_who m) (r_schema_ok m) (m_rs m))
       (look only_md (a_issuer m) (has_issuer (a_who m)) (m_as m))
       (issuers_match m) (m_bind m).

(* a long-lived SP consuming a sequence of messages: identity (or not) per message *)
Definition sp_run (c : config) (ms : list msg) : list bool := map (parse_message c) ms.

(* ---- the single-message view of round 1 (C09 composes with it) ------------------------------------
   The four signature states of the property text, for a Response and an assertion that both name
   the IdP of the metadata, keys looked up in the metadata only: an instance of the above. *)
Inductive sigst := Absent | Valid | Corrupt | Untrusted.

Record input := {
  o_wr : optv;      (* want_response_signed *)
  o_wa : optv;      (* want_assertions_signed *)
  o_wor : optv;     (* want_assertions_or_response_signed *)
  rs : sigst;       (* signature state of the Response *)
  as_ : sigst;      (* signature state of the assertion *)
  enc : bool;       (* assertion sent encrypted *)
  binding : bind
}.

Definition sgn_of (s : sigst) : option sgn :=
  match s with
  | Absent => None
  | Valid => Some {| signer := KIdp; ki := KiNone; corrupt := false; shp := std |}
  | Corrupt => Some {| signer := KIdp; ki := KiNone; corrupt := true; shp := std |}
  | Untrusted => Some {| signer := KAttacker; ki := KiNone; corrupt := false; shp := std |}
  end.
Definition config_of (x : input) : config :=
  {| c_wr := o_wr x; c_wa := o_wa x; c_wor := o_wor x; c_only := Unset |}.
Definition msg_of (x : input) : msg :=
  {| r_who := WIdp; a_who := WIdp; m_rs := sgn_of (rs x); m_as := sgn_of (as_ x); m_enc := enc x; m_bind := binding x |}.

Definition parse_response (x : input) : bool := parse_message (config_of x) (msg_of x).

(* ---- how the options reach the client (round 4) ------------------------------------------------------
   The configuration object keeps the options of a service section under "_<context>_<name>"
   (Config.setattr; for the context "" under the bare name) and has a CURRENT context (Config.context:
   def_context of its class after load — "sp" for SPConfig, "idp" for IdPConfig, "" for Config —, the type
   given to config_factory, or whatever the application assigned afterwards).
   Config.getattr(name, context=None) reads under the given context, under the current one when none is
   given.  Base.__init__ reads the three options with the context "sp", whatever object it was handed. *)
Inductive octx := XSp | XIdp | XAa | XNo.                      (* "sp", "idp", "aa", "" *)
Inductive oname := NWr | NWa | NWor.                           (* the three want_* options *)
Inductive cclass := CSp | CIdp | CPlain.                       (* SPConfig, IdPConfig, Config *)
Definition def_context (k : cclass) : octx := match k with CSp => XSp | CIdp => XIdp | CPlain => XNo end.

(* how the Saml2Client comes by its configuration *)
Inductive deliver :=
  | DObject (k : cclass)     (* Saml2Client(config=K().load(dict)) *)
  | DFactory (t : octx)      (* Saml2Client(config=config_factory(t, dict)): class by t, then conf.context = t *)
  | DFile                    (* Saml2Client(config_file="<path of a module with CONFIG>"): config_factory("sp", path) *)
  | DDict.                   (* Saml2Client(config_file=dict): config_factory("sp", dict) *)
Definition loaded_ctx (d : deliver) : octx :=
  match d with DObject k => def_context k | DFactory t => t | DFile | DDict => XSp end.

(* an option as the deployer wrote it: a boolean or a text, in service/sp of the dict or through
   conf.setattr("sp", name, value) on the loaded object *)
Inductive pv := PB (b : bool) | PT (s : string).
Inductive written :=
  | WUnset                   (* not configured *)
  | WDict (v : pv)           (* service/sp of the dict: name: value *)
  | WSet (v : pv).           (* conf.setattr("sp", name, value) on the loaded object *)

Record client := {
  k_deliver : deliver;
  k_assigned : option octx;  (* conf.context = ... assigned by the application before the client is built *)
  k_proxy : bool;            (* the dict has a service/idp section as well (an entity that is IdP and SP) *)
  k_wr : written;            (* want_response_signed *)
  k_wa : written;            (* want_assertions_signed *)
  k_wor : written;           (* want_assertions_or_response_signed *)
  k_only : optv              (* only_use_keys_in_metadata (top level of the dict) *)
}.
Definition current_ctx (k : client) : octx :=
  match k_assigned k with Some x => x | None => loaded_ctx (k_deliver k) end.

(* what the configuration object stores: no such attribute (getattr -> None), a boolean, a str *)
Inductive sval := SNone | SBool (b : bool) | SText (s : string).
(* the configuration object: context -> option name -> stored value *)
Definition cobj := octx -> oname -> sval.
Definition octx_eqb (a b : octx) : bool :=
  match a, b with XSp, XSp | XIdp, XIdp | XAa, XAa | XNo, XNo => true | _, _ => false end.
Definition oname_eqb (a b : oname) : bool :=
  match a, b with NWr, NWr | NWa, NWa | NWor, NWor => true | _, _ => false end.
Definition obj_setattr (o : cobj) (x : octx) (n : oname) (v : sval) : cobj :=
  fun x' n' => if octx_eqb x x' && oname_eqb n n' then v else o x' n'.
Definition obj_getattr (o : cobj) (current : octx) (context : option octx) (n : oname) : sval :=
  o (match context with None => current | Some x => x end) n.

(* Config.load_special(cnf["service"]["sp"], "sp"): exactly "true" -> True, exactly "false" -> False, any
   other value as it is, then setattr("sp", ..); the application's own Config.setattr("sp", ..) stores the
   value as it is.  The want_* names are no arguments of any other section (SPEC["idp"], SPEC["aa"]) nor of
   the top level (COMMON_ARGS). *)
Definition stored (w : written) : sval :=
  match w with
  | WUnset => SNone
  | WDict (PB b) | WSet (PB b) => SBool b
  | WDict (PT s) => if String.eqb s "true" then SBool true else if String.eqb s "false" then SBool false else SText s
  | WSet (PT s) => SText s
  end.
Definition put (n : oname) (w : written) (o : cobj) : cobj :=
  match w with WUnset => o | _ => obj_setattr o XSp n (stored w) end.
Definition config_object (k : client) : cobj :=
  put NWor (k_wor k) (put NWa (k_wa k) (put NWr (k_wr k) (fun _ _ => SNone))).

(* Base.__init__ as it reads NOW (fix 6bdc97cd): a str is stripped and lower-cased (ASCII texts only are
   modelled); true / yes / on / 1 -> True, false / no / off / 0 / "" -> False, anything else raises SAMLError:
   the client is not built *)
Definition read_word (s : string) : option bool :=
  let w := Str.lower (Str.strip s) in
  if existsb (String.eqb w) ["true"; "yes"; "on"; "1"]%string then Some true
  else if existsb (String.eqb w) ["false"; "no"; "off"; "0"; ""]%string then Some false
  else None.
(* the stored value as one of the configured option values below (None: SAMLError) *)
Definition as_optv (v : sval) : option optv :=
  match v with
  | SNone => Some Unset
  | SBool b => Some (B b)
  | SText s => match read_word s with Some b => Some (B b) | None => None end
  end.

(* Base.__init__: val_config = self.config.getattr(attr, "sp"); None: the constructor raises *)
Definition read_config (k : client) : option config :=
  let g := obj_getattr (config_object k) (current_ctx k) (Some XSp) in
  match as_optv (g NWr), as_optv (g NWa), as_optv (g NWor) with
  | Some a, Some b, Some c => Some {| c_wr := a; c_wa := b; c_wor := c; c_only := k_only k |}
  | _, _, _ => None
  end.

(* no client, no identity *)
Definition client_run (k : client) (ms : list msg) : list bool :=
  match read_config k with Some c => sp_run c ms | None => map (fun _ => false) ms end.

(* ---- the reading before fix 6bdc97cd, kept for the record: `if val == "true": val = True`, any other str
   stayed a str and counted by its truth value (non-empty = True): "False", "no", "0" demanded a signature,
   no text was ever refused *)
Definition as_optv_v0 (v : sval) : optv :=
  match v with
  | SNone => Unset
  | SBool b => B b
  | SText s => if String.eqb s "true" then StrTrue else B (negb (String.eqb s ""))
  end.
Definition read_config_v0 (k : client) : config :=
  let g := obj_getattr (config_object k) (current_ctx k) (Some XSp) in
  {| c_wr := as_optv_v0 (g NWr); c_wa := as_optv_v0 (g NWa); c_wor := as_optv_v0 (g NWor); c_only := k_only k |}.
Definition client_run_v0 (k : client) (ms : list msg) : list bool := sp_run (read_config_v0 k) ms.

(* the clients of the earlier rounds: SPConfig loaded from a dict that spells the options as given *)
Definition to_written (v : optv) : written :=
  match v with Unset => WUnset | B b => WDict (PB b) | StrTrue => WDict (PT "true") end.
Definition client_of (c : config) : client :=
  {| k_deliver := DObject CSp; k_assigned := None; k_proxy := false;
     k_wr := to_written (c_wr c); k_wa := to_written (c_wa c); k_wor := to_written (c_wor c); k_only := c_only c |}.

(* ---- several assertions in one Response (round 5) -----------------------------------------------------
   A samlp:Response carries any number of saml:Assertion / saml:EncryptedAssertion children, in any order.
   AuthnResponse.parse_assertion (response.py): the number rule (exactly one plain or exactly one encrypted
   assertion, else InvalidAssertion); _assertion(a, False) for every plain assertion in document order; then
   the decryption loop (xmlsec1 --decrypt opens ONE EncryptedData per call: the loop runs until none is left),
   decrypt_assertions over ALL decrypted assertions (signature of each, verified=False), then
   _assertion(a, True) for each of them (requirement, issuer comparison).  The first check that fails decides
   the exception, and with it what the second pass of Entity._parse_response does. *)
Record asn := { x_who : who; x_sig : option sgn; x_enc : bool }.
Record mmsg := { mm_rwho : who; mm_rs : option sgn; mm_asl : list asn; mm_bind : bind }.

(* the view of the earlier rounds: the Response together with ONE of its assertions *)
Definition as_msg (mm : mmsg) (x : asn) : msg :=
  {| r_who := mm_rwho mm; a_who := x_who x; m_rs := mm_rs mm; m_as := x_sig x; m_enc := x_enc x; m_bind := mm_bind mm |}.
Definition asn_of (m : msg) : asn := {| x_who := a_who m; x_sig := m_as m; x_enc := m_enc m |}.
Definition embed (m : msg) : mmsg :=
  {| mm_rwho := r_who m; mm_rs := m_rs m; mm_asl := [asn_of m]; mm_bind := m_bind m |}.

(* parse_assertion: `n_assertions != 1 and n_assertions_enc != 1` -> InvalidAssertion ("a saml2int limitation") *)
Definition is_plain (x : asn) : bool := negb (x_enc x).
Definition plain_of (l : list asn) : list asn := filter is_plain l.
Definition enc_of (l : list asn) : list asn := filter x_enc l.
Definition count_ok (l : list asn) : bool := Nat.eqb (length (plain_of l)) 1 || Nat.eqb (length (enc_of l)) 1.

(* the checks parse_assertion makes, in the order it makes them *)
Inductive chk :=
  | KPlain (s : sres) (im : bool)     (* _assertion(a, False) of a plain assertion: signature, requirement, issuer comparison *)
  | KDecrypted (s : sres)             (* decrypt_assertions: the signature of a decrypted assertion, if it carries one *)
  | KRest (s : sres) (im : bool)      (* _assertion(a, True) of a decrypted assertion: requirement, issuer comparison *)
  | KNumber (several_unsigned : bool). (* /repo fix 6a3bb24f, after all walks: more than one processed assertion and the Response
                                          element carries no ds:Signature -> InvalidAssertion *)

Definition run_chk (require_signature : bool) (k : chk) : outcome :=
  match k with
  | KPlain s im => verify_assertions require_signature s im
  | KDecrypted s => match s with SMissingKey => SigverErr | SSigErr => SignatureErr | SCrash => OtherErr | SAbsent | SOk => Done end
  | KRest s im => match s with
                  | SAbsent => if require_signature then SignatureErr else if im then Done else OtherErr
                  | _ => if im then Done else OtherErr
                  end
  | KNumber bad => if bad then OtherErr else Done
  end.

(* the first exception ends the walk *)
Fixpoint first_err (l : list outcome) : outcome :=
  match l with [] => Done | Done :: l' => first_err l' | o :: _ => o end.

Definition x_find (only_md : bool) (mm : mmsg) (x : asn) : sres :=
  look only_md (a_issuer (as_msg mm x)) (has_issuer (x_who x)) (x_sig x).
Definition x_im (mm : mmsg) (x : asn) : bool := issuers_match (as_msg mm x).

(* the walk before /repo fix 6a3bb24f *)
Definition schedule_v0 (only_md : bool) (mm : mmsg) : list chk :=
  map (fun x => KPlain (x_find only_md mm x) (x_im mm x)) (plain_of (mm_asl mm))
  ++ map (fun x => KDecrypted (x_find only_md mm x)) (enc_of (mm_asl mm))
  ++ map (fun x => KRest (x_find only_md mm x) (x_im mm x)) (enc_of (mm_asl mm)).

(* fix 6a3bb24f: `len(self.assertions) > 1 and not self.response.signature` once every assertion has been walked (all
   plain and all decrypted assertions are in self.assertions then; a retry of verify() only adds to it) - whether the
   Response element CARRIES a signature: a present one has been verified by loads() before verify() is reached *)
Definition several_unsigned (mm : mmsg) : bool :=
  Nat.ltb 1 (length (mm_asl mm)) && match mm_rs mm with None => true | Some _ => false end.
Definition schedule (only_md : bool) (mm : mmsg) : list chk :=
  schedule_v0 only_md mm ++ [KNumber (several_unsigned mm)].

Definition verify_all (require_signature : bool) (ok_count : bool) (sch : list chk) : outcome :=
  if negb ok_count then OtherErr else first_err (map (run_chk require_signature) sch).

(* Entity._parse_response with the second pass over any `response.verify` (Model.core is the instance
   verify = verify_assertions of the single assertion: Proofs.core_is_gen) *)
Definition core_gen (wr wa wor : bool) (r : sres) (verify : bool -> outcome) (b : bind) : bool :=
  match b with
  | PAOS => false
  | _ =>
    let '(loaded, response_is_signed) :=
      match load_response true r with
      | Done => (true, true)
      | OtherErr => (false, false)
      | SigverErr | SignatureErr =>
          if wr then (false, false) else (is_done (load_response wr r), false)
      end in
    if negb loaded then false else
    let '(verified, assertions_are_signed) :=
      match verify true with
      | Done => (true, true)
      | SignatureErr => if wa then (false, false) else (is_done (verify wa), false)
      | SigverErr | OtherErr => (false, false)
      end in
    if negb verified then false else
    if wor && negb response_is_signed && negb assertions_are_signed then false else true
  end.

(* validate_doc_with_schema of the signed Response: every plain assertion in it must name its issuer *)
Definition x_schema_ok (x : asn) : bool := x_enc x || has_issuer (x_who x).
Definition mm_schema_ok (mm : mmsg) : bool := forallb x_schema_ok (mm_asl mm).

Definition parse_mmsg_with (sch : bool -> mmsg -> list chk) (c : config) (mm : mmsg) : bool :=
  let wr := resolve (c_wr c) want_response_signed_default in
  let wa := resolve (c_wa c) want_assertions_signed_default in
  let wor := resolve (c_wor c) want_assertions_or_response_signed_default in
  let only_md := resolve (c_only c) only_use_keys_in_metadata_default in
  core_gen wr wa wor
           (look only_md (mm_rwho mm) (mm_schema_ok mm) (mm_rs mm))
           (fun q => verify_all q (count_ok (mm_asl mm)) (sch only_md mm))
           (mm_bind mm).
Definition parse_mmsg : config -> mmsg -> bool := parse_mmsg_with schedule.
(* before fix 6a3bb24f, kept for the record: several individually signed assertions in an unsigned Response went through *)
Definition parse_mmsg_v0 : config -> mmsg -> bool := parse_mmsg_with schedule_v0.

Definition sp_run_mm (c : config) (ms : list mmsg) : list bool := map (parse_mmsg c) ms.
Definition client_run_mm (k : client) (ms : list mmsg) : list bool :=
  match read_config k with Some c => sp_run_mm c ms | None => map (fun _ => false) ms end.

(* ---- round 6: which private keys can open an EncryptedAssertion -----------------------------------------
   The EncryptedKey of an EncryptedAssertion is made for ONE certificate.  The SP holds the private keys of its
   configuration (encryption_keypairs / key_file) and, per request, the keys the application hands to
   parse_authn_request_response(.., outstanding_certs={request id: {"key", "cert"} | [such dicts]}) - the key pair
   whose certificate went out with the AuthnRequest.  Entity._parse_response: `keys` = the "key" values of
   outstanding_certs[response.in_response_to] (no such entry, an empty dict, no argument: None); BOTH passes of the
   assertion check call response.verify(keys); SecurityContext.decrypt tries those, then the configured ones. *)
Inductive dkey :=
  | DConfigured      (* the SP's configured encryption key pair *)
  | DRequest         (* the key pair made for this request *)
  | DRequest2        (* another per-request key pair *)
  | DForeign.        (* somebody else's *)
Inductive ocerts :=
  | OAbsent                   (* outstanding_certs not given *)
  | OEmpty                    (* {} *)
  | OElse (ks : list dkey)    (* an entry under another request id only *)
  | OThis (ks : list dkey).   (* the entry of the request the Response answers: these private keys *)
Definition dkey_eqb (a b : dkey) : bool :=
  match a, b with DConfigured, DConfigured | DRequest, DRequest | DRequest2, DRequest2 | DForeign, DForeign => true | _, _ => false end.
Definition request_keys (o : ocerts) : list dkey := match o with OThis ks => ks | OAbsent | OEmpty | OElse _ => [] end.
(* key_files = itertools.chain(key_file, self.enc_key_files) *)
Definition keys_tried (ks : list dkey) : list dkey := ks ++ [DConfigured].
Definition opens (ks : list dkey) (rcpt : dkey) : bool := existsb (dkey_eqb rcpt) (keys_tried ks).

(* a Response whose EncryptedAssertions are all made for the certificate x_rcpt, consumed with x_oc *)
Record xmsg := { xm : mmsg; x_rcpt : dkey; x_oc : ocerts }.
Definition plain_msg (mm : mmsg) : xmsg := {| xm := mm; x_rcpt := DConfigured; x_oc := OAbsent |}.
Definition with_asl (mm : mmsg) (l : list asn) : mmsg :=
  {| mm_rwho := mm_rwho mm; mm_rs := mm_rs mm; mm_asl := l; mm_bind := mm_bind mm |}.
(* parse_assertion with keys ks: a DecryptError ends the decryption loop (`continue` with decr_text unchanged), the
   EncryptedAssertions stay closed and are passed over; the plain assertions are walked as ever *)
Definition walked (ks : list dkey) (x : xmsg) : mmsg :=
  if opens ks (x_rcpt x) then xm x else with_asl (xm x) (plain_of (mm_asl (xm x))).
Definition nonempty_l {A} (l : list A) : bool := match l with [] => false | _ => true end.

(* the verdict of Entity._parse_response for a list of assertions `mm` that is walked, with the number rule's verdict
   given from outside (parse_mmsg is the instance okc = count_ok of the same list) *)
Definition parse_walk (okc : bool) (c : config) (mm : mmsg) : bool :=
  let wr := resolve (c_wr c) want_response_signed_default in
  let wa := resolve (c_wa c) want_assertions_signed_default in
  let wor := resolve (c_wor c) want_assertions_or_response_signed_default in
  let only_md := resolve (c_only c) only_use_keys_in_metadata_default in
  core_gen wr wa wor
           (look only_md (mm_rwho mm) (mm_schema_ok mm) (mm_rs mm))
           (fun q => verify_all q okc (schedule only_md mm))
           (mm_bind mm).

(* Entity._parse_response over response.verify(keys) with the keys each pass is given: kf for the forced pass, kr for
   the retry (core_gen calls `verify true` for the forced pass only, `verify false` for the retry only).  The number
   rule counts what the Response CARRIES.  A pass that walks nothing ends without exception and without assertion:
   no identity (name_id None, ava {}, nothing cached) - for the observable "identity" that is a failed pass. *)
Definition parse_xmsg_keys (kf kr : list dkey) (c : config) (x : xmsg) : bool :=
  let wr := resolve (c_wr c) want_response_signed_default in
  let wa := resolve (c_wa c) want_assertions_signed_default in
  let wor := resolve (c_wor c) want_assertions_or_response_signed_default in
  let only_md := resolve (c_only c) only_use_keys_in_metadata_default in
  let mm := xm x in
  let V ks q := verify_all q (count_ok (mm_asl mm) && nonempty_l (mm_asl (walked ks x))) (schedule only_md (walked ks x)) in
  core_gen wr wa wor
           (look only_md (mm_rwho mm) (mm_schema_ok mm) (mm_rs mm))
           (fun q => if q then V kf true else V kr false)
           (mm_bind mm).
(* the code as it is: both passes get the keys of the request *)
Definition parse_xmsg (c : config) (x : xmsg) : bool :=
  parse_xmsg_keys (request_keys (x_oc x)) (request_keys (x_oc x)) c x.
(* the seeded change C01-b, for the record: the retry forgets them *)
Definition parse_xmsg_retry_bare (c : config) (x : xmsg) : bool := parse_xmsg_keys (request_keys (x_oc x)) [] c x.

Definition sp_run_x (c : config) (xs : list xmsg) : list bool := map (parse_xmsg c) xs.
Definition client_run_x (k : client) (xs : list xmsg) : list bool :=
  match read_config k with Some c => sp_run_x c xs | None => map (fun _ => false) xs end.
