(* C10/Spec.v — "attribute release never exceeds policy", stated over the inputs and the
   OBSERVABLE result (what was released / error, the caller's identity data afterwards).
   Written from the property text; the model's filtering functions are not used here.

   Reading of the text (recorded in notes/C10.md):
   * "most specific applicable policy": the section of the requester if there is one, else the
     one of its registration authority, else "default", else "".
   * "permitted by the requester's declared required/optional attributes and by the configured
     entity categories": when the applicable section configures entity categories (and their
     tables define at least one category) the categories decide, the requester's declaration
     acting through ONLY_REQUIRED; otherwise the requester's declaration decides when there is
     one.  (pysaml2's documented design: docs/howto/config.rst "Entity Categories".)
   * "failing on missing attributes is in effect": the caller's explicit choice when there is one
     (the fail_on_missing argument of Policy.filter / restrict / Assertion.apply_policy;
     best_effort=True given to Server.create_authn_response is the choice "do not fail"), else
     fail_on_missing_requested of the applicable section is not False; and the requester's
     declaration is what decides (no entity categories).
   * a requester about which nothing is known (the policy has no metadata store) is in no entity
     category: only what the configured categories release to everybody (the "" key) passes.
   * "the requester's declared required/optional attributes": what a RequestedAttribute declares is
     the attribute identified by its Name + NameFormat (the local name the attribute maps derive
     from them); its FriendlyName is a label without meaning (SAML core 2.7.3.1) and stands in only
     when the maps do not know the Name.  The same reading holds where the declaration acts through
     ONLY_REQUIRED entity categories (required_names).
   * "a required attribute cannot be supplied": no identity attribute is designated by it, or it
     lists values and no designated identity attribute holds any of them.
   * an error (MissingValue or any other exception) releases nothing and always satisfies the
     release part. *)
From Coq Require Import String List Bool Arith.
From Verif Require Import Base.Str C10.Model.
Import ListNotations.
Open Scope string_scope.
Open Scope list_scope.

(* ---- multisets of values ------------------------------------------------------------- *)
Fixpoint count (x : string) (l : list string) : nat :=
  match l with
  | [] => 0
  | y :: r => (if String.eqb x y then 1 else 0) + count x r
  end.

(* never more occurrences than the user holds *)
Definition sub_ms (a b : list string) : Prop := forall v, (count v a <= count v b)%nat.
Definition sub_ms_b (a b : list string) : bool := forallb (fun v => (count v a <=? count v b)%nat) a.
Definition ms_eqb (a b : list string) : bool := Nat.eqb (length a) (length b) && sub_ms_b a b.

(* ---- the situation the property talks about ------------------------------------------- *)
Record finput := {
  f_ident : ava;                 (* the user's identity *)
  f_pol : policy;                (* release policy of the IdP / AA *)
  f_sp : string;                 (* requester *)
  f_mds : bool;                  (* the policy can consult a metadata store *)
  f_ecs : list string;           (* entity categories of the requester (metadata); [] when nothing is known *)
  f_ra : option string;          (* registration authority of the requester (metadata) *)
  f_req : list reqattr;          (* declared required attributes (incl. subject-id requirements) *)
  f_opt : list reqattr;          (* declared optional attributes *)
  f_fo : option bool             (* the caller's explicit choice about failing on missing attributes *)
}.

(* what each exercised entry point is asked *)
Definition foa_policy (fail : bool) : policy :=
  Some [("default", Some {| s_ar := None; s_fail := Some fail; s_ecs := []; s_bare := false |})].

Definition of_md (x : input) (req opt : list reqattr) (fo : option bool) : finput :=
  {| f_ident := i_ident x; f_pol := i_pol x; f_sp := i_sp x;
     f_mds := match i_md x with Some _ => true | None => false end;
     f_ecs := match i_md x with Some m => md_ecs m | None => [] end;
     f_ra := eff_ra (i_md x); f_req := req; f_opt := opt; f_fo := fo |}.

Definition flat (x : input) : finput :=
  match i_entry x with
  | EFoa fail req opt =>
      {| f_ident := i_ident x; f_pol := foa_policy fail; f_sp := "default"; f_mds := false;
         f_ecs := []; f_ra := None; f_req := req; f_opt := opt; f_fo := None |}
  | EFilter req opt fo => of_md x req opt fo
  | ERestrict fo | EApply fo => of_md x (eff_required (i_md x)) (eff_optional (i_md x)) fo
  (* best_effort: the caller asks not to fail *)
  | EServer be => of_md x (eff_required (i_md x)) (eff_optional (i_md x)) (if be then Some false else None)
  end.

(* ---- most specific applicable section ------------------------------------------------- *)
Definition first_some {A : Type} (l : list (option A)) : option A :=
  hd_error (flat_map (fun o => match o with Some a => [a] | None => [] end) l).

Definition sec_named (p : policy) (k : option string) : option section :=
  match p, k with
  | Some l, Some k => match lookup k l with Some (Some s) => Some s | _ => None end
  | _, _ => None
  end.

(* "default" and "" are two spellings of the default section: "default" answers unless it is an empty
   section (configures nothing at all) and a "" section exists, which then answers *)
Definition default_section (p : policy) : option section :=
  match sec_named p (Some "default") with
  | Some s => if s_bare s then (match sec_named p (Some "") with Some s' => Some s' | None => Some s end) else Some s
  | None => sec_named p (Some "")
  end.

Definition the_section (x : finput) : option section :=
  first_some [sec_named (f_pol x) (Some (f_sp x)); sec_named (f_pol x) (f_ra x); default_section (f_pol x)].

Definition the_ar (x : finput) : option restr :=
  match the_section x with Some s => s_ar s | None => None end.

Definition fail_flag (x : finput) : bool :=
  match f_fo x with
  | Some b => b
  | None =>
      match the_section x with
      | Some s => match s_fail s with Some b => b | None => true end
      | None => true
      end
  end.

Definition opt_list {A : Type} (o : option A) : list A := match o with Some a => [a] | None => [] end.

(* What a RequestedAttribute DECLARES is the attribute identified by its Name + NameFormat: the local
   name the attribute maps derive from them (datum ra_loc_l).  The FriendlyName is a human-readable
   label without meaning (SAML core 2.7.3.1): it stands in for the local name ONLY when the maps do not
   know the Name.  An identity attribute k is designated by a RequestedAttribute when that name - or
   the Name itself (identities keyed by wire names) - is k, compared without regard to case.  A
   FriendlyName that disagrees with what Name + NameFormat stand for designates nothing. *)
Definition resolved (d : reqattr) : option string := tr (ra_loc_l d).
Definition designators (d : reqattr) : list string :=
  match resolved d with
  | Some l => [l; ra_name d]
  | None => opt_list (ra_friendly d) ++ [ra_name d]
  end.
Definition designates (d : reqattr) (k : string) : Prop :=
  exists n, In n (designators d) /\ lower n = lower k.
Definition designates_b (d : reqattr) (k : string) : bool :=
  existsb (fun n => String.eqb (lower n) (lower k)) (designators d).

Section Spec.
  Variable rmatch : string -> string -> bool.
  Variable ectab : list (string * ecmap).

  (* (1) subset of the user's attributes, values and multiplicities *)
  Definition subset (ident r : ava) : Prop :=
    forall k vs, In (k, vs) r -> exists us, In (k, us) ident /\ sub_ms (held vs) (held us).

  (* (2) the applicable section's attribute_restrictions *)
  Definition ar_name_ok (R : option restr) (k : string) : Prop :=
    match R with
    | None => True
    | Some [] => True
    | Some R => exists rs, lookup (lower k) R = Some rs
    end.
  Definition ar_value_ok (R : option restr) (k v : string) : Prop :=
    match R with
    | None => True
    | Some [] => True
    | Some R => forall rs, lookup (lower k) R = Some (Some rs) -> exists r, In r rs /\ rmatch r v = true
    end.

  (* (3) the requester's declaration *)
  Definition declared (x : finput) : list reqattr := f_req x ++ f_opt x.
  Definition decl_name_ok (x : finput) (k : string) : Prop :=
    exists d, In d (declared x) /\ designates d k.
  Definition decl_value_ok (x : finput) (k v : string) : Prop :=
    exists d, In d (declared x) /\ designates d k /\ (ra_values d = [] \/ In v (ra_values d)).

  (* (4) entity categories *)
  Definition the_entries (x : finput) : list ecentry :=
    match the_section x with
    | Some s => flat_map (fun n => match lookup n ectab with Some m => m | None => [] end) (s_ecs s)
    | None => []
    end.
  Definition ec_in_force (x : finput) : Prop := the_entries x <> [].

  Definition key_sat (ecs : list string) (k : eckey) : Prop :=
    match k with
    | KS s => s = "" \/ In s ecs
    | KT l => forall s, In s l -> In s ecs
    end.
  Definition key_always (k : eckey) : bool := match k with KS s => is_empty s | KT _ => false end.

  (* lower-cased local names of the required attributes: what Name + NameFormat stand for, the
     FriendlyName only when the attribute maps do not know the Name *)
  Definition required_name (d : reqattr) : list string :=
    match resolved d with
    | Some l => [lower l]
    | None => match tr (ra_friendly d) with Some f => [lower f] | None => [] end
    end.
  Definition required_names (x : finput) : list string := flat_map required_name (f_req x).

  (* category entry e lets the (lower-cased) attribute name n out *)
  Definition grants (x : finput) (e : ecentry) (n : string) : Prop :=
    key_sat (f_ecs x) (ec_key e)
    /\ In n (map lower (ec_attrs e))
    /\ (ec_only_required e = true -> key_always (ec_key e) = false -> In n (required_names x)).

  (* some entry grants it and no later no-aggregation entry that grants anything resets it *)
  Definition ec_name_ok (x : finput) (k : string) : Prop :=
    exists pre e post, the_entries x = pre ++ e :: post
        /\ grants x e (lower k)
        /\ forall e', In e' post -> ec_no_agg e' = true -> forall n, ~ grants x e' n.

  (* (5) a required attribute that cannot be supplied while failing is in effect *)
  Definition unsuppliable (ident : ava) (d : reqattr) : Prop :=
    forall k us, In (k, us) ident -> designates d k ->
      ra_values d <> [] /\ forall v, In v (ra_values d) -> ~ In v (held us).
  Definition must_fail (x : finput) : Prop :=
    ~ ec_in_force x /\ fail_flag x = true /\ exists d, In d (f_req x) /\ unsuppliable (f_ident x) d.

  Definition entry_ok (x : finput) (k : string) (vs : vals) : Prop :=
    ar_name_ok (the_ar x) k
    /\ (ec_in_force x -> ec_name_ok x k)
    /\ (~ ec_in_force x -> declared x <> [] -> decl_name_ok x k)
    /\ forall v, In v (held vs) ->
         ar_value_ok (the_ar x) k v
         /\ (~ ec_in_force x -> declared x <> [] -> decl_value_ok x k v).

  Definition allowed (x : finput) (r : ava) : Prop :=
    forall k vs, In (k, vs) r -> entry_ok x k vs.

  Definition released_ok (x : finput) (r : ava) : Prop :=
    subset (f_ident x) r /\ allowed x r /\ ~ must_fail x.

  Definition spec (x : finput) (o : output) : Prop :=
    o_caller o = f_ident x
    /\ match o_out o with
       | Ok r => released_ok x r
                 /\ match o_self o with Some s => released_ok x s | None => True end
       | _ => True
       end.

  (* ---- boolean version, evaluated on the implementation's observed output ---------------- *)
  Definition vals_exact_eqb (a b : vals) : bool :=
    match a, b with
    | VS s, VS t => String.eqb s t
    | VL l, VL m => list_eqb String.eqb l m
    | _, _ => false
    end.
  Definition ava_exact_eqb (a b : ava) : bool :=
    list_eqb (fun e f => String.eqb (fst e) (fst f) && vals_exact_eqb (snd e) (snd f)) a b.

  Definition subset_b (ident r : ava) : bool :=
    forallb (fun e => existsb (fun u => String.eqb (fst e) (fst u) && sub_ms_b (held (snd e)) (held (snd u))) ident) r.

  Definition ar_name_ok_b (R : option restr) (k : string) : bool :=
    match R with
    | None => true
    | Some [] => true
    | Some R => match lookup (lower k) R with Some _ => true | None => false end
    end.
  Definition ar_value_ok_b (R : option restr) (k v : string) : bool :=
    match R with
    | None => true
    | Some [] => true
    | Some R => match lookup (lower k) R with
                | Some (Some rs) => existsb (fun r => rmatch r v) rs
                | _ => true
                end
    end.

  Definition decl_name_ok_b (x : finput) (k : string) : bool :=
    existsb (fun d => designates_b d k) (declared x).
  Definition decl_value_ok_b (x : finput) (k v : string) : bool :=
    existsb (fun d => designates_b d k && (is_nil (ra_values d) || mem v (ra_values d))) (declared x).

  Definition key_sat_b (ecs : list string) (k : eckey) : bool :=
    match k with
    | KS s => is_empty s || mem s ecs
    | KT l => forallb (fun s => mem s ecs) l
    end.
  Definition grants_b (x : finput) (e : ecentry) (n : string) : bool :=
    key_sat_b (f_ecs x) (ec_key e)
    && mem n (map lower (ec_attrs e))
    && (negb (ec_only_required e) || key_always (ec_key e) || mem n (required_names x)).
  Definition grants_any_b (x : finput) (e : ecentry) : bool :=
    existsb (grants_b x e) (map lower (ec_attrs e)).
  Fixpoint ec_scan (x : finput) (n : string) (l : list ecentry) : bool :=
    match l with
    | [] => false
    | e :: post =>
        (grants_b x e n && forallb (fun e' => negb (ec_no_agg e' && grants_any_b x e')) post)
        || ec_scan x n post
    end.
  Definition ec_name_ok_b (x : finput) (k : string) : bool :=
    ec_scan x (lower k) (the_entries x).

  Definition unsuppliable_b (ident : ava) (d : reqattr) : bool :=
    forallb (fun e => negb (designates_b d (fst e))
                      || (negb (is_nil (ra_values d))
                          && forallb (fun v => negb (mem v (held (snd e)))) (ra_values d))) ident.
  Definition must_fail_b (x : finput) : bool :=
    is_nil (the_entries x) && fail_flag x && existsb (unsuppliable_b (f_ident x)) (f_req x).

  Definition entry_ok_b (x : finput) (k : string) (vs : vals) : bool :=
    let ecf := negb (is_nil (the_entries x)) in
    let dcl := negb (is_nil (declared x)) in
    ar_name_ok_b (the_ar x) k
    && (negb ecf || ec_name_ok_b x k)
    && (ecf || negb dcl || decl_name_ok_b x k)
    && forallb (fun v => ar_value_ok_b (the_ar x) k v && (ecf || negb dcl || decl_value_ok_b x k v)) (held vs).

  Definition released_ok_b (x : finput) (r : ava) : bool :=
    subset_b (f_ident x) r
    && forallb (fun e => entry_ok_b x (fst e) (snd e)) r
    && negb (must_fail_b x).

  Definition spec_fb (x : finput) (o : output) : bool :=
    ava_exact_eqb (o_caller o) (f_ident x)
    && match o_out o with
       | Ok r => released_ok_b x r
                 && match o_self o with Some s => released_ok_b x s | None => true end
       | _ => true
       end.

  Definition spec_b (x : input) (o : output) : bool := spec_fb (flat x) o.

  (* ---- the input classes of the two repaired findings C10-F1 / C10-F2.  They are no longer
     excluded from anything; Corr.cls still names them so that a regression is reported with its
     finding id (a "fixed" finding seen again is a VIOLATION). *)
  (* class 1: the request goes through Server._authn_response and Policy.restrict raises MissingValue *)
  Definition class1 (x : input) : bool :=
    match i_entry x with
    | EServer _ => match restrict rmatch ectab (i_ident x) (i_pol x) (i_sp x) (i_md x) None with
                   | Missing => true
                   | _ => false
                   end
    | _ => false
    end.
  (* class 2: entity categories are configured but the Policy has no metadata store *)
  Definition class2 (x : input) : bool :=
    negb (is_nil (the_entries (flat x))) && negb (f_mds (flat x)).

  (* class 3 (finding C10-F5, repaired by 4be62a1c; kept for Corr.cls): an ONLY_REQUIRED entity category is configured and the requester
     REQUIRES an attribute whose FriendlyName, read BEFORE Name + NameFormat (label first, as
     Policy.get_entity_categories did), names another attribute than the one Name + NameFormat stand for *)
  Definition label_first_name (d : reqattr) : list string :=
    match tr (ra_friendly d) with
    | Some f => [lower f]
    | None => match ra_loc_r d with Some l => [lower l] | None => [] end
    end.
  Definition label_first_names (x : finput) : list string := flat_map label_first_name (f_req x).
  Definition class3 (x : input) : bool :=
    existsb ec_only_required (the_entries (flat x))
    && negb (list_eqb String.eqb (label_first_names (flat x)) (required_names (flat x))).

  (* not a finding but a stated input assumption: with entity categories in force the identity has
     no attribute whose name is the empty string (the code uses "" as a marker in that dict) *)
  Definition wf (x : input) : bool :=
    is_nil (the_entries (flat x)) || negb (mem "" (keys (i_ident x))).

  (* only the input assumption: no finding class is excluded (C10-F1, C10-F2, C10-F5 are repaired) *)
  Definition guard (x : input) : bool := wf x.

  (* ---- the life of one Policy object: what is released by a call is judged against the user, the
     requester AS DESCRIBED AT THE TIME OF THAT CALL (declared required/optional attributes, entity
     categories, registration authority: st_md) and the policy configuration - never against what an
     earlier call on the same object was entitled to.  The property text quantifies over "any user
     identity, requester and policy configuration": an earlier call is not among the things that can
     permit a release. *)
  Definition spec_life (p : policy) (l : list step) (os : list output) : Prop :=
    Forall2 (fun s o => spec (flat (step_input p s)) o) l os.

  Definition spec_life_b (p : policy) (l : list step) (os : list output) : bool :=
    Nat.eqb (length l) (length os)
    && forallb (fun so => spec_b (step_input p (fst so)) (snd so)) (combine l os).

  Definition guard_life (p : policy) (l : list step) : bool :=
    forallb (fun s => guard (step_input p s)) l.
End Spec.
