(* C10/Corr.v — correspondence runner: model output vs observed output, spec on observed output *)
From Coq Require Import String List Bool Arith.
From Verif Require Import Base.Str Base.Run C10.Model C10.Spec.
From VerifGen Require Import C10Tables.
Import ListNotations.
Open Scope string_scope.
Open Scope list_scope.

(* ONE call: abstract input, pairs (regex, value) on which Python's re matched, output observed on the
   implementation *)
Definition case1 := (input * list (string * string) * output)%type.
(* a case is the LIFE of one Policy object (or of the Server that holds it): the calls made on it, in
   order, each with the requester as the metadata store described it at the time of the call.  A
   life of one call = a fresh object. *)
Definition case := list case1.

(* the regex engine enters as data *)
Definition rm (mt : list (string * string)) (r v : string) : bool :=
  existsb (fun p => String.eqb (fst p) r && String.eqb (snd p) v) mt.

(* short constructors used by the case writer *)
Definition R (n : string) (nf fr : option string) (vs : list string) (ll lr : option string) : reqattr :=
  {| ra_name := n; ra_nf := nf; ra_friendly := fr; ra_values := vs; ra_loc_l := ll; ra_loc_r := lr |}.
Definition S (ar : option restr) (fail : option bool) (ecs : list string) (bare : bool) : section :=
  {| s_ar := ar; s_fail := fail; s_ecs := ecs; s_bare := bare |}.
Definition M (ras : list (reqattr * option string)) (sid : option string) (sidloc : option string * option string)
           (ecs : list string) (ra : option string) : mdinfo :=
  {| md_ras := ras; md_sid := sid; md_sid_loc := sidloc; md_ecs := ecs; md_ra := ra |}.
Definition mk (ident : ava) (pol : policy) (sp : string) (md : option mdinfo) (e : entry)
           (mt : list (string * string)) (out : result ava) (caller : ava) (self : option ava) : case1 :=
  ({| i_ident := ident; i_pol := pol; i_sp := sp; i_md := md; i_entry := e |}, mt,
   {| o_out := out; o_caller := caller; o_self := self |}).

(* the case writer's form of a life: the policy configuration is written once *)
Definition stp (ident : ava) (sp : string) (md : option mdinfo) (e : entry)
           (mt : list (string * string)) (out : result ava) (caller : ava) (self : option ava) (pol : policy) : case1 :=
  mk ident pol sp md e mt out caller self.
Definition life (pol : policy) (steps : list (policy -> case1)) : case := map (fun f => f pol) steps.

Definition c_in (c : case1) : input := fst (fst c).
Definition c_mt (c : case1) : list (string * string) := snd (fst c).
Definition c_obs (c : case1) : output := snd c.

(* ---- comparison of observations (dict order and the order inside list(set(..)) are incidental) *)
(* strict: a str stays a str, a list stays a list *)
Definition vals_eqb (a b : vals) : bool :=
  match a, b with
  | VS s, VS t => String.eqb s t
  | VL l, VL m => ms_eqb l m
  | _, _ => false
  end.
(* loose: what an AttributeStatement can show *)
Definition vals_eqb_held (a b : vals) : bool := ms_eqb (held a) (held b).

Definition ava_eqb (veq : vals -> vals -> bool) (a b : ava) : bool :=
  Nat.eqb (length a) (length b)
  && forallb (fun e => match lookup (fst e) b with Some v => veq (snd e) v | None => false end) a.

Definition result_eqb (veq : vals -> vals -> bool) (a b : result ava) : bool :=
  match a, b with
  | Ok x, Ok y => ava_eqb veq x y
  | Missing, Missing => true
  | Crash, Crash => true
  | _, _ => false
  end.

Definition veq_of (x : input) : vals -> vals -> bool :=
  match i_entry x with EServer _ => vals_eqb_held | _ => vals_eqb end.

Definition model (c : case1) : output := run (rm (c_mt c)) ectab (c_in c).

Definition agrees1 (c : case1) : bool :=
  let m := model c in
  let o := c_obs c in
  result_eqb (veq_of (c_in c)) (o_out m) (o_out o)
  && ava_exact_eqb (o_caller m) (o_caller o)
  && match o_self m, o_self o with
     | Some a, Some b => ava_eqb vals_eqb a b
     | None, None => true
     | _, _ => false
     end.

(* the property, evaluated on what the implementation did *)
Definition holds1 (c : case1) : bool := spec_b (rm (c_mt c)) ectab (c_in c) (c_obs c).

(* a life: every call agrees with the call-by-call model (Model.run_life = map run) and every call's
   observed output satisfies the property against the requester as described at that call
   (Spec.spec_life_b = all spec_b) *)
Definition agrees (c : case) : bool := forallb agrees1 c.
Definition holds (c : case) : bool := forallb holds1 c.

(* finding classes (consulted only when holds is false).  All three findings are FIXED in /repo
   (findings/C10.json), so the driver reports a case of any class as a VIOLATION again; the
   class only names the regression:
   1 = C10-F1 (a4e3dbdd): through Server._authn_response Policy.restrict raised MissingValue and
       the outcome breaks the property (before the repair: the unfiltered identity was put into
       the assertion, best_effort=False ignored)
   2 = C10-F2 (47cc754e): entity categories configured but the Policy has no metadata store
       (before the repair: the filter was skipped)
   3 = C10-F5 (4be62a1c, FIXED like the other two: a case of this class is a VIOLATION again): an ONLY_REQUIRED
       entity category is configured and a REQUIRED RequestedAttribute's FriendlyName, read before Name +
       NameFormat, names another attribute (before the repair Policy.get_entity_categories read the label first).  Looked at LAST, so that it hides no regression of the repaired classes: a call whose outcome
       breaks the property BECAUSE of C10-F5 is in neither (with the categories in force Policy.restrict never raises
       MissingValue; without a store the requester is in no category and only the always-released keys, which
       ignore the required attributes, grant anything). *)
Definition cls1 (c : case1) : nat :=
  let x := c_in c in
  if class1 (rm (c_mt c)) ectab x then 1
  else if class2 ectab x then 2
  else if class3 ectab x then 3
  else 0.
(* the class of the first call whose output breaks the property *)
Definition cls (c : case) : nat :=
  match filter (fun s => negb (holds1 s)) c with
  | s :: _ => cls1 s
  | [] => 0
  end.

Definition run := run_cases agrees holds cls.
Definition model_v0 (c : case1) : output := run_v0 (rm (c_mt c)) ectab (c_in c).
Definition explain1 (c : case1) :=
  (model c, agrees1 c, holds1 c, cls1 c, flat (c_in c), ("v0", model_v0 c)).
Definition explain (c : case) := map explain1 c.

