(* C10/Source2.v — tie of the hand-written model to the CURRENT source text, translator v2
   (harness/py2coq2.py, Base/Py2.v; coq/gen/C10Src2.v is regenerated on every run). *)
From Coq Require Import String Ascii List Bool ZArith Arith Lia.
From Verif Require Import Base.Str Base.Py Base.Py2 C10.Model C10.Proofs C10.Source.
From VerifGen Require Import C10Src C10Src2.
Import ListNotations.
Open Scope string_scope.
Open Scope list_scope.

(* ------------------------------------------------------------------ encodings *)
Definition enc_strs (l : list string) : pyval := PList (map PStr l).
Definition enc_vals (v : vals) : pyval := match v with VS s => PStr s | VL l => enc_strs l end.
Definition enc_entry (e : string * vals) : string * pyval := (fst e, enc_vals (snd e)).
Definition enc_ava (a : ava) : pyval := PObj (map enc_entry a).
Definition enc_ostr (o : option string) : pyval := match o with Some s => PStr s | None => PNone end.

(* ------------------------------------------------------------------ general facts *)
Lemma list_has_strs v l : list_has (PStr v) (map PStr l) = Some (mem v l).
Proof.
  induction l as [|x r IH]; cbn [map list_has mem]; [reflexivity|].
  cbn [pv_eq cmp_ok is_bad is_object negb andb]. destruct (String.eqb v x); [reflexivity|exact IH].
Qed.

Lemma p2_in_strs v l : p2_in (PStr v) (enc_strs l) = PBool (mem v l).
Proof. unfold enc_strs, p2_in. rewrite s2_good by reflexivity. rewrite list_has_strs. reflexivity. Qed.

Lemma p2_append_strs l v : p2_append (enc_strs l) (PStr v) = enc_strs (l ++ [v]).
Proof. unfold enc_strs. rewrite map_app. reflexivity. Qed.

Lemma NoDup_insert {A : Type} (x : A) l1 l2 : NoDup (l1 ++ l2) -> ~ In x (l1 ++ l2) -> NoDup (l1 ++ x :: l2).
Proof.
  induction l1 as [|y r IH]; cbn [app]; intros Hnd Hx.
  - constructor; assumption.
  - inversion Hnd as [|? ? Hy Hr]; subst. constructor.
    + intros H. apply in_app_or in H as [H|[H|H]].
      * apply Hy. apply in_or_app. left. exact H.
      * apply Hx. left. symmetry. exact H.
      * apply Hy. apply in_or_app. right. exact H.
    + apply IH; [exact Hr|]. intros H. apply Hx. right. exact H.
Qed.

Lemma truthy_strs l : py_truthy (enc_strs l) = negb (is_nil l).
Proof. destruct l; reflexivity. Qed.

(* ================================================================== _filter_values *)
Definition fv_body (v_vals : pyval) : list pyval -> pyval -> ctl2 :=
  fun st_5 x_6 => match st_5 with [v_res] =>
     (let v_val := x_6 in
     (match p2_branch (p2_and (p2_in v_val v_vals) (p2_not_in v_val v_res)) with
     | BTrue => (py_bindS (fun n_9 => (ExcS n_9 [v_res])) (p2_append v_res v_val) (fun v_res =>
     (NextS [v_res])))
     | BFalse => (NextS [v_res])
     | BExc n_10 => (ExcS n_10 [v_res])
     | BErr => (RetS PErr)
     end))
    | _ => RetS PErr end.

Lemma fv_loop_src vals vl : forall res,
  pyfor2 (map PStr vl) [enc_strs res] (fv_body (enc_strs vals)) = NextS [enc_strs (fv_loop vals vl res)].
Proof.
  induction vl as [|v r IH]; intros res; cbn [map pyfor2 fv_loop]; [reflexivity|].
  unfold fv_body at 1. cbv zeta. rewrite !p2_in_strs. unfold p2_not_in. rewrite p2_in_strs, p2_not_bool.
  rewrite p2_and_good by reflexivity. cbn [py_truthy].
  destruct (mem v vals); cbn [andb].
  - rewrite p2_branch_bool. destruct (mem v res); cbn [negb].
    + apply IH.
    + rewrite p2_append_strs. cbn [py_bindS p2_bind enc_strs]. apply IH.
  - rewrite p2_branch_bool. apply IH.
Qed.

(* the whole function, for list arguments (the model's callers never pass a str or None): with
   must the answer is the filtered list or MissingValue, without it the filtered list *)
Theorem src2_filter_values_is_model vals vlist must :
  src2_filter_values (enc_strs vals) (enc_strs vlist) (PBool must)
  = if must
    then match filter_values_must vals vlist with Some r => enc_strs r | None => PExc "MissingValue" end
    else enc_strs (filter_values vals vlist).
Proof.
  unfold src2_filter_values. cbv zeta.
  destruct vlist as [|v0 vl].
  - cbn. destruct must; reflexivity.
  - set (vlist := v0 :: vl).
    assert (Hn : p2_branch (p2_not (enc_strs vlist)) = BFalse) by reflexivity. rewrite Hn. clear Hn.
    assert (Hv : p2_branch (p2_is_none (enc_strs vals)) = BFalse) by reflexivity. rewrite Hv. clear Hv.
    assert (Hi : p2_branch (p2_isinstance (enc_strs vlist) ["str"] []) = BFalse) by reflexivity. rewrite Hi. clear Hi.
    change (p2_iter_check (enc_strs vlist)) with (enc_strs vlist). unfold enc_strs at 1. cbn [py_bind py_iter2].
    lazymatch goal with |- context [pyfor2 ?l ?s ?b] =>
      change (pyfor2 l s b) with (pyfor2 l [enc_strs []] (fv_body (enc_strs vals))) end.
    rewrite fv_loop_src.
    rewrite p2_branch_bool.
    unfold filter_values_must, filter_values. subst vlist. cbv iota.
    destruct must; [|reflexivity].
    rewrite p2_branch_good by reflexivity. rewrite truthy_strs.
    destruct (fv_loop vals (v0 :: vl) []); reflexivity.
Qed.

(* ================================================================== _match *)
(* dicts of the model: no key "__class__" (that key marks an OBJECT in the embedding), ASCII keys
   (str.lower() of the embedding is the ASCII part of Python's) *)
Definition keys_ok {V : Type} (d : list (string * V)) : Prop := ~ In "__class__" (keys d).
Definition keys_ascii {V : Type} (d : list (string * V)) : Prop := forall k, In k (keys d) -> all_ascii k = true.

Lemma enc_ava_not_obj a : keys_ok a -> is_obj (map enc_entry a) = false.
Proof.
  destruct a as [|[k v] r]; [reflexivity|]. unfold keys_ok. cbn [keys map fst In is_obj enc_entry].
  intros H. apply String.eqb_neq. intros E. apply H. left. exact E.
Qed.

Lemma assoc_enc_ava k a : assoc_py k (map enc_entry a) = option_map enc_vals (lookup k a).
Proof.
  induction a as [|[k' v] r IH]; cbn [map enc_entry assoc_py lookup fst snd option_map]; [reflexivity|].
  destruct (String.eqb k k'); [reflexivity|exact IH].
Qed.

Lemma p2_in_ava k a : keys_ok a -> p2_in (PStr k) (enc_ava a) = PBool (has k a).
Proof.
  intros H. unfold enc_ava. rewrite p2_in_dict by (apply enc_ava_not_obj, H). rewrite assoc_enc_ava.
  unfold has. destruct (lookup k a); reflexivity.
Qed.

Lemma p2_lower_ascii s : all_ascii s = true -> p2_lower (PStr s) = PStr (lower s).
Proof. intros H. cbn. rewrite H. rewrite lower_is_str_lower. reflexivity. Qed.

Lemma p2_keys_ava a : keys_ok a -> p2_keys (enc_ava a) = enc_strs (keys a).
Proof.
  intros H. unfold p2_keys, dict_view, enc_ava. rewrite s1_good by reflexivity.
  rewrite enc_ava_not_obj by exact H. unfold enc_strs, keys. rewrite !map_map. reflexivity.
Qed.

Definition match_body (v__la : pyval) : list pyval -> pyval -> ctl2 :=
  fun st_3 x_4 => match st_3 with [] =>
    (let v__at := x_4 in
    (match p2_branch (p2_eq (p2_lower v__at) v__la) with
    | BTrue => (py_bindS (fun n_8 => (ExcS n_8 [])) v__at (fun r_7 =>
    (RetS r_7)))
    | BFalse => (NextS [])
    | BExc n_9 => (ExcS n_9 [])
    | BErr => (RetS PErr)
    end))
   | _ => RetS PErr end.

Lemma match_loop_src la ks :
  (forall k, In k ks -> all_ascii k = true) ->
  pyfor2 (map PStr ks) [] (match_body (PStr la))
  = match find (fun k => String.eqb (lower k) la) ks with Some k => RetS (PStr k) | None => NextS [] end.
Proof.
  induction ks as [|k r IH]; intros Hk; cbn [map pyfor2 find]; [reflexivity|].
  unfold match_body at 1. cbv zeta. rewrite p2_lower_ascii by (apply Hk; left; reflexivity).
  rewrite p2_eq_str, p2_branch_bool.
  destruct (String.eqb (lower k) la); [reflexivity|]. apply IH. intros k' H. apply Hk. right. exact H.
Qed.

(* the whole function: the key of the identity that matches attr (exact, lower-cased, or the first
   key whose lower-casing is attr's), None when there is none *)
Theorem src2_match_is_model attr a :
  keys_ok a -> keys_ascii a -> all_ascii attr = true ->
  src2_match (PStr attr) (enc_ava a) = enc_ostr (match_ attr a).
Proof.
  intros Hok Hasc Hattr. unfold src2_match, match_. cbv zeta.
  rewrite p2_in_ava by exact Hok. rewrite p2_branch_bool.
  destruct (has attr a); [reflexivity|].
  rewrite p2_lower_ascii by exact Hattr. cbn [py_bind].
  rewrite p2_in_ava by exact Hok. rewrite p2_branch_bool.
  destruct (has (lower attr) a); [reflexivity|].
  rewrite p2_keys_ava by exact Hok. unfold enc_strs. rewrite p2_iter_check_list. cbn [py_bind py_iter2].
  lazymatch goal with |- context [pyfor2 ?l ?s ?b] =>
    change (pyfor2 l s b) with (pyfor2 l [] (match_body (PStr (lower attr)))) end.
  rewrite match_loop_src by exact Hasc.
  destruct (find _ (keys a)); reflexivity.
Qed.

(* ================================================================== filter_on_attributes._match_attr_name *)
(* a RequestedAttribute as the dict that to_dict() makes: absent fields have no key *)
Definition opt_field (k : string) (o : option string) : list (string * pyval) :=
  match o with Some s => [(k, PStr s)] | None => [] end.
Definition enc_avs (vs : list string) : list (string * pyval) :=
  match vs with
  | [] => []
  | _ => [("attribute_value", PList (map (fun v => PObj [("text", PStr v)]) vs))]
  end.
Definition enc_rq (d : reqattr) : pyval :=
  PObj ((("name", PStr (ra_name d)) :: opt_field "name_format" (ra_nf d))
        ++ opt_field "friendly_name" (ra_friendly d) ++ enc_avs (ra_values d))%list.

Lemma enc_rq_name d : p2_getitem (enc_rq d) (PStr "name") = PStr (ra_name d).
Proof. reflexivity. Qed.
Lemma enc_rq_nf d : p2_get (enc_rq d) (PStr "name_format") = enc_ostr (ra_nf d).
Proof. unfold enc_rq. destruct (ra_nf d), (ra_friendly d), (ra_values d); reflexivity. Qed.
Lemma enc_rq_friendly d : p2_get (enc_rq d) (PStr "friendly_name") = enc_ostr (ra_friendly d).
Proof. unfold enc_rq. destruct (ra_nf d), (ra_friendly d), (ra_values d); reflexivity. Qed.

Lemma is_ascii_lower_char c : is_ascii_char c = true -> is_ascii_char (Str.lower_char c) = true.
Proof. destruct c as [[] [] [] [] [] [] [] []]; vm_compute; intros H; solve [reflexivity | discriminate]. Qed.
Lemma all_ascii_lower s : all_ascii s = true -> all_ascii (lower s) = true.
Proof.
  rewrite lower_is_str_lower. unfold all_ascii. induction s as [|c r IH]; cbn [Str.lower all_chars]; [reflexivity|].
  intros H. apply andb_true_iff in H as [Hc Hr]. rewrite is_ascii_lower_char by exact Hc. apply IH, Hr.
Qed.

Lemma good_ostr o : is_bad (enc_ostr o) = false.
Proof. destruct o; reflexivity. Qed.
Lemma truthy_ostr o : py_truthy (enc_ostr o) = match tr o with Some _ => true | None => false end.
Proof. destruct o as [s|]; [|reflexivity]. cbn [enc_ostr py_truthy tr]. destruct (is_empty s); reflexivity. Qed.
Lemma p2_or_ostr x y : p2_or (enc_ostr x) (enc_ostr y) = enc_ostr (or_ x y).
Proof.
  rewrite p2_or_good by apply good_ostr. rewrite truthy_ostr. unfold or_.
  destruct x as [s|]; [|reflexivity]. cbn [tr]. destruct (is_empty s); reflexivity.
Qed.

(* get_local_name(..) or friendly_name or "" *)
Lemma local_name_src d :
  p2_or (enc_ostr (ra_loc_l d)) (p2_or (enc_ostr (ra_friendly d)) (PStr "")) = PStr (local_name d).
Proof.
  change (PStr "") with (enc_ostr (Some "")). rewrite !p2_or_ostr. unfold local_name, or_.
  destruct (tr (ra_loc_l d)) as [l|]; [reflexivity|].
  destruct (tr (ra_friendly d)) as [f|]; reflexivity.
Qed.

Section MatchAttrName.
  (* the attribute maps (saml2.attribute_converter.get_local_name) are external: what they answer for
     this RequestedAttribute is the model's datum ra_loc_l *)
  Variable get_local_name : pyval -> pyval -> pyval.
  Variable d : reqattr.
  Hypothesis local_name_datum :
    get_local_name (PStr (lower (ra_name d))) (enc_ostr (ra_nf d)) = enc_ostr (ra_loc_l d).

  (* the whole nested function, with the translated _match in the place of _match: the value `_fn`;
     the caller's test `if _fn:` is the model's [tr], see match_attr_name_truth *)
  Theorem src2_match_attr_name_is_model a :
    keys_ok a -> keys_ascii a -> all_ascii (ra_name d) = true -> all_ascii (local_name d) = true ->
    src2_match_attr_name get_local_name src2_match (enc_rq d) (enc_ava a)
    = enc_ostr (or_ (match_ (local_name d) a) (match_ (lower (ra_name d)) a)).
  Proof.
    intros Hok Hasc Hname Hloc. unfold src2_match_attr_name. cbv zeta.
    rewrite enc_rq_name, enc_rq_nf, enc_rq_friendly.
    rewrite p2_lower_ascii by exact Hname. cbn [py_bind].
    rewrite (py_bind_good (enc_ostr (ra_nf d))) by apply good_ostr.
    rewrite (py_bind_good (enc_ostr (ra_friendly d))) by apply good_ostr.
    rewrite (py_bind_good (enc_ostr (ra_nf d))) by apply good_ostr.
    rewrite local_name_datum, local_name_src. cbn [py_bind enc_ava].
    fold (enc_ava a).
    rewrite !src2_match_is_model by (try apply all_ascii_lower; assumption).
    rewrite p2_or_ostr. apply py_bind_good, good_ostr.
  Qed.
End MatchAttrName.

Example match_attr_name_hyp_sat d : exists g, g (PStr (lower (ra_name d))) (enc_ostr (ra_nf d)) = enc_ostr (ra_loc_l d).
Proof. exists (fun _ _ => enc_ostr (ra_loc_l d)). reflexivity. Qed.

Lemma match_attr_name_truth d a :
  py_truthy (enc_ostr (or_ (match_ (local_name d) a) (match_ (lower (ra_name d)) a)))
  = match match_attr_name d a with Some _ => true | None => false end.
Proof. apply truthy_ostr. Qed.

(* ================================================================== filter_attribute_value_assertions *)
(* compiled attribute_restrictions: lower-cased name -> None | list of compiled regexes; a compiled
   regex is represented by its pattern, `restr.match(val)` is the external call re_match *)
Definition enc_rests (o : option (list string)) : pyval := match o with None => PNone | Some rs => enc_strs rs end.
Definition enc_rentry (e : string * option (list string)) : string * pyval := (fst e, enc_rests (snd e)).
Definition enc_restr (R : restr) : pyval := PObj (map enc_rentry R).
Definition enc_orestr (o : option restr) : pyval := match o with None => PNone | Some R => enc_restr R end.

(* list(set(l)) of the embedding: first occurrences, in order.  The model's [dedup] keeps the last
   occurrences: set order is incidental (Corr compares value lists as multisets), so the theorem is
   stated for the model's filter with the de-duplication function as a parameter *)
Fixpoint uniq_go (seen l : list string) : list string :=
  match l with
  | [] => []
  | x :: r => if mem x seen then uniq_go seen r else x :: uniq_go (x :: seen) r
  end.
Definition set_first (l : list string) : list string := uniq_go [] l.

Definition fava_entry_with (rmatch : string -> string -> bool) (dd : list string -> list string)
           (R : restr) (e : string * vals) : list (string * vals) :=
  match lookup (lower (fst e)) R with
  | None => []
  | Some None => [e]
  | Some (Some rests) =>
      match rvals rmatch rests (held (snd e)) with
      | [] => []
      | rv => [(fst e, VL (dd rv))]
      end
  end.
Definition fava_with (rmatch : string -> string -> bool) (dd : list string -> list string)
           (a : ava) (R : option restr) : ava :=
  match R with
  | None => a
  | Some [] => a
  | Some R => flat_map (fava_entry_with rmatch dd R) a
  end.

(* with the model's own de-duplication it IS the model's filter *)
Lemma fava_with_dedup rmatch a R : fava_with rmatch dedup a R = fava rmatch a R.
Proof. reflexivity. Qed.

(* both de-duplications give a duplicate-free list with the same elements *)
Lemma uniq_go_In seen l x : In x (uniq_go seen l) <-> In x l /\ ~ In x seen.
Proof.
  revert seen. induction l as [|y r IH]; intros seen; cbn [uniq_go In]; [tauto|].
  destruct (mem y seen) eqn:E.
  - apply mem_In in E. rewrite IH. split; [tauto|]. intros [[->|H] Hs]; tauto.
  - assert (Hy : ~ In y seen) by (intros H; apply mem_In in H; congruence).
    cbn [In]. rewrite IH. cbn [In]. split.
    + intros [->|[H1 H2]]; [tauto|]. split; [tauto|]. intros H3. apply H2. right. exact H3.
    + intros [[->|H1] H2]; [left; reflexivity|].
      destruct (string_dec y x) as [->|Hne]; [left; reflexivity|]. right. split; [exact H1|].
      intros [H3|H3]; [congruence|tauto].
Qed.
Lemma uniq_go_NoDup seen l : NoDup (uniq_go seen l).
Proof.
  revert seen. induction l as [|y r IH]; intros seen; cbn [uniq_go]; [constructor|].
  destruct (mem y seen); [apply IH|]. constructor; [|apply IH].
  rewrite uniq_go_In. intros [_ H]. apply H. left. reflexivity.
Qed.
Lemma set_first_In l x : In x (set_first l) <-> In x l.
Proof. unfold set_first. rewrite uniq_go_In. cbn [In]. tauto. Qed.
Lemma set_first_NoDup l : NoDup (set_first l).
Proof. apply uniq_go_NoDup. Qed.
Lemma dedup_In l x : In x (dedup l) <-> In x l.
Proof.
  induction l as [|y r IH]; cbn [dedup In]; [tauto|].
  destruct (mem y r) eqn:E.
  - apply mem_In in E. rewrite IH. split; [tauto|]. intros [->|H]; assumption.
  - cbn [In]. rewrite IH. tauto.
Qed.
Lemma dedup_NoDup l : NoDup (dedup l).
Proof.
  induction l as [|y r IH]; cbn [dedup]; [constructor|].
  destruct (mem y r) eqn:E; [exact IH|]. constructor; [|exact IH].
  rewrite dedup_In. intros H. apply mem_In in H. congruence.
Qed.

Lemma dedup_go_strs l : forall seen, dedup_go (map PStr seen) (map PStr l) = Some (map PStr (uniq_go seen l)).
Proof.
  induction l as [|x r IH]; intros seen; cbn [map dedup_go uniq_go hashable negb]; [reflexivity|].
  rewrite list_has_strs. destruct (mem x seen); [apply IH|].
  change (PStr x :: map PStr seen) with (map PStr (x :: seen)). rewrite IH. reflexivity.
Qed.
Lemma list_set_strs l : p2_list (p2_set (enc_strs l)) = enc_strs (set_first l).
Proof.
  unfold enc_strs, p2_set. rewrite s1_good by reflexivity. cbn [p2_iterable py_iter2].
  change (@nil pyval) with (map PStr []). rewrite dedup_go_strs. reflexivity.
Qed.

(* the loop bodies, copied from coq/gen/C10Src2.v (checked by conversion where they are used) *)
Definition fava_in2 (re_match : pyval -> pyval -> pyval) (v_restr : pyval) : list pyval -> pyval -> ctl2 :=
  fun st_27 x_28 => match st_27 with [v_rvals] =>
       (let v_val := x_28 in
       (match p2_branch (py_bind v_val (fun a_31 => (re_match v_restr a_31))) with
       | BTrue => (py_bindS (fun n_32 => (ExcS n_32 [v_rvals])) (p2_append v_rvals v_val) (fun v_rvals =>
       (NextS [v_rvals])))
       | BFalse => (NextS [v_rvals])
       | BExc n_33 => (ExcS n_33 [v_rvals])
       | BErr => (RetS PErr)
       end))
      | _ => RetS PErr end.

Definition fava_in1 (re_match : pyval -> pyval -> pyval) (v_vals : pyval) : list pyval -> pyval -> ctl2 :=
  fun st_22 x_23 => match st_22 with [v_rvals] =>
      (let v_restr := x_23 in
      (py_bindS (fun n_34 => (ExcS n_34 [v_rvals])) (p2_iter_check v_vals) (fun it_26 =>
      (match pyfor2 (py_iter2 it_26) [v_rvals] (fava_in2 re_match v_restr) with
      | NextS st_27 => match st_27 with [v_rvals] => (NextS [v_rvals]) | _ => (RetS PErr) end
      | BrkS _ => (RetS PErr)
      | RetS r_29 => (RetS r_29)
      | ExcS n_30 st_27 => match st_27 with [v_rvals] => (ExcS n_30 [v_rvals]) | _ => (RetS PErr) end
      end))))
     | _ => RetS PErr end.

Definition fava_k (re_match : pyval -> pyval -> pyval) (v_attr v__attr v__rests v_ava v_vals : pyval) : ctl2 :=
     (let v_rvals := (PList []) in
     (py_bindS (fun n_35 => (ExcS n_35 [v__attr; v__rests; v_ava; v_vals; v_rvals])) (p2_iter_check v__rests) (fun it_21 =>
     (match pyfor2 (py_iter2 it_21) [v_rvals] (fava_in1 re_match v_vals) with
     | NextS st_22 => match st_22 with [v_rvals] => (match p2_branch v_rvals with
     | BTrue => (py_bindS (fun n_15 => (ExcS n_15 [v__attr; v__rests; v_ava; v_vals; v_rvals])) (p2_list (p2_set v_rvals)) (fun a_11 =>
     (py_bindS (fun n_14 => (ExcS n_14 [v__attr; v__rests; v_ava; v_vals; v_rvals])) v_attr (fun a_12 =>
     (py_bindS (fun n_13 => (ExcS n_13 [v__attr; v__rests; v_ava; v_vals; v_rvals])) (p2_setitem v_ava a_12 a_11) (fun v_ava =>
     (NextS [v__attr; v__rests; v_ava; v_vals; v_rvals])))))))
     | BFalse => (py_bindS (fun n_18 => (ExcS n_18 [v__attr; v__rests; v_ava; v_vals; v_rvals])) v_attr (fun a_16 =>
     (py_bindS (fun n_17 => (ExcS n_17 [v__attr; v__rests; v_ava; v_vals; v_rvals])) (p2_delitem v_ava a_16) (fun v_ava =>
     (NextS [v__attr; v__rests; v_ava; v_vals; v_rvals])))))
     | BExc n_19 => (ExcS n_19 [v__attr; v__rests; v_ava; v_vals; v_rvals])
     | BErr => (RetS PErr)
     end) | _ => (RetS PErr) end
     | BrkS _ => (RetS PErr)
     | RetS r_24 => (RetS r_24)
     | ExcS n_25 st_22 => match st_22 with [v_rvals] => (ExcS n_25 [v__attr; v__rests; v_ava; v_vals; v_rvals]) | _ => (RetS PErr) end
     end)))).

Definition fava_body (re_match : pyval -> pyval -> pyval) (v_attribute_restrictions : pyval)
  : list pyval -> pyval -> ctl2 :=
  fun st_3 x_4 => match st_3 with [v__attr; v__rests; v_ava; v_vals; v_rvals] =>
    (match p2_unpack 2 x_4 with
    | PList [v_attr; v_vals] => (py_bindS (fun n_43 => (ExcS n_43 [v__attr; v__rests; v_ava; v_vals; v_rvals])) (p2_lower v_attr) (fun v__attr =>
    (py_bindS (fun n_42 => (if exc_matches n_42 ["KeyError"]
    then (py_bindS (fun n_10 => (ExcS n_10 [v__attr; v__rests; v_ava; v_vals; v_rvals])) v_attr (fun a_8 =>
    (py_bindS (fun n_9 => (ExcS n_9 [v__attr; v__rests; v_ava; v_vals; v_rvals])) (p2_delitem v_ava a_8) (fun v_ava =>
    (NextS [v__attr; v__rests; v_ava; v_vals; v_rvals])))))
    else (ExcS n_42 [v__attr; v__rests; v_ava; v_vals; v_rvals]))) (p2_getitem v_attribute_restrictions v__attr) (fun v__rests =>
    (match p2_branch (p2_is_none v__rests) with
    | BTrue => (NextS [v__attr; v__rests; v_ava; v_vals; v_rvals])
    | BFalse =>
    (match p2_branch (p2_isinstance v_vals ["str"] []) with
    | BTrue => (py_bindS (fun n_37 => (ExcS n_37 [v__attr; v__rests; v_ava; v_vals; v_rvals])) (p2_mklist [v_vals]) (fun v_vals =>
    (fava_k re_match v_attr v__attr v__rests v_ava v_vals)))
    | BFalse => (fava_k re_match v_attr v__attr v__rests v_ava v_vals)
    | BExc n_38 => (ExcS n_38 [v__attr; v__rests; v_ava; v_vals; v_rvals])
    | BErr => (RetS PErr)
    end)
    | BExc n_40 => (ExcS n_40 [v__attr; v__rests; v_ava; v_vals; v_rvals])
    | BErr => (RetS PErr)
    end)))))
    | PExc n_44 => (ExcS n_44 [v__attr; v__rests; v_ava; v_vals; v_rvals])
    | _ => (RetS PErr)
    end)
   | _ => RetS PErr end.

Section Fava.
  Variable rmatch : string -> string -> bool.
  (* the regex engine: restr.match(val) is a Match object (truthy) or None; any good value with the
     right truth value will do *)
  Variable re_match : pyval -> pyval -> pyval.
  Hypothesis re_match_good : forall r v, is_bad (re_match (PStr r) (PStr v)) = false.
  Hypothesis re_match_truth : forall r v, py_truthy (re_match (PStr r) (PStr v)) = rmatch r v.

  Lemma fava_in2_src r vs : forall acc,
    pyfor2 (map PStr vs) [enc_strs acc] (fava_in2 re_match (PStr r))
    = NextS [enc_strs (acc ++ filter (rmatch r) vs)].
  Proof.
    induction vs as [|v t IH]; intros acc; cbn [map pyfor2 filter].
    - rewrite app_nil_r. reflexivity.
    - unfold fava_in2 at 1. cbv zeta. cbn [py_bind].
      rewrite p2_branch_good by apply re_match_good. rewrite re_match_truth.
      destruct (rmatch r v).
      + rewrite p2_append_strs. cbn [py_bindS p2_bind enc_strs]. fold (enc_strs (acc ++ [v])).
        rewrite IH. rewrite <- app_assoc. reflexivity.
      + apply IH.
  Qed.

  Lemma fava_in1_src vs rests : forall acc,
    pyfor2 (map PStr rests) [enc_strs acc] (fava_in1 re_match (enc_strs vs))
    = NextS [enc_strs (acc ++ rvals rmatch rests vs)].
  Proof.
    induction rests as [|r t IH]; intros acc; cbn [map pyfor2 rvals flat_map].
    - rewrite app_nil_r. reflexivity.
    - unfold fava_in1 at 1. cbv zeta.
      change (p2_iter_check (enc_strs vs)) with (enc_strs vs). rewrite py_bindS_good by reflexivity.
      change (py_iter2 (enc_strs vs)) with (map PStr vs).
      rewrite fava_in2_src. rewrite IH. unfold rvals. rewrite <- app_assoc. reflexivity.
  Qed.

  (* association lists under the encoding *)
  Lemma del_assoc_mid k (v : vals) done post :
    ~ In k (keys done) ->
    del_assoc k (map enc_entry (done ++ (k, v) :: post)) = map enc_entry (done ++ post).
  Proof.
    induction done as [|[k' v'] r IH]; cbn [keys map fst In app enc_entry del_assoc snd]; intros H.
    - rewrite String.eqb_refl. reflexivity.
    - destruct (String.eqb k k') eqn:E; [apply String.eqb_eq in E; exfalso; apply H; left; congruence|].
      f_equal. apply IH. intros H1. apply H. right. exact H1.
  Qed.

  Lemma set_assoc_mid k (v v' : vals) done post :
    ~ In k (keys done) ->
    set_assoc k (enc_vals v') (map enc_entry (done ++ (k, v) :: post))
    = map enc_entry ((done ++ [(k, v')]) ++ post).
  Proof.
    induction done as [|[k0 v0] r IH]; cbn [keys map fst In app enc_entry set_assoc snd]; intros H.
    - rewrite String.eqb_refl. reflexivity.
    - destruct (String.eqb k k0) eqn:E; [apply String.eqb_eq in E; exfalso; apply H; left; congruence|].
      f_equal. apply IH. intros H1. apply H. right. exact H1.
  Qed.

  Lemma assoc_mid k (v : vals) done post :
    ~ In k (keys done) -> assoc_py k (map enc_entry (done ++ (k, v) :: post)) = Some (enc_vals v).
  Proof.
    induction done as [|[k0 v0] r IH]; cbn [keys map fst In app enc_entry assoc_py snd]; intros H.
    - rewrite String.eqb_refl. reflexivity.
    - destruct (String.eqb k k0) eqn:E; [apply String.eqb_eq in E; exfalso; apply H; left; congruence|].
      apply IH. intros H1. apply H. right. exact H1.
  Qed.

  Lemma assoc_enc_restr k R : assoc_py k (map enc_rentry R) = option_map enc_rests (lookup k R).
  Proof.
    induction R as [|[k' v] r IH]; cbn [map enc_rentry assoc_py lookup fst snd option_map]; [reflexivity|].
    destruct (String.eqb k k'); [reflexivity|exact IH].
  Qed.

  Lemma enc_restr_not_obj R : keys_ok R -> is_obj (map enc_rentry R) = false.
  Proof.
    destruct R as [|[k v] r]; [reflexivity|]. unfold keys_ok. cbn [keys map fst In is_obj enc_rentry].
    intros H. apply String.eqb_neq. intros E. apply H. left. exact E.
  Qed.

  Lemma good_vals v : is_bad (enc_vals v) = false.
  Proof. destruct v; reflexivity. Qed.

  (* the continuation after `if isinstance(vals, str): vals = [vals]` *)
  Lemma fava_k_src k s1 rests vs done (v : vals) post :
    keys_ok (done ++ (k, v) :: post) -> ~ In k (keys done) ->
    fava_k re_match (PStr k) s1 (enc_strs rests) (enc_ava (done ++ (k, v) :: post)) (enc_strs vs)
    = NextS [s1; enc_strs rests;
             enc_ava (match rvals rmatch rests vs with
                      | [] => done ++ post
                      | rv => (done ++ [(k, VL (set_first rv))]) ++ post
                      end)%list;
             enc_strs vs; enc_strs (rvals rmatch rests vs)].
  Proof.
    intros Hok Hk. unfold fava_k. cbv zeta.
    change (p2_iter_check (enc_strs rests)) with (enc_strs rests). rewrite py_bindS_good by reflexivity.
    change (py_iter2 (enc_strs rests)) with (map PStr rests). change (PList []) with (enc_strs []).
    rewrite fava_in1_src. cbn [app].
    rewrite p2_branch_good by reflexivity. rewrite truthy_strs.
    assert (Hno : is_obj (map enc_entry (done ++ (k, v) :: post)) = false) by (apply enc_ava_not_obj, Hok).
    assert (Hkc : k <> "__class__").
    { intros E. apply Hok. unfold keys. rewrite map_app. apply in_or_app. right. left. exact E. }
    destruct (rvals rmatch rests vs) as [|x rv] eqn:Erv; cbn [is_nil negb].
    - cbn [py_bindS p2_bind]. unfold enc_ava.
      rewrite (p2_delitem_dict _ _ (enc_vals v)) by (try exact Hno; apply assoc_mid, Hk).
      cbn [py_bindS p2_bind]. rewrite del_assoc_mid by exact Hk. reflexivity.
    - rewrite list_set_strs. cbn [py_bindS p2_bind enc_strs]. fold (enc_strs (set_first (x :: rv))).
      unfold enc_ava. rewrite p2_setitem_dict by (try exact Hno; try exact Hkc; reflexivity).
      cbn [py_bindS p2_bind].
      change (enc_strs (set_first (x :: rv))) with (enc_vals (VL (set_first (x :: rv)))).
      rewrite set_assoc_mid by exact Hk. reflexivity.
  Qed.

  Definition enc_item (e : string * vals) : pyval := PList [PStr (fst e); enc_vals (snd e)].

  (* one iteration of `for attr, vals in list(ava.items())` *)
  Lemma fava_body_src R s1 s2 s4 s5 done (e : string * vals) post :
    keys_ok R -> keys_ok (done ++ e :: post) -> ~ In (fst e) (keys done) -> all_ascii (fst e) = true ->
    exists t1 t2 t4 t5,
      fava_body re_match (enc_restr R) [s1; s2; enc_ava (done ++ e :: post); s4; s5] (enc_item e)
      = NextS [t1; t2; enc_ava ((done ++ fava_entry_with rmatch set_first R e) ++ post)%list; t4; t5].
  Proof.
    destruct e as [k v]. cbn [fst]. intros HR Hok Hk Hasc.
    unfold fava_body, enc_item. cbn [fst snd p2_unpack length Nat.eqb].
    rewrite p2_lower_ascii by exact Hasc. cbn [py_bindS p2_bind].
    unfold enc_restr. rewrite p2_getitem_dict by (apply enc_restr_not_obj, HR). rewrite assoc_enc_restr.
    unfold fava_entry_with. cbn [fst snd].
    assert (Hno : is_obj (map enc_entry (done ++ (k, v) :: post)) = false) by (apply enc_ava_not_obj, Hok).
    destruct (lookup (lower k) R) as [[rests|]|] eqn:EL; cbn [option_map enc_rests].
    - (* a list of regexes *)
      rewrite py_bindS_good by reflexivity.
      assert (Hn : p2_branch (p2_is_none (enc_strs rests)) = BFalse) by reflexivity. rewrite Hn. clear Hn.
      destruct v as [s|l]; cbn [enc_vals held].
      + assert (Hi : p2_branch (p2_isinstance (PStr s) ["str"] []) = BTrue) by reflexivity. rewrite Hi. clear Hi.
        cbn [p2_mklist first_bad py_bindS p2_bind]. change (PList [PStr s]) with (enc_strs [s]).
        rewrite (fava_k_src k _ rests [s] done (VS s) post) by assumption.
        destruct (rvals rmatch rests [s]); do 4 eexists; [rewrite app_nil_r|]; reflexivity.
      + assert (Hi : p2_branch (p2_isinstance (enc_strs l) ["str"] []) = BFalse) by reflexivity. rewrite Hi. clear Hi.
        rewrite (fava_k_src k _ rests l done (VL l) post) by assumption.
        destruct (rvals rmatch rests l); do 4 eexists; [rewrite app_nil_r|]; reflexivity.
    - (* None: the attribute passes as it is *)
      cbn [py_bindS p2_bind p2_is_none Py2.s1 py_bind p2_branch py_truthy].
      do 4 eexists. rewrite <- app_assoc. reflexivity.
    - (* KeyError: the attribute is removed *)
      cbn [py_bindS p2_bind exc_matches mem String.eqb Ascii.eqb Bool.eqb orb].
      unfold enc_ava. rewrite (p2_delitem_dict _ _ (enc_vals v)) by (try exact Hno; apply assoc_mid, Hk).
      cbn [py_bindS p2_bind]. rewrite del_assoc_mid by exact Hk.
      do 4 eexists. rewrite app_nil_r. reflexivity.
  Qed.

  Lemma fava_loop_src R : keys_ok R -> forall post done s1 s2 s4 s5,
    keys_ok (done ++ post) -> NoDup (keys (done ++ post)) -> keys_ascii post ->
    exists t1 t2 t4 t5,
      pyfor2 (map enc_item post) [s1; s2; enc_ava (done ++ post); s4; s5] (fava_body re_match (enc_restr R))
      = NextS [t1; t2; enc_ava (done ++ flat_map (fava_entry_with rmatch set_first R) post)%list; t4; t5].
  Proof.
    intros HR. induction post as [|e r IH]; intros done s1 s2 s4 s5 Hok Hnd Hasc; cbn [map pyfor2 flat_map].
    - do 4 eexists. reflexivity.
    - assert (Hk : ~ In (fst e) (keys done)).
      { unfold keys in *. rewrite map_app in Hnd. cbn [map] in Hnd. apply NoDup_remove_2 in Hnd.
        intros H. apply Hnd. apply in_or_app. left. exact H. }
      destruct (fava_body_src R s1 s2 s4 s5 done e r HR Hok Hk) as (t1 & t2 & t4 & t5 & E).
      { apply Hasc. left. reflexivity. }
      rewrite E. clear E.
      assert (Hsub : forall x, In x (keys (fava_entry_with rmatch set_first R e)) -> x = fst e).
      { unfold fava_entry_with. intros x. destruct (lookup (lower (fst e)) R) as [[rests|]|].
        - destruct (rvals rmatch rests (held (snd e))); cbn [keys map fst In]; [tauto|]. intros [H|H]; [congruence|tauto].
        - cbn [keys map fst In]. intros [H|H]; [congruence|tauto].
        - cbn [keys map In]. tauto. }
      destruct (IH (done ++ fava_entry_with rmatch set_first R e)%list t1 t2 t4 t5) as (u1 & u2 & u4 & u5 & E).
      + unfold keys_ok, keys in *. rewrite !map_app in *. cbn [map] in Hok. intros H. apply Hok.
        apply in_app_or in H as [H|H]; [apply in_app_or in H as [H|H]|].
        * apply in_or_app. left. exact H.
        * apply in_or_app. right. left. symmetry. apply Hsub. exact H.
        * apply in_or_app. right. right. exact H.
      + unfold keys in *. rewrite !map_app in *. cbn [map] in Hnd.
        assert (Hnd' : NoDup (map fst done ++ map fst r)) by (apply NoDup_remove_1 in Hnd; exact Hnd).
        assert (Hnot : ~ In (fst e) (map fst done ++ map fst r)) by (apply NoDup_remove_2 in Hnd; exact Hnd).
        unfold fava_entry_with. destruct (lookup (lower (fst e)) R) as [[rests|]|]; cbn [map app].
        * destruct (rvals rmatch rests (held (snd e))); cbn [map fst app].
          -- rewrite app_nil_r. exact Hnd'.
          -- rewrite <- app_assoc. cbn [app]. apply NoDup_insert; [exact Hnd'|exact Hnot].
        * rewrite <- app_assoc. cbn [app]. apply NoDup_insert; [exact Hnd'|exact Hnot].
        * rewrite app_nil_r. exact Hnd'.
      + intros x Hx. apply Hasc. right. exact Hx.
      + rewrite E. do 4 eexists. rewrite <- app_assoc. reflexivity.
  Qed.

  Lemma p2_items_ava a : keys_ok a -> p2_list (p2_items (enc_ava a)) = PList (map enc_item a).
  Proof.
    intros H. unfold p2_items, dict_view, enc_ava. rewrite s1_good by reflexivity.
    rewrite enc_ava_not_obj by exact H. rewrite map_map. reflexivity.
  Qed.

  (* the whole function (ava a dict with distinct ASCII keys, values str or list of str;
     attribute_restrictions None, {} or a compiled dict): the filtered dict, insertion order included *)
  Theorem src2_fava_is_model a R :
    keys_ok a -> NoDup (keys a) -> keys_ascii a -> (forall R', R = Some R' -> keys_ok R') ->
    src2_fava re_match (enc_ava a) (enc_orestr R) = enc_ava (fava_with rmatch set_first a R).
  Proof.
    intros Hok Hnd Hasc HR. unfold src2_fava. cbv zeta.
    destruct R as [[|r0 R']|]; [reflexivity| |reflexivity].
    set (R := r0 :: R'). assert (HR' : keys_ok R) by (apply HR; reflexivity).
    assert (Hn : p2_branch (p2_not (enc_orestr (Some R))) = BFalse) by reflexivity. rewrite Hn. clear Hn.
    rewrite p2_items_ava by exact Hok. rewrite p2_iter_check_list. cbn [py_bind py_iter2].
    lazymatch goal with |- context [pyfor2 ?l ?s ?b] =>
      change (pyfor2 l s b) with (pyfor2 l s (fava_body re_match (enc_restr R))) end.
    destruct (fava_loop_src R HR' a [] PErr PErr PErr PErr Hok Hnd Hasc) as (t1 & t2 & t4 & t5 & E).
    cbn [app] in E. rewrite E. reflexivity.
  Qed.
End Fava.

Example fava_hyp_sat (rmatch : string -> string -> bool) :
  exists re_match, (forall r v, is_bad (re_match (PStr r) (PStr v)) = false)
                   /\ (forall r v, py_truthy (re_match (PStr r) (PStr v)) = rmatch r v).
Proof.
  exists (fun r v => match r, v with PStr r, PStr v => if rmatch r v then PStr "match" else PNone | _, _ => PErr end).
  split; intros r v; destruct (rmatch r v); reflexivity.
Qed.

(* ================================================================== Policy.filter *)
Definition enc_oreqs (l : list reqattr) : pyval := match l with [] => PNone | _ => PList (map enc_rq l) end.
Definition enc_obool (o : option bool) : pyval := match o with Some b => PBool b | None => PNone end.
(* outcome of a filter: the released dict, MissingValue, or the other exception (class name cn) *)
Definition enc_result (cn : string) (r : result ava) : pyval :=
  match r with Ok x => enc_ava x | Missing => PExc "MissingValue" | Crash => PExc cn end.
(* a Policy object: the two attributes the translated methods read *)
Definition enc_policy_self (store acs : pyval) : pyval :=
  PObj [("__class__", PStr "Policy"); ("metadata_store", store); ("acs", acs)].

(* the model's Policy.filter with the value filter as a parameter *)
Definition pfilter_gen (ectab : list (string * ecmap)) (F : ava -> option restr -> ava)
           (a : ava) (p : policy) (sp : string) (ecs : option (list string))
           (ra : option string) (req opt : list reqattr) (fo : option bool) : result ava :=
  let sec := applicable p sp ra in
  match get_ec ectab sec ecs req with
  | Ok er =>
      let r1 := match er with
                | _ :: _ => Ok (F a (Some (names_restr er)))
                | [] => if is_nil req && is_nil opt then Ok a
                        else filter_on_attributes a req opt (eff_fail fo sec)
                end in
      match r1 with
      | Ok s => Ok (F s (get_ar sec))
      | Missing => Missing
      | Crash => Crash
      end
  | _ => Crash
  end.

Lemma pfilter_gen_model rmatch ectab a p sp ecs ra req opt fo :
  pfilter_gen ectab (fava rmatch) a p sp ecs ra req opt fo = pfilter rmatch ectab a p sp ecs ra req opt fo.
Proof. reflexivity. Qed.

Lemma good_ava a : is_bad (enc_ava a) = false.
Proof. reflexivity. Qed.
Lemma good_oreqs l : is_bad (enc_oreqs l) = false.
Proof. destruct l; reflexivity. Qed.
Lemma truthy_oreqs l : py_truthy (enc_oreqs l) = negb (is_nil l).
Proof. destruct l; reflexivity. Qed.
Lemma p2_copy_ava a : keys_ok a -> p2_copy (enc_ava a) = enc_ava a.
Proof. intros H. unfold p2_copy, enc_ava. rewrite s1_good by reflexivity. rewrite enc_ava_not_obj by exact H. reflexivity. Qed.
Lemma p2_or_ava_empty x : p2_or (enc_ava x) (PObj []) = enc_ava x.
Proof. destruct x; reflexivity. Qed.

Section PolicyFilter.
  Variable ectab : list (string * ecmap).
  Variable F : ava -> option restr -> ava.
  Variables (a : ava) (p : policy) (sp : string) (ecs : option (list string)) (ra : option string)
            (req opt : list reqattr) (fo : option bool).
  Let sec := applicable p sp ra.

  (* external calls of Policy.filter: ac_factory(), the sibling methods get_entity_categories /
     get_fail_on_missing_requested / get_attribute_restrictions, and the two filters *)
  Variable ac_factory : pyval.
  Variable gec : pyval -> pyval -> pyval -> pyval -> pyval.
  Variable favaF : pyval -> pyval -> pyval.
  Variable foaF : pyval -> pyval -> pyval -> pyval -> pyval -> pyval.
  Variable get_failF get_arF : pyval -> pyval -> pyval.
  Variable cn : string.    (* class of the exception get_entity_categories raises where the model says Crash *)

  Hypothesis ac_factory_good : is_bad ac_factory = false.
  Hypothesis gec_spec : forall s,
    gec s (PStr sp) PNone (enc_oreqs req)
    = match get_ec ectab sec ecs req with Ok er => enc_restr (names_restr er) | _ => PExc cn end.
  Hypothesis fava_spec : forall x R, favaF (enc_ava x) (enc_orestr R) = enc_ava (F x R).
  Hypothesis foa_spec : forall acs' fail, is_bad acs' = false ->
    foaF (enc_ava a) (enc_oreqs req) (enc_oreqs opt) acs' (PBool fail)
    = enc_result cn (filter_on_attributes a req opt fail).
  Hypothesis get_fail_spec : forall s, get_failF s (PStr sp) = PBool (get_fail sec).
  Hypothesis get_ar_spec : forall s, get_arF s (PStr sp) = enc_orestr (get_ar sec).

  (* the tail `_attr_rest = ...; subject_ava = filter_attribute_value_assertions(..); return subject_ava or {}` *)
  Lemma filter_tail_src s x :
    (py_bind (py_bind (PStr sp) (fun a_4 => (get_arF s a_4))) (fun v__attr_rest =>
      (py_bind (py_bind (enc_ava x) (fun a_5 => (py_bind v__attr_rest (fun a_6 => (favaF a_5 a_6))))) (fun v_subject_ava =>
      (p2_or v_subject_ava (PObj []))))))
    = enc_ava (F x (get_ar sec)).
  Proof.
    cbn [py_bind]. rewrite get_ar_spec.
    assert (Hg : is_bad (enc_orestr (get_ar sec)) = false) by (destruct (get_ar sec); reflexivity).
    rewrite (py_bind_good (enc_orestr (get_ar sec))) by exact Hg.
    rewrite (py_bind_good (enc_ava x)) by reflexivity.
    rewrite (py_bind_good (enc_orestr (get_ar sec))) by exact Hg.
    rewrite fava_spec. rewrite (py_bind_good (enc_ava _)) by reflexivity. apply p2_or_ava_empty.
  Qed.

  (* the whole method on the path the model mirrors (mdstore=None, no deprecation warning): the
     composition entity categories | requester's declaration, then attribute_restrictions *)
  Theorem src2_policy_filter_is_model store acs :
    keys_ok a -> is_bad acs = false ->
    src2_policy_filter ac_factory gec favaF foaF get_failF get_arF
      (enc_policy_self store acs) (enc_ava a) (PStr sp) PNone (enc_oreqs req) (enc_oreqs opt) (enc_obool fo)
    = enc_result cn (pfilter_gen ectab F a p sp ecs ra req opt fo).
  Proof.
    intros Hok Hacs. unfold src2_policy_filter. cbv zeta.
    assert (Hw : p2_branch (p2_is_not_none PNone) = BFalse) by reflexivity. rewrite Hw. clear Hw.
    change (p2_attr (enc_policy_self store acs) "acs") with acs.
    rewrite p2_not_good by exact Hacs. rewrite p2_branch_bool.
    assert (Hmain : forall s, is_bad (p2_attr s "acs") = false ->
      (py_bind (p2_copy (enc_ava a)) (fun v_subject_ava =>
       (py_bind (py_bind (PStr sp) (fun a_1 => (py_bind PNone (fun a_2 => (py_bind (enc_oreqs req) (fun a_3 => (gec s a_1 a_2 a_3))))))) (fun v__ent_rest =>
       (match p2_branch v__ent_rest with
        | BTrue => (py_bind (py_bind v_subject_ava (fun a_8 => (py_bind v__ent_rest (fun a_9 => (favaF a_8 a_9))))) (fun v_subject_ava =>
            (py_bind (py_bind (PStr sp) (fun a_4 => (get_arF s a_4))) (fun v__attr_rest =>
            (py_bind (py_bind v_subject_ava (fun a_5 => (py_bind v__attr_rest (fun a_6 => (favaF a_5 a_6))))) (fun v_subject_ava =>
            (p2_or v_subject_ava (PObj []))))))))
        | BFalse => (match p2_branch (p2_or (enc_oreqs req) (enc_oreqs opt)) with
          | BTrue => (py_bind (py_bind v_subject_ava (fun a_11 => (py_bind (enc_oreqs req) (fun a_12 => (py_bind (enc_oreqs opt) (fun a_13 => (py_bind (p2_attr s "acs") (fun a_14 => (py_bind (p2_ifexp (p2_is_none (enc_obool fo)) (py_bind (PStr sp) (fun a_10 => (get_failF s a_10))) (enc_obool fo)) (fun a_15 => (foaF a_11 a_12 a_13 a_14 a_15))))))))))) (fun v_subject_ava =>
            (py_bind (py_bind (PStr sp) (fun a_4 => (get_arF s a_4))) (fun v__attr_rest =>
            (py_bind (py_bind v_subject_ava (fun a_5 => (py_bind v__attr_rest (fun a_6 => (favaF a_5 a_6))))) (fun v_subject_ava =>
            (p2_or v_subject_ava (PObj []))))))))
          | BFalse =>
            (py_bind (py_bind (PStr sp) (fun a_4 => (get_arF s a_4))) (fun v__attr_rest =>
            (py_bind (py_bind v_subject_ava (fun a_5 => (py_bind v__attr_rest (fun a_6 => (favaF a_5 a_6))))) (fun v_subject_ava =>
            (p2_or v_subject_ava (PObj []))))))
          | BExc n_16 => (PExc n_16)
          | BErr => PErr
          end)
        | BExc n_17 => (PExc n_17)
        | BErr => PErr
        end)))))
      = enc_result cn (pfilter_gen ectab F a p sp ecs ra req opt fo)).
    { intros s Hs. rewrite p2_copy_ava by exact Hok. rewrite (py_bind_good (enc_ava a)) by reflexivity.
      cbn [py_bind]. rewrite (py_bind_good (enc_oreqs req)) by apply good_oreqs.
      rewrite gec_spec. unfold pfilter_gen. fold sec.
      destruct (get_ec ectab sec ecs req) as [er| |]; [|reflexivity|reflexivity].
      assert (Hg : is_bad (enc_restr (names_restr er)) = false) by reflexivity.
      rewrite py_bind_good by exact Hg. rewrite p2_branch_good by exact Hg.
      destruct er as [|e0 er'].
      - (* no entity-category restriction: the requester's declaration decides *)
        cbn [names_restr map enc_restr py_truthy].
        rewrite p2_or_good by apply good_oreqs. rewrite truthy_oreqs.
        destruct (is_nil req) eqn:Ereq; cbn [negb andb].
        + rewrite p2_branch_good by apply good_oreqs. rewrite truthy_oreqs.
          destruct (is_nil opt) eqn:Eopt; cbn [negb].
          * cbn [enc_result]. apply filter_tail_src.
          * rewrite (py_bind_good (enc_ava a)) by reflexivity.
            rewrite (py_bind_good (enc_oreqs req)) by apply good_oreqs.
            rewrite (py_bind_good (enc_oreqs opt)) by apply good_oreqs.
            rewrite (py_bind_good (p2_attr s "acs")) by exact Hs.
            assert (Hf : p2_ifexp (p2_is_none (enc_obool fo)) (get_failF s (PStr sp)) (enc_obool fo)
                         = PBool (eff_fail fo sec)).
            { rewrite get_fail_spec. destruct fo as [b|]; reflexivity. }
            rewrite Hf. cbn [py_bind]. rewrite foa_spec by exact Hs.
            destruct (filter_on_attributes a req opt (eff_fail fo sec)) as [x| |]; cbn [enc_result]; try reflexivity.
            rewrite (py_bind_good (enc_ava x)) by reflexivity. apply filter_tail_src.
        + rewrite p2_branch_good by apply good_oreqs. rewrite truthy_oreqs, Ereq. cbn [negb].
          rewrite (py_bind_good (enc_ava a)) by reflexivity.
          rewrite (py_bind_good (enc_oreqs req)) by apply good_oreqs.
          rewrite (py_bind_good (enc_oreqs opt)) by apply good_oreqs.
          rewrite (py_bind_good (p2_attr s "acs")) by exact Hs.
          assert (Hf : p2_ifexp (p2_is_none (enc_obool fo)) (get_failF s (PStr sp)) (enc_obool fo)
                       = PBool (eff_fail fo sec)).
          { rewrite get_fail_spec. destruct fo as [b|]; reflexivity. }
          rewrite Hf. cbn [py_bind]. rewrite foa_spec by exact Hs.
          destruct (filter_on_attributes a req opt (eff_fail fo sec)) as [x| |]; cbn [enc_result]; try reflexivity.
          rewrite (py_bind_good (enc_ava x)) by reflexivity. apply filter_tail_src.
      - (* entity categories in force *)
        assert (Ht : py_truthy (enc_restr (names_restr (e0 :: er'))) = true) by reflexivity. rewrite Ht.
        rewrite (py_bind_good (enc_ava a)) by reflexivity. rewrite (py_bind_good (enc_restr _)) by exact Hg.
        change (enc_restr (names_restr (e0 :: er'))) with (enc_orestr (Some (names_restr (e0 :: er')))).
        rewrite fava_spec. rewrite (py_bind_good (enc_ava _)) by reflexivity.
        cbn [enc_result]. apply filter_tail_src. }
    destruct (py_truthy acs); cbn [negb].
    - apply Hmain. exact Hacs.
    - rewrite py_bind_good by exact ac_factory_good.
      unfold enc_policy_self. rewrite p2_setattr_obj by (try exact ac_factory_good; discriminate).
      cbn [py_bind set_assoc String.eqb Ascii.eqb Bool.eqb]. apply Hmain. exact ac_factory_good.
  Qed.
End PolicyFilter.

(* the hypotheses of PolicyFilter are satisfiable for EVERY input and value filter: decoders *)
Lemma strs_of_map l : strs_of (map PStr l) = Some l.
Proof. induction l as [|x r IH]; cbn [map strs_of]; [reflexivity|]. rewrite IH. reflexivity. Qed.

Definition dec_vals (v : pyval) : option vals :=
  match v with PStr s => Some (VS s) | PList l => option_map VL (strs_of l) | _ => None end.
Fixpoint dec_fields {V : Type} (dv : pyval -> option V) (f : list (string * pyval)) : option (list (string * V)) :=
  match f with
  | [] => Some []
  | (k, v) :: r => match dv v, dec_fields dv r with Some v', Some r' => Some ((k, v') :: r') | _, _ => None end
  end.
Definition dec_ava (v : pyval) : option ava := match v with PObj f => dec_fields dec_vals f | _ => None end.
Definition dec_rests (v : pyval) : option (option (list string)) :=
  match v with PNone => Some None | PList l => option_map Some (strs_of l) | _ => None end.
Definition dec_orestr (v : pyval) : option (option restr) :=
  match v with PNone => Some None | PObj f => option_map Some (dec_fields dec_rests f) | _ => None end.

Lemma dec_enc_ava a : dec_ava (enc_ava a) = Some a.
Proof.
  unfold dec_ava, enc_ava. induction a as [|[k v] r IH]; cbn [map enc_entry dec_fields fst snd]; [reflexivity|].
  rewrite IH. destruct v as [s|l]; cbn [enc_vals dec_vals enc_strs]; [reflexivity|]. rewrite strs_of_map. reflexivity.
Qed.
Lemma dec_enc_orestr R : dec_orestr (enc_orestr R) = Some R.
Proof.
  destruct R as [R|]; [|reflexivity]. unfold dec_orestr, enc_orestr, enc_restr.
  assert (H : dec_fields dec_rests (map enc_rentry R) = Some R).
  { induction R as [|[k v] r IH]; cbn [map enc_rentry dec_fields fst snd]; [reflexivity|].
    rewrite IH. destruct v as [l|]; cbn [enc_rests dec_rests enc_strs]; [|reflexivity]. rewrite strs_of_map. reflexivity. }
  rewrite H. reflexivity.
Qed.

Example policy_filter_hyps_sat ectab (F : ava -> option restr -> ava) a p sp ecs ra req opt cn :
  exists acf gec favaF foaF get_failF get_arF,
    is_bad acf = false
    /\ (forall s : pyval, gec s (PStr sp) PNone (enc_oreqs req)
          = match get_ec ectab (applicable p sp ra) ecs req with Ok er => enc_restr (names_restr er) | _ => PExc cn end)
    /\ (forall x R, favaF (enc_ava x) (enc_orestr R) = enc_ava (F x R))
    /\ (forall acs' fail, is_bad acs' = false ->
          foaF (enc_ava a) (enc_oreqs req) (enc_oreqs opt) acs' (PBool fail)
          = enc_result cn (filter_on_attributes a req opt fail))
    /\ (forall s : pyval, get_failF s (PStr sp) = PBool (get_fail (applicable p sp ra)))
    /\ (forall s : pyval, get_arF s (PStr sp) = enc_orestr (get_ar (applicable p sp ra))).
Proof.
  exists (PList [PNone]).
  exists (fun _ _ _ _ => match get_ec ectab (applicable p sp ra) ecs req with Ok er => enc_restr (names_restr er) | _ => PExc cn end).
  exists (fun x R => match dec_ava x, dec_orestr R with Some x', Some R' => enc_ava (F x' R') | _, _ => PErr end).
  exists (fun _ _ _ _ f => match f with PBool b => enc_result cn (filter_on_attributes a req opt b) | _ => PErr end).
  exists (fun _ _ => PBool (get_fail (applicable p sp ra))).
  exists (fun _ _ => enc_orestr (get_ar (applicable p sp ra))).
  repeat split. intros x R. rewrite dec_enc_ava, dec_enc_orestr. reflexivity.
Qed.

(* ================================================================== Policy.restrict *)
Section PolicyRestrict.
  (* RequestedAttribute dicts: any encoding on which dict equality (`r not in required_attributes`)
     is the model's reqattr_eqb; enc_rq above is one (enc_rq_eq below) *)
  Variable enc_r : reqattr -> pyval.
  Hypothesis enc_r_eq : forall x y, pv_eq (enc_r x) (enc_r y) = Some (reqattr_eqb x y).

  Definition enc_rl (l : list reqattr) : pyval := PList (map enc_r l).
  Definition enc_orl (l : list reqattr) : pyval := match l with [] => PNone | _ => enc_rl l end.

  Lemma enc_r_good x : is_bad (enc_r x) = false.
  Proof.
    specialize (enc_r_eq x x). destruct (enc_r x); try reflexivity; cbn in enc_r_eq; discriminate.
  Qed.

  Lemma list_has_rl r l : list_has (enc_r r) (map enc_r l) = Some (existsb (reqattr_eqb r) l).
  Proof.
    induction l as [|y t IH]; cbn [map list_has existsb]; [reflexivity|].
    rewrite enc_r_eq. destruct (reqattr_eqb r y); [reflexivity|exact IH].
  Qed.

  Definition restrict_body : list pyval -> pyval -> ctl2 :=
    fun st_10 x_11 => match st_10 with [v_required_attributes] =>
     (let v_r := x_11 in
     (match p2_branch (p2_not_in v_r v_required_attributes) with
     | BTrue => (py_bindS (fun n_14 => (ExcS n_14 [v_required_attributes])) (p2_append v_required_attributes v_r) (fun v_required_attributes =>
     (NextS [v_required_attributes])))
     | BFalse => (NextS [v_required_attributes])
     | BExc n_15 => (ExcS n_15 [v_required_attributes])
     | BErr => (RetS PErr)
     end))
    | _ => RetS PErr end.

  Lemma restrict_loop_src subj : forall reqs,
    pyfor2 (map enc_r subj) [enc_rl reqs] restrict_body = NextS [enc_rl (add_subj reqs subj)].
  Proof.
    unfold add_subj. induction subj as [|r t IH]; intros reqs; cbn [map pyfor2 fold_left]; [reflexivity|].
    unfold restrict_body at 1. cbv zeta. unfold p2_not_in, p2_in, enc_rl at 1.
    rewrite s2_good by (try apply enc_r_good; reflexivity). rewrite list_has_rl, p2_not_bool, p2_branch_bool.
    destruct (existsb (reqattr_eqb r) reqs); cbn [negb].
    - apply IH.
    - unfold p2_append. rewrite s2_good by (try apply enc_r_good; reflexivity).
      change (match enc_rl reqs with PList xs => PList (xs ++ [enc_r r]) | _ => PErr end)
        with (PList (map enc_r reqs ++ map enc_r [r])).
      rewrite <- map_app. cbn [py_bindS p2_bind]. apply IH.
  Qed.

  Variables attribute_requirement subject_id_requirement : pyval -> pyval -> pyval.
  Variable policy_filter : pyval -> pyval -> pyval -> pyval -> pyval -> pyval -> pyval.
  Variables (md : option mdinfo) (sp : string) (store : pyval).
  (* the Policy's metadata store: an object that is truthy exactly when the model has metadata
     (None, or a MetadataStore without sources, is "no store") *)
  Hypothesis store_good : is_bad store = false.
  Hypothesis store_truth : py_truthy store = match md with Some _ => true | None => false end.
  Hypothesis attribute_requirement_spec : forall m, md = Some m ->
    attribute_requirement store (PStr sp)
    = PObj [("required", enc_rl (md_required m)); ("optional", enc_rl (md_optional m))].
  Hypothesis subject_id_requirement_spec : forall m, md = Some m ->
    subject_id_requirement store (PStr sp) = enc_rl (subj_reqs m).

  Variable acs : pyval.

  Lemma truthy_rl l : py_truthy (enc_rl l) = negb (is_nil l).
  Proof. destruct l; reflexivity. Qed.
  Lemma or_none_rl l : p2_or (enc_rl l) PNone = enc_orl l.
  Proof. destruct l; reflexivity. Qed.
  Lemma or_nil_rl l : p2_or (enc_rl l) (PList []) = enc_rl l.
  Proof. destruct l; reflexivity. Qed.

  (* the whole method on the path the model mirrors (metadata=None): Policy.filter is called with the
     model's effective required / optional lists ([] handed on as None) and the caller's
     fail_on_missing; whatever Policy.filter answers (exceptions included) is the answer *)
  Theorem src2_policy_restrict_is_model v_ava v_fo :
    is_bad v_ava = false -> is_bad v_fo = false ->
    src2_policy_restrict attribute_requirement subject_id_requirement policy_filter
      (enc_policy_self store acs) v_ava (PStr sp) PNone v_fo
    = policy_filter (enc_policy_self store acs) v_ava (PStr sp)
        (enc_orl (eff_required md)) (enc_orl (eff_optional md)) v_fo.
  Proof.
    intros Hava Hfo. unfold src2_policy_restrict. cbv zeta.
    assert (Hw : p2_branch (p2_is_not_none PNone) = BFalse) by reflexivity. rewrite Hw. clear Hw.
    change (p2_attr (enc_policy_self store acs) "metadata_store") with store.
    change (p2_or PNone store) with store. rewrite (py_bind_good store) by exact store_good.
    unfold p2_ifexp. rewrite !py_cond_good by exact store_good. rewrite store_truth.
    destruct md as [m|].
    - cbn [py_bind]. rewrite (attribute_requirement_spec m eq_refl), (subject_id_requirement_spec m eq_refl).
      cbn [p2_or py_truthy py_bind].
      assert (Hr : p2_get (PObj [("required", enc_rl (md_required m)); ("optional", enc_rl (md_optional m))]) (PStr "required")
                   = enc_rl (md_required m)) by reflexivity.
      assert (Ho : p2_get (PObj [("required", enc_rl (md_required m)); ("optional", enc_rl (md_optional m))]) (PStr "optional")
                   = enc_rl (md_optional m)) by reflexivity.
      rewrite Hr, Ho, !or_nil_rl. clear Hr Ho.
      rewrite (py_bind_good (enc_rl (md_required m))) by reflexivity.
      rewrite (py_bind_good (enc_rl (md_optional m))) by reflexivity.
      rewrite (py_bind_good (enc_rl (subj_reqs m))) by reflexivity.
      change (p2_iter_check (enc_rl (subj_reqs m))) with (enc_rl (subj_reqs m)).
      rewrite (py_bind_good (enc_rl (subj_reqs m))) by reflexivity.
      change (py_iter2 (enc_rl (subj_reqs m))) with (map enc_r (subj_reqs m)).
      lazymatch goal with |- context [pyfor2 ?l ?s ?b] => change (pyfor2 l s b) with (pyfor2 l s restrict_body) end.
      rewrite restrict_loop_src.
      rewrite (py_bind_good v_ava) by exact Hava. cbn [py_bind]. rewrite !or_none_rl.
      rewrite (py_bind_good (enc_orl _)) by (destruct (add_subj (md_required m) (subj_reqs m)); reflexivity).
      rewrite (py_bind_good (enc_orl _)) by (destruct (md_optional m); reflexivity).
      rewrite (py_bind_good v_fo) by exact Hfo. reflexivity.
    - cbn [py_bind p2_get p2_get3 s3 is_obj key_of assoc_py p2_or py_truthy p2_iter_check p2_iterable py_iter2 pyfor2].
      rewrite (py_bind_good v_ava) by exact Hava. rewrite (py_bind_good v_fo) by exact Hfo. reflexivity.
  Qed.
End PolicyRestrict.

(* dict equality on the to_dict() encoding of RequestedAttributes is the model's reqattr_eqb *)
Lemma pv_eq_avs l : forall m,
  pv_eq (PList (map (fun v : string => PObj [("text", PStr v)]) l))
        (PList (map (fun v : string => PObj [("text", PStr v)]) m))
  = Some (list_eqb String.eqb l m).
Proof.
  induction l as [|x l IH]; intros [|y m]; try reflexivity.
  specialize (IH m). cbn in IH |- *. destruct (String.eqb x y); [|reflexivity]. exact IH.
Qed.

Lemma enc_rq_eq x y : pv_eq (enc_rq x) (enc_rq y) = Some (reqattr_eqb x y).
Proof.
  destruct x as [n nf fr vs ll lr], y as [n' nf' fr' vs' ll' lr']. unfold enc_rq, reqattr_eqb.
  cbn [ra_name ra_nf ra_friendly ra_values].
  pose proof (pv_eq_avs vs vs') as Hav.
  destruct nf, nf', fr, fr', vs as [|v vs], vs' as [|v' vs']; cbn [opt_field enc_avs app list_eqb] in *.
  all: try (remember (PList (map (fun v0 : string => PObj [("text", PStr v0)]) (v :: vs))) as AV in * ).
  all: try (remember (PList (map (fun v0 : string => PObj [("text", PStr v0)]) (v' :: vs'))) as AV' in * ).
  all: cbn; try rewrite Hav.
  all: repeat match goal with |- context [String.eqb ?a ?b] => destruct (String.eqb a b) end;
       try destruct (list_eqb String.eqb vs vs'); reflexivity.
Qed.

Lemma enc_orl_rq l : enc_orl enc_rq l = enc_oreqs l.
Proof. destruct l; reflexivity. Qed.

Example policy_restrict_hyps_sat (md : option mdinfo) (sp : string) :
  exists enc_r store ar sid,
    (forall x y, pv_eq (enc_r x) (enc_r y) = Some (reqattr_eqb x y))
    /\ is_bad store = false
    /\ py_truthy store = match md with Some _ => true | None => false end
    /\ (forall m, md = Some m ->
          ar store (PStr sp) = PObj [("required", enc_rl enc_r (md_required m)); ("optional", enc_rl enc_r (md_optional m))])
    /\ (forall m, md = Some m -> sid store (PStr sp) = enc_rl enc_r (subj_reqs m)).
Proof.
  exists enc_rq.
  exists (match md with Some _ => PObj [("__class__", PStr "MetadataStore"); ("metadata", PObj [])] | None => PNone end).
  exists (fun _ _ => match md with
                     | Some m => PObj [("required", enc_rl enc_rq (md_required m)); ("optional", enc_rl enc_rq (md_optional m))]
                     | None => PNone end).
  exists (fun _ _ => match md with Some m => enc_rl enc_rq (subj_reqs m) | None => PNone end).
  split; [exact enc_rq_eq|]. destruct md as [m|]; repeat split; intros m' E; try discriminate; injection E as <-; reflexivity.
Qed.

(* ================================================================== Policy.restrict calling Policy.filter *)
(* both translated methods together: Policy.restrict (as translated) calling Policy.filter (as
   translated) answers what the model's [restrict] answers *)
Section RestrictFilter.
  Variable rmatch : string -> string -> bool.
  Variable ectab : list (string * ecmap).
  Variables (a : ava) (p : policy) (sp : string) (md : option mdinfo) (fo : option bool).
  Let sec := applicable p sp (eff_ra md).
  Let req := eff_required md.
  Let opt := eff_optional md.

  Variables (store acs ac_factory : pyval).
  Variables attribute_requirement subject_id_requirement : pyval -> pyval -> pyval.
  Variable gec : pyval -> pyval -> pyval -> pyval -> pyval.
  Variable favaF : pyval -> pyval -> pyval.
  Variable foaF : pyval -> pyval -> pyval -> pyval -> pyval -> pyval.
  Variable get_failF get_arF : pyval -> pyval -> pyval.
  Variable cn : string.

  Hypothesis store_good : is_bad store = false.
  Hypothesis store_truth : py_truthy store = match md with Some _ => true | None => false end.
  Hypothesis attribute_requirement_spec : forall m, md = Some m ->
    attribute_requirement store (PStr sp)
    = PObj [("required", enc_rl enc_rq (md_required m)); ("optional", enc_rl enc_rq (md_optional m))].
  Hypothesis subject_id_requirement_spec : forall m, md = Some m ->
    subject_id_requirement store (PStr sp) = enc_rl enc_rq (subj_reqs m).
  Hypothesis ac_factory_good : is_bad ac_factory = false.
  Hypothesis gec_spec : forall s,
    gec s (PStr sp) PNone (enc_oreqs req)
    = match get_ec ectab sec (eff_ecs md) req with Ok er => enc_restr (names_restr er) | _ => PExc cn end.
  Hypothesis fava_spec : forall x R, favaF (enc_ava x) (enc_orestr R) = enc_ava (fava rmatch x R).
  Hypothesis foa_spec : forall acs' fail, is_bad acs' = false ->
    foaF (enc_ava a) (enc_oreqs req) (enc_oreqs opt) acs' (PBool fail)
    = enc_result cn (filter_on_attributes a req opt fail).
  Hypothesis get_fail_spec : forall s, get_failF s (PStr sp) = PBool (get_fail sec).
  Hypothesis get_ar_spec : forall s, get_arF s (PStr sp) = enc_orestr (get_ar sec).

  Theorem src2_restrict_filter_is_model :
    keys_ok a -> is_bad acs = false ->
    src2_policy_restrict attribute_requirement subject_id_requirement
      (fun self ava_ sp_ required optional fail_on_missing =>
         src2_policy_filter ac_factory gec favaF foaF get_failF get_arF self ava_ sp_ PNone required optional fail_on_missing)
      (enc_policy_self store acs) (enc_ava a) (PStr sp) PNone (enc_obool fo)
    = enc_result cn (restrict rmatch ectab a p sp md fo).
  Proof.
    intros Hok Hacs.
    rewrite (src2_policy_restrict_is_model enc_rq enc_rq_eq attribute_requirement subject_id_requirement _
               md sp store store_good store_truth attribute_requirement_spec subject_id_requirement_spec acs)
      by (try reflexivity; destruct fo; reflexivity).
    rewrite !enc_orl_rq. unfold restrict. rewrite <- pfilter_gen_model.
    apply (src2_policy_filter_is_model ectab (fava rmatch) a p sp (eff_ecs md) (eff_ra md) req opt fo
             ac_factory gec favaF foaF get_failF get_arF cn); assumption.
  Qed.
End RestrictFilter.

(* ================================================================== Policy.get_fail_on_missing_requested *)
(* the whole method: Policy.get is asked for "fail_on_missing_requested" with default True (the
   argument order is that of src_policy_get in coq/gen/C10Src.v, so the two theorems compose) *)
Theorem src2_get_fail_is_model (policy_get : pyval -> pyval -> pyval -> pyval -> pyval) self sp :
  src2_get_fail policy_get self (PStr sp) = policy_get self (PStr "fail_on_missing_requested") (PStr sp) (PBool true).
Proof. reflexivity. Qed.

(* ... and with Policy.get as translated by v1 (C10/Source.v): the answer is the model's get_fail of the
   applicable section, for every dict encoding of sections that shows fail_on_missing_requested *)
Theorem src2_get_fail_via_policy_get (enc_sec : section -> list (string * pyval)) :
  (forall s, enc_sec s = [] <-> s_bare s = true) ->
  forall (reginfo : pyval -> pyval) p (store : bool) sp (ra : option string),
    reginfo (PStr sp) = Source.enc_ra ra ->
    (forall s, applicable p sp (if store then ra else None) = Some s ->
               sec_value enc_sec s "fail_on_missing_requested" (PBool true) = PBool (get_fail (Some s))) ->
    src2_get_fail (src_policy_get reginfo) (enc_policy enc_sec p store) (PStr sp)
    = PBool (get_fail (applicable p sp (if store then ra else None))).
Proof.
  intros Hbare reginfo p store sp ra Hreg Hval. rewrite src2_get_fail_is_model.
  rewrite (src_policy_get_is_model enc_sec Hbare reginfo p store sp ra _ _ Hreg).
  destruct (applicable p sp (if store then ra else None)) as [s|]; [apply Hval; reflexivity|reflexivity].
Qed.

Example get_fail_hyps_sat :
  exists enc_sec : section -> list (string * pyval),
    (forall s, enc_sec s = [] <-> s_bare s = true)
    /\ (forall s, (s_bare s = true -> s_fail s = None) ->
                  sec_value enc_sec s "fail_on_missing_requested" (PBool true) = PBool (get_fail (Some s))).
Proof.
  exists (fun s : section => if s_bare s then @nil (string * pyval)
                   else [("entity_categories", PNone); ("attribute_restrictions", PNone);
                         ("fail_on_missing_requested", enc_obool (s_fail s))]).
  split.
  - intros s. destruct (s_bare s); split; intros H; try reflexivity; discriminate.
  - intros s Hb. unfold sec_value, get_fail. destruct (s_bare s).
    + rewrite Hb by reflexivity. reflexivity.
    + cbn. destruct (s_fail s) as [b|]; reflexivity.
Qed.
