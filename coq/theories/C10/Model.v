(* C10/Model.v — attribute release, as coded NOW in /repo/src/saml2.
   Mirrors: assertion._filter_values, _match, filter_on_attributes (after the repairs
   17e9e134 / 4348e66c: str values normalised to a one-element list, union without
   repeats, result lists are copies), filter_attribute_value_assertions, Policy.get
   (requester > registration authority > "default" > ""), get_attribute_restrictions,
   get_fail_on_missing_requested, get_entity_categories incl. the `for ... else`
   (the key "" always ends up in the restriction dict), Policy.filter, Policy.restrict,
   Assertion.apply_policy, mdstore.attribute_requirement / subject_id_requirement,
   Server.setup_assertion and the non-PEFIM branch of Server._authn_response.

   After the repairs a4e3dbdd / 47cc754e (findings C10-F1 / C10-F2):
     * Policy.filter / Policy.restrict / Assertion.apply_policy take an optional fail_on_missing
       that, when not None, replaces the section's fail_on_missing_requested;
     * Server._authn_response hands the caller's best_effort to setup_assertion; there a
       MissingValue is re-raised when best_effort is false (create_authn_response answers with an
       error response) and with best_effort the policy is applied AGAIN with fail_on_missing=False:
       what that second pass lets through is released (it can itself raise MissingValue, from
       _filter_values(must=True): that propagates and is an error response too);
     * get_entity_categories without a (truthy) metadata store: the requester is in no category
       (ecs = []), the loop over the category maps runs all the same.
   After the repair 4be62a1c (finding C10-F5): get_entity_categories works out the names of the
   REQUIRED attributes from Name + NameFormat first (lower-cased Name, .get("name_format")), the
   FriendlyName only when the attribute maps do not know the Name; names that cannot be worked out
   are skipped (no exception any more).  Before: req_name_v0 / get_ec_lf / restrict_lf.
   The behaviour before the repairs is kept at the end of the file as *_v0 definitions
   (Proofs.server_release_v0_refuted / nostore_v0_refuted).

   External things that enter as DATA (never as axioms):
     rmatch r v   = bool(re.compile(r).match(v))            (regex engine: trusted)
     ra_loc_l/r   = get_local_name(acs, name[.lower()], name_format)   (attribute maps: C17)
     ectab        = RELEASE / ONLY_REQUIRED / NO_AGGREGATION of the entity-category
                    modules (coq/gen/C10Tables.v, regenerated from the live modules). *)
From Coq Require Import String List Bool Arith.
From Verif Require Import Base.Str.
Import ListNotations.
Open Scope string_scope.
Open Scope list_scope.

(* ---- str.lower(), ASCII part; same function as Base.Str.lower (Proofs.lower_is_str_lower) but
   computed on the bits of the character, which vm_compute evaluates much faster ------------ *)
Definition lower_char (c : Ascii.ascii) : Ascii.ascii :=
  match c with
  | Ascii.Ascii b0 b1 b2 b3 b4 false true false =>
      (* 0x40..0x5F; a letter when the low five bits are 1..26 *)
      if (b0 || b1 || b2 || b3 || b4) && negb (b4 && b3 && (b2 || (b1 && b0)))
      then Ascii.Ascii b0 b1 b2 b3 b4 true true false
      else c
  | _ => c
  end.

Fixpoint lower (s : string) : string :=
  match s with
  | EmptyString => EmptyString
  | String c r => String (lower_char c) (lower r)
  end.

(* ---- Python values ---------------------------------------------------------------- *)
(* an identity attribute value: a str or a list of str *)
Inductive vals := VS (s : string) | VL (l : list string).
Definition held (v : vals) : list string := match v with VS s => [s] | VL l => l end.

(* dict with insertion order; keys are unique in every dict the harness supplies *)
Definition ava := list (string * vals).

Inductive result (A : Type) := Ok (a : A) | Missing | Crash.
Arguments Ok {A} a.
Arguments Missing {A}.
Arguments Crash {A}.

Fixpoint lookup {V : Type} (k : string) (d : list (string * V)) : option V :=
  match d with
  | [] => None
  | (k', v) :: r => if String.eqb k k' then Some v else lookup k r
  end.

Definition has {V : Type} (k : string) (d : list (string * V)) : bool :=
  match lookup k d with Some _ => true | None => false end.

(* d[k] = v : replace in place, or append *)
Fixpoint set_ {V : Type} (k : string) (v : V) (d : list (string * V)) : list (string * V) :=
  match d with
  | [] => [(k, v)]
  | (k', v') :: r => if String.eqb k k' then (k, v) :: r else (k', v') :: set_ k v r
  end.

Definition keys {V : Type} (d : list (string * V)) : list string := map fst d.

Definition is_nil {A : Type} (l : list A) : bool := match l with [] => true | _ => false end.

(* truthiness of a `str | None` *)
Definition tr (o : option string) : option string :=
  match o with
  | Some s => if is_empty s then None else Some s
  | None => None
  end.

(* ---- a RequestedAttribute dict ------------------------------------------------------ *)
Record reqattr := {
  ra_name : string;               (* d["name"] *)
  ra_nf : option string;          (* d.get("name_format"); None = key absent *)
  ra_friendly : option string;    (* d.get("friendly_name") *)
  ra_values : list string;        (* [av["text"] for av in d.get("attribute_value", [])] *)
  ra_loc_l : option string;       (* DATA get_local_name(acs, d["name"].lower(), name_format) *)
  ra_loc_r : option string        (* DATA get_local_name(acs, d["name"], name_format) *)
}.

(* dict equality of two RequestedAttribute dicts (used by `r not in required_attributes`) *)
Definition reqattr_eqb (a b : reqattr) : bool :=
  String.eqb (ra_name a) (ra_name b)
  && opt_eqb String.eqb (ra_nf a) (ra_nf b)
  && opt_eqb String.eqb (ra_friendly a) (ra_friendly b)
  && list_eqb String.eqb (ra_values a) (ra_values b).

(* ---- _filter_values ------------------------------------------------------------------ *)
Fixpoint fv_loop (vals vlist res : list string) : list string :=
  match vlist with
  | [] => res
  | v :: r => fv_loop vals r (if mem v vals && negb (mem v res) then res ++ [v] else res)
  end.

Definition filter_values (vals vlist : list string) : list string :=
  match vlist with [] => vals | _ => fv_loop vals vlist [] end.

(* must=True: None = MissingValue *)
Definition filter_values_must (vals vlist : list string) : option (list string) :=
  match vlist with
  | [] => Some vals
  | _ => match fv_loop vals vlist [] with [] => None | r => Some r end
  end.

(* ---- _match -------------------------------------------------------------------------- *)
Definition match_ (attr : string) (a : ava) : option string :=
  if has attr a then Some attr
  else
    let la := lower attr in
    if has la a then Some la
    else find (fun k => String.eqb (lower k) la) (keys a).

(* Python `x or y` on two `str | None` *)
Definition or_ (x y : option string) : option string :=
  match tr x with Some s => Some s | None => y end.

(* filter_on_attributes._match_attr_name followed by the truth test `if _fn:` *)
Definition local_name (d : reqattr) : string :=
  match tr (ra_loc_l d) with
  | Some l => l
  | None => match tr (ra_friendly d) with Some f => f | None => "" end
  end.

Definition match_attr_name (d : reqattr) (a : ava) : option string :=
  tr (or_ (match_ (local_name d) a) (match_ (lower (ra_name d)) a)).

(* res[_fn].extend(v for v in val if v not in res[_fn])  — the generator is lazy, so the
   test sees what the same extend call appended before *)
Definition ext (cur val : list string) : list string :=
  fold_left (fun acc v => if mem v acc then acc else acc ++ [v]) val cur.

Definition rdict := list (string * list string).

(* _apply_attr_value_restrictions; second component None = MissingValue (only looked at when must) *)
Definition apply_avr (a : ava) (fn : string) (d : reqattr) (res : rdict) : rdict * option (list string) :=
  let vals := match lookup fn a with Some v => held v | None => [] end in
  let val := filter_values vals (ra_values d) in
  let res' := match lookup fn res with
              | Some cur => set_ fn (ext cur val) res
              | None => res ++ [(fn, val)]
              end in
  (res', filter_values_must vals (ra_values d)).

Fixpoint foa_req (a : ava) (fail : bool) (reqs : list reqattr) (res : rdict) : result rdict :=
  match reqs with
  | [] => Ok res
  | d :: r =>
      match match_attr_name d a with
      | Some fn =>
          match snd (apply_avr a fn d res) with
          | Some _ => foa_req a fail r (fst (apply_avr a fn d res))
          | None => Missing
          end
      | None => if fail then Missing else foa_req a fail r res
      end
  end.

Fixpoint foa_opt (a : ava) (opts : list reqattr) (res : rdict) : rdict :=
  match opts with
  | [] => res
  | d :: r =>
      match match_attr_name d a with
      | Some fn => foa_opt a r (fst (apply_avr a fn d res))
      | None => foa_opt a r res
      end
  end.

Definition to_ava (r : rdict) : ava := map (fun e => (fst e, VL (snd e))) r.

Definition filter_on_attributes (a : ava) (req opt : list reqattr) (fail : bool) : result ava :=
  match foa_req a fail req [] with
  | Ok res => Ok (to_ava (foa_opt a opt res))
  | Missing => Missing
  | Crash => Crash
  end.

(* ---- compiled policy ----------------------------------------------------------------- *)
(* attribute_restrictions after compile(): lower-cased unique names -> None | regexes *)
Definition restr := list (string * option (list string)).

Record section := {
  s_ar : option restr;        (* None: no restriction (None or {} in the configuration) *)
  s_fail : option bool;       (* fail_on_missing_requested; None = not configured *)
  s_ecs : list string;        (* entity_categories: module names; [] = not configured *)
  s_bare : bool               (* the configured section is an empty dict: compile() leaves it empty (falsy) *)
}.

(* None = Policy(None); a section mapped to None is a configured `who: None` *)
Definition policy := option (list (string * option section)).

Definition getsec (k : string) (l : list (string * option section)) : option section :=
  match lookup k l with Some (Some s) => Some s | _ => None end.

(* Policy.get: which section answers (None: the default is returned) *)
Definition applicable (p : policy) (sp : string) (ra : option string) : option section :=
  match p with
  | None => None
  | Some l =>
      match getsec sp l with
      | Some s => Some s
      | None =>
          match (match ra with Some r => getsec r l | None => None end) with
          | Some s => Some s
          | None =>
              (* self._restrictions.get("default") or self._restrictions.get(""): an EMPTY "default"
                 section is falsy and gives way to the "" section *)
              match getsec "default" l with
              | Some s => if s_bare s then (match getsec "" l with Some s' => Some s' | None => Some s end) else Some s
              | None => getsec "" l
              end
          end
      end
  end.

Definition get_ar (s : option section) : option restr :=
  match s with Some s => s_ar s | None => None end.

Definition get_fail (s : option section) : bool :=
  match s with
  | Some s => match s_fail s with Some b => b | None => true end
  | None => true
  end.

(* ---- entity categories --------------------------------------------------------------- *)
Inductive eckey := KS (s : string) | KT (l : list string).

Record ecentry := {
  ec_key : eckey;               (* key of RELEASE: a category, "" or a tuple of categories *)
  ec_attrs : list string;       (* RELEASE[key] as written *)
  ec_only_required : bool;      (* ONLY_REQUIRED.get(key, False) *)
  ec_no_agg : bool              (* NO_AGGREGATION.get(key, False) *)
}.
Definition ecmap := list ecentry.

Section WithData.
  Variable rmatch : string -> string -> bool.
  Variable ectab : list (string * ecmap).

  (* ---- filter_attribute_value_assertions --------------------------------------------- *)
  Definition rvals (rests vs : list string) : list string :=
    flat_map (fun r => filter (rmatch r) vs) rests.

  (* list(set(rvals)): some duplicate-free list with the same elements *)
  Fixpoint dedup (l : list string) : list string :=
    match l with
    | [] => []
    | x :: r => if mem x r then dedup r else x :: dedup r
    end.

  Definition fava_entry (R : restr) (e : string * vals) : list (string * vals) :=
    match lookup (lower (fst e)) R with
    | None => []
    | Some None => [e]
    | Some (Some rests) =>
        match rvals rests (held (snd e)) with
        | [] => []
        | rv => [(fst e, VL (dedup rv))]
        end
    end.

  Definition fava (a : ava) (R : option restr) : ava :=
    match R with
    | None => a
    | Some [] => a
    | Some R => flat_map (fava_entry R) a
    end.

  (* ---- get_entity_categories ----------------------------------------------------------- *)
  Definition maps_of (names : list string) : list ecentry :=
    flat_map (fun n => match lookup n ectab with Some m => m | None => [] end) names.

  (* after the repair 4be62a1c (finding C10-F5):
       get_local_name(acs, d["name"].lower(), d.get("name_format")) or d.get("friendly_name"),
     names that cannot be worked out are skipped, then .lower(): Name + NameFormat first, the label only
     when the attribute maps do not know the Name - the same order as filter_on_attributes *)
  Definition req_name (d : reqattr) : list string :=
    match tr (ra_loc_l d) with
    | Some l => [lower l]
    | None => match tr (ra_friendly d) with Some f => [lower f] | None => [] end
    end.

  Definition req_names (ds : list reqattr) : list string := flat_map req_name ds.

  (* BEFORE 4be62a1c: d.get("friendly_name") or get_local_name(acs, d["name"], d["name_format"]), then
     .lower() - the label first *)
  Definition req_name_v0 (d : reqattr) : result string :=
    match tr (ra_friendly d) with
    | Some f => Ok (lower f)
    | None =>
        match ra_nf d with
        | None => Crash                                    (* KeyError: 'name_format' *)
        | Some _ => match ra_loc_r d with
                    | Some l => Ok (lower l)
                    | None => Crash                        (* None.lower() *)
                    end
        end
    end.

  Fixpoint req_names_v0 (ds : list reqattr) : result (list string) :=
    match ds with
    | [] => Ok []
    | d :: r =>
        match req_name_v0 d, req_names_v0 r with
        | Ok n, Ok ns => Ok (n :: ns)
        | _, _ => Crash
        end
    end.

  Definition narrowed (req : list string) (e : ecentry) : list string :=
    let al := map lower (ec_attrs e) in
    if ec_only_required e then filter (fun a => mem a req) al else al.

  Definition entry_attrs (req ecs : list string) (e : ecentry) : list string :=
    match ec_key e with
    | KS s => if is_empty s then map lower (ec_attrs e)
              else if mem s ecs then narrowed req e else []
    | KT l => if forallb (fun x => mem x ecs) l then narrowed req e else []
    end.

  (* one iteration over a RELEASE item; the for-else adds "" every time *)
  Definition ec_step (req ecs : list string) (acc : list string) (e : ecentry) : list string :=
    let attrs := entry_attrs req ecs e in
    (if negb (is_nil attrs) && ec_no_agg e then [] else acc) ++ attrs ++ [""].

  (* ecs = None: the Policy has no (truthy) metadata store: the requester is in no category *)
  Definition ecs_of (ecs : option (list string)) : list string :=
    match ecs with Some l => l | None => [] end.

  Definition get_ec (s : option section) (ecs : option (list string)) (req : list reqattr)
    : result (list string) :=
    match s with
    | None => Ok []
    | Some s =>
        match s_ecs s with
        | [] => Ok []
        | names => Ok (fold_left (ec_step (req_names req) (ecs_of ecs)) (maps_of names) [])
        end
    end.

  (* BEFORE 4be62a1c (finding C10-F5): the names of the required attributes read label first *)
  Definition get_ec_lf (s : option section) (ecs : option (list string)) (req : list reqattr)
    : result (list string) :=
    match s with
    | None => Ok []
    | Some s =>
        match s_ecs s with
        | [] => Ok []
        | names =>
            match req_names_v0 req with
            | Ok rn => Ok (fold_left (ec_step rn (ecs_of ecs)) (maps_of names) [])
            | _ => Crash
            end
        end
    end.

  Definition names_restr (l : list string) : restr := map (fun n => (n, None)) l.

  (* ---- Policy.filter ------------------------------------------------------------------- *)
  (* self.get_fail_on_missing_requested(sp) if fail_on_missing is None else fail_on_missing *)
  Definition eff_fail (fo : option bool) (sec : option section) : bool :=
    match fo with Some b => b | None => get_fail sec end.

  (* fo = the fail_on_missing argument *)
  Definition pfilter (a : ava) (p : policy) (sp : string) (ecs : option (list string))
             (ra : option string) (req opt : list reqattr) (fo : option bool) : result ava :=
    let sec := applicable p sp ra in
    match get_ec sec ecs req with
    | Ok er =>
        let r1 := match er with
                  | _ :: _ => Ok (fava a (Some (names_restr er)))
                  | [] => if is_nil req && is_nil opt then Ok a
                          else filter_on_attributes a req opt (eff_fail fo sec)
                  end in
        match r1 with
        | Ok s => Ok (fava s (get_ar sec))
        | Missing => Missing
        | Crash => Crash
        end
    | _ => Crash
    end.

  (* ---- metadata side --------------------------------------------------------------------- *)
  Record mdinfo := {
    md_ras : list (reqattr * option string);   (* RequestedAttributes in document order, with isRequired *)
    md_sid : option string;                    (* first value of the subject-id:req entity attribute *)
    md_sid_loc : option string * option string;(* DATA local names of pairwise-id / subject-id *)
    md_ecs : list string;                      (* mds.entity_categories(sp) *)
    md_ra : option string                      (* registration authority *)
  }.

  Definition URI := "urn:oasis:names:tc:SAML:2.0:attrname-format:uri".
  Definition sid_attr (n : string) (loc : option string) : reqattr :=
    {| ra_name := String.append "urn:oasis:names:tc:SAML:attribute:" n; ra_nf := Some URI; ra_friendly := Some n;
       ra_values := []; ra_loc_l := loc; ra_loc_r := loc |}.

  (* MetadataStore.subject_id_requirement *)
  Definition subj_reqs (m : mdinfo) : list reqattr :=
    let pw := sid_attr "pairwise-id" (fst (md_sid_loc m)) in
    let sj := sid_attr "subject-id" (snd (md_sid_loc m)) in
    match md_sid m with
    | Some v => if String.eqb v "any" then [pw; sj]
                else if String.eqb v "pairwise-id" then [pw]
                else if String.eqb v "subject-id" then [sj]
                else []
    | None => []
    end.

  (* mdstore.attribute_requirement *)
  Definition is_req (e : reqattr * option string) : bool := opt_eqb String.eqb (snd e) (Some "true").
  Definition md_required (m : mdinfo) : list reqattr := map fst (filter is_req (md_ras m)).
  Definition md_optional (m : mdinfo) : list reqattr := map fst (filter (fun e => negb (is_req e)) (md_ras m)).

  (* for r in requirements_subject_id: if r not in required_attributes: append *)
  Definition add_subj (req subj : list reqattr) : list reqattr :=
    fold_left (fun acc r => if existsb (reqattr_eqb r) acc then acc else acc ++ [r]) subj req.

  Definition eff_required (md : option mdinfo) : list reqattr :=
    match md with Some m => add_subj (md_required m) (subj_reqs m) | None => [] end.
  Definition eff_optional (md : option mdinfo) : list reqattr :=
    match md with Some m => md_optional m | None => [] end.
  Definition eff_ecs (md : option mdinfo) : option (list string) :=
    match md with Some m => Some (md_ecs m) | None => None end.
  Definition eff_ra (md : option mdinfo) : option string :=
    match md with Some m => md_ra m | None => None end.

  (* ---- Policy.restrict -------------------------------------------------------------------- *)
  Definition restrict (a : ava) (p : policy) (sp : string) (md : option mdinfo) (fo : option bool)
    : result ava :=
    pfilter a p sp (eff_ecs md) (eff_ra md) (eff_required md) (eff_optional md) fo.

  (* ---- Assertion.apply_policy: result and the Assertion dict afterwards ------------------ *)
  Definition self_after (self : ava) (r : result ava) : ava :=
    match r with
    | Ok out => flat_map (fun e => match lookup (fst e) out with Some v => [(fst e, v)] | None => [] end) self
    | _ => self
    end.

  (* ---- Server.setup_assertion: what goes into the AttributeStatement --------------------- *)
  (* ast.apply_policy(sp, policy); on MissingValue (raised inside Policy.restrict, before the
     Assertion dict is touched): re-raise unless best_effort, else
     ast.apply_policy(sp, policy, fail_on_missing=False), whose exceptions propagate.
     Missing = MissingValue leaves setup_assertion = Server.create_authn_response answers with an
     error response (no assertion). *)
  Definition setup_assertion (best_effort : bool) (a : ava) (p : policy) (sp : string)
             (md : option mdinfo) : result ava :=
    match restrict a p sp md None with
    | Ok out => Ok (self_after a (Ok out))
    | Missing =>
        if best_effort
        then match restrict a p sp md (Some false) with
             | Ok out => Ok (self_after a (Ok out))
             | Missing => Missing
             | Crash => Crash
             end
        else Missing
    | Crash => Crash
    end.

  (* Server._authn_response, non-PEFIM branch: best_effort is the caller's (default False) *)
  Definition authn_response (best_effort : bool) := setup_assertion best_effort.

  (* ---- entry points exercised by the correspondence ---------------------------------------- *)
  Inductive entry :=
  | EFoa (fail : bool) (req opt : list reqattr)              (* filter_on_attributes *)
  | EFilter (req opt : list reqattr) (fo : option bool)      (* Policy.filter(.., fail_on_missing=fo) *)
  | ERestrict (fo : option bool)                             (* Policy.restrict(.., fail_on_missing=fo) *)
  | EApply (fo : option bool)                                (* Assertion.apply_policy(.., fail_on_missing=fo) *)
  | EServer (best_effort : bool).                            (* Server.create_authn_response(.., best_effort=) *)

  Record input := {
    i_ident : ava;
    i_pol : policy;
    i_sp : string;
    i_md : option mdinfo;       (* None: no metadata store *)
    i_entry : entry
  }.

  Record output := {
    o_out : result ava;         (* what is released / MissingValue or error response / other exception *)
    o_caller : ava;             (* the caller's identity data after the call *)
    o_self : option ava         (* apply_policy: the Assertion dict after the call *)
  }.

  (* the model threads the caller's identity through: every step works on its own copy *)
  Definition run (x : input) : output :=
    let a := i_ident x in
    match i_entry x with
    | EFoa fail req opt => {| o_out := filter_on_attributes a req opt fail; o_caller := a; o_self := None |}
    | EFilter req opt fo =>
        {| o_out := pfilter a (i_pol x) (i_sp x) (eff_ecs (i_md x)) (eff_ra (i_md x)) req opt fo;
           o_caller := a; o_self := None |}
    | ERestrict fo => {| o_out := restrict a (i_pol x) (i_sp x) (i_md x) fo; o_caller := a; o_self := None |}
    | EApply fo =>
        let r := restrict a (i_pol x) (i_sp x) (i_md x) fo in
        {| o_out := r; o_caller := a; o_self := Some (self_after a r) |}
    | EServer be => {| o_out := authn_response be a (i_pol x) (i_sp x) (i_md x); o_caller := a; o_self := None |}
    end.

  (* ==== the LIFE of one Policy object (the one a running Server holds) ======================= *)
  (* The configuration is fixed when the object is built.  Between two calls the user, the requester,
     the arguments and the CONTENT of the metadata store may change (a refresh): st_md is what the store
     says about the requester AT THE TIME of the call.  The code keeps nothing between calls that
     takes part in a release (Policy.acs is a lazily loaded constant, the compiled restrictions are
     never written again): the model of a life is the call-by-call model, in the order of the calls. *)
  Record step := {
    st_ident : ava;
    st_sp : string;
    st_md : option mdinfo;      (* the requester as described NOW; None: the Policy has no store *)
    st_entry : entry
  }.

  Definition step_input (p : policy) (s : step) : input :=
    {| i_ident := st_ident s; i_pol := p; i_sp := st_sp s; i_md := st_md s; i_entry := st_entry s |}.

  Definition run_life (p : policy) (l : list step) : list output :=
    map (fun s => run (step_input p s)) l.

  (* ==== the code BEFORE the repairs a4e3dbdd / 47cc754e (kept for the refutations) ============ *)
  (* 47cc754e: `if mds:` guarded the whole loop: without a store the restriction dict stayed empty *)
  Definition get_ec_v0 (s : option section) (ecs : option (list string)) (req : list reqattr)
    : result (list string) :=
    match ecs with
    | None => match get_ec_lf s ecs req with Ok _ => Ok [] | r => r end
    | Some _ => get_ec_lf s ecs req
    end.

  (* no fail_on_missing parameter *)
  Definition pfilter_v0 (a : ava) (p : policy) (sp : string) (ecs : option (list string))
             (ra : option string) (req opt : list reqattr) : result ava :=
    let sec := applicable p sp ra in
    match get_ec_v0 sec ecs req with
    | Ok er =>
        let r1 := match er with
                  | _ :: _ => Ok (fava a (Some (names_restr er)))
                  | [] => if is_nil req && is_nil opt then Ok a
                          else filter_on_attributes a req opt (get_fail sec)
                  end in
        match r1 with
        | Ok s => Ok (fava s (get_ar sec))
        | Missing => Missing
        | Crash => Crash
        end
    | _ => Crash
    end.

  Definition restrict_v0 (a : ava) (p : policy) (sp : string) (md : option mdinfo) : result ava :=
    pfilter_v0 a p sp (eff_ecs md) (eff_ra md) (eff_required md) (eff_optional md).

  (* 4be62a1c alone: the code as it is now except that get_entity_categories reads the label first
     (a4e3dbdd / 47cc754e in place) *)
  Definition pfilter_lf (a : ava) (p : policy) (sp : string) (ecs : option (list string))
             (ra : option string) (req opt : list reqattr) (fo : option bool) : result ava :=
    let sec := applicable p sp ra in
    match get_ec_lf sec ecs req with
    | Ok er =>
        let r1 := match er with
                  | _ :: _ => Ok (fava a (Some (names_restr er)))
                  | [] => if is_nil req && is_nil opt then Ok a
                          else filter_on_attributes a req opt (eff_fail fo sec)
                  end in
        match r1 with
        | Ok s => Ok (fava s (get_ar sec))
        | Missing => Missing
        | Crash => Crash
        end
    | _ => Crash
    end.
  Definition restrict_lf (a : ava) (p : policy) (sp : string) (md : option mdinfo) (fo : option bool)
    : result ava :=
    pfilter_lf a p sp (eff_ecs md) (eff_ra md) (eff_required md) (eff_optional md) fo.

  (* a4e3dbdd: MissingValue swallowed when best_effort - the Assertion kept the unfiltered identity *)
  Definition setup_assertion_v0 (best_effort : bool) (a : ava) (p : policy) (sp : string)
             (md : option mdinfo) : result ava :=
    match restrict_v0 a p sp md with
    | Ok out => Ok (self_after a (Ok out))
    | Missing => if best_effort then Ok a else Missing
    | Crash => Crash
    end.

  (* ... and _authn_response passed the literal True whatever the caller said *)
  Definition authn_response_v0 (best_effort : bool) := setup_assertion_v0 true.

  (* the fail_on_missing arguments did not exist: only fo = None was expressible *)
  Definition run_v0 (x : input) : output :=
    let a := i_ident x in
    match i_entry x with
    | EFoa fail req opt => {| o_out := filter_on_attributes a req opt fail; o_caller := a; o_self := None |}
    | EFilter req opt _ =>
        {| o_out := pfilter_v0 a (i_pol x) (i_sp x) (eff_ecs (i_md x)) (eff_ra (i_md x)) req opt;
           o_caller := a; o_self := None |}
    | ERestrict _ => {| o_out := restrict_v0 a (i_pol x) (i_sp x) (i_md x); o_caller := a; o_self := None |}
    | EApply _ =>
        let r := restrict_v0 a (i_pol x) (i_sp x) (i_md x) in
        {| o_out := r; o_caller := a; o_self := Some (self_after a r) |}
    | EServer be => {| o_out := authn_response_v0 be a (i_pol x) (i_sp x) (i_md x); o_caller := a; o_self := None |}
    end.
End WithData.
