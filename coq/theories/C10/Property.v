(* C10/Property.v — property theorems only.
   rmatch (the regex engine) and ectab (the entity-category tables) are universally quantified:
   the theorems hold for every regex semantics and every table.
   `guard` is no longer a finding guard: since the repairs a4e3dbdd (C10-F1) and 47cc754e (C10-F2)
   it is only the stated input assumption wf (with entity categories in force the identity has no
   attribute named ""). *)
From Coq Require Import String List Bool.
From Verif Require Import Base.Str C10.Model C10.Spec C10.Proofs Base.Py C10.Source.
From VerifGen Require Import C10Src.
Import ListNotations.

(* released names are the user's names; every released value list is a sub-multiset of what the
   user holds (never more occurrences).  No hypothesis. *)
Theorem c10_release_subset : forall rmatch ectab x r,
  o_out (run rmatch ectab x) = Ok r -> subset (i_ident x) r.
Proof. exact release_subset. Qed.
Print Assumptions c10_release_subset.

(* every released name and value passes the most specific applicable section's restriction, and
   the entity categories (when in force) or else the requester's declaration (when there is one) *)
Theorem c10_release_allowed : forall rmatch ectab x r,
  guard ectab x = true -> o_out (run rmatch ectab x) = Ok r -> allowed rmatch ectab (flat x) r.
Proof. exact release_allowed. Qed.
Print Assumptions c10_release_allowed.

(* filtering never alters the caller's identity data *)
Theorem c10_caller_unchanged : forall rmatch ectab x, o_caller (run rmatch ectab x) = i_ident x.
Proof. exact caller_unchanged. Qed.
Print Assumptions c10_caller_unchanged.

(* EVERY entry point - filter_on_attributes / Policy.filter / Policy.restrict /
   Assertion.apply_policy / Server.create_authn_response: a required attribute that cannot be
   supplied while failing is in effect (at the Server: best_effort false) is an error - at the
   Server an error response -, never a release *)
Theorem c10_missing_required_is_error : forall rmatch ectab x,
  must_fail ectab (flat x) -> forall r, o_out (run rmatch ectab x) <> Ok r.
Proof. exact missing_required_is_error. Qed.
Print Assumptions c10_missing_required_is_error.

(* the whole property at the Policy level *)
Theorem c10_policy_level : forall rmatch ectab x,
  (forall be, i_entry x <> EServer be) -> wf ectab x = true ->
  spec rmatch ectab (flat x) (run rmatch ectab x).
Proof. exact policy_level_holds. Qed.
Print Assumptions c10_policy_level.

(* the whole property for every entry point (Server included, best_effort or not) *)
Theorem c10_guarded : forall rmatch ectab x,
  guard ectab x = true -> spec rmatch ectab (flat x) (run rmatch ectab x).
Proof. exact run_spec. Qed.
Print Assumptions c10_guarded.

(* ... with no hypothesis at all when no entity categories are in force *)
Theorem c10_whole_property_no_ec : forall rmatch ectab x,
  the_entries ectab (flat x) = [] -> spec rmatch ectab (flat x) (run rmatch ectab x).
Proof. exact no_ec_holds. Qed.
Print Assumptions c10_whole_property_no_ec.

(* what the Server releases is the outcome of a pass of the policy (the first, or with best_effort
   the one with fail_on_missing=False) - never the unfiltered identity *)
Theorem c10_server_release_is_policy_output : forall rmatch ectab x be r,
  i_entry x = EServer be -> o_out (run rmatch ectab x) = Ok r ->
  exists fo out, restrict rmatch ectab (i_ident x) (i_pol x) (i_sp x) (i_md x) fo = Ok out
                 /\ (fo = None \/ (be = true /\ fo = Some false))
                 /\ r = self_after (i_ident x) (Ok out).
Proof. exact server_release_is_policy_output. Qed.
Print Assumptions c10_server_release_is_policy_output.

(* finding C10-F1, fixed by a4e3dbdd: the code BEFORE the repair (run_v0: literal best_effort=True,
   MissingValue leaves the unfiltered identity in the assertion) fails the property *)
Theorem c10_server_release_v0_refuted : exists rmatch ectab x, ~ spec rmatch ectab (flat x) (run_v0 rmatch ectab x).
Proof. exact server_release_v0_refuted. Qed.
Print Assumptions c10_server_release_v0_refuted.

(* finding C10-F2, fixed by 47cc754e: the code BEFORE the repair skipped the entity-category filter
   when the Policy has no metadata store *)
Theorem c10_nostore_v0_refuted : exists rmatch ectab x,
  i_entry x = ERestrict None /\ ~ spec rmatch ectab (flat x) (run_v0 rmatch ectab x).
Proof. exact nostore_v0_refuted. Qed.
Print Assumptions c10_nostore_v0_refuted.

(* the boolean spec that Coq evaluates on the implementation's recorded output is the stated spec *)
Theorem c10_spec_reflect : forall rmatch ectab x o,
  spec_b rmatch ectab x o = true <-> spec rmatch ectab (flat x) o.
Proof. exact spec_b_iff. Qed.
Print Assumptions c10_spec_reflect.

(* the model's bit-level lower() is Base.Str.lower *)
Theorem c10_lower_is_str_lower : forall s, C10.Model.lower s = Base.Str.lower s.
Proof. exact lower_is_str_lower. Qed.
Print Assumptions c10_lower_is_str_lower.

(* tie to the source TEXT: Policy.get as translated from /repo's current source on this run
   (coq/gen/C10Src.v, harness/py2coq.py) answers from the section the model's [applicable] selects
   (requester > registration authority > "default" unless empty and "" exists > ""), for every compiled
   policy, requester, registration authority, key and default; enc_sec is any dict encoding of sections that
   is empty exactly for empty sections *)
Theorem c10_source_policy_get :
  forall (enc_sec : section -> list (String.string * pyval)),
    (forall s, enc_sec s = nil <-> s_bare s = true) ->
    forall (reginfo : pyval -> pyval) p store sp ra key dflt,
      reginfo (PStr sp) = enc_ra ra ->
      src_policy_get reginfo (enc_policy enc_sec p store) (PStr key) (PStr sp) dflt
      = match applicable p sp (if store then ra else None) with
        | Some s => sec_value enc_sec s key dflt
        | None => dflt
        end.
Proof. exact src_policy_get_is_model. Qed.
Print Assumptions c10_source_policy_get.
