(* C10/Property.v — property theorems only.
   rmatch (the regex engine) and ectab (the entity-category tables) are universally quantified:
   the theorems hold for every regex semantics and every table. *)
From Coq Require Import String List Bool.
From Verif Require Import Base.Str C10.Model C10.Spec C10.Proofs.

(* released names are the user's names; every released value list is a sub-multiset of what the
   user holds (never more occurrences).  No hypothesis: also true inside the finding classes. *)
Theorem c10_release_subset : forall rmatch ectab x r,
  o_out (run rmatch ectab x) = Ok r -> subset (i_ident x) r.
Proof. exact release_subset. Qed.
Print Assumptions c10_release_subset.

(* every released name and value passes the most specific applicable section's restriction, and
   the entity categories (when in force) or else the requester's declaration (when there is one) *)
Theorem c10_release_allowed : forall rmatch ectab x r,
  guard rmatch ectab x = true -> o_out (run rmatch ectab x) = Ok r -> allowed rmatch ectab (flat x) r.
Proof. exact release_allowed. Qed.
Print Assumptions c10_release_allowed.

(* filtering never alters the caller's identity data *)
Theorem c10_caller_unchanged : forall rmatch ectab x, o_caller (run rmatch ectab x) = i_ident x.
Proof. exact caller_unchanged. Qed.
Print Assumptions c10_caller_unchanged.

(* filter_on_attributes / Policy.filter / Policy.restrict / Assertion.apply_policy: a required
   attribute that cannot be supplied while failing is in effect is an error, never a release *)
Theorem c10_missing_required_is_error : forall rmatch ectab x,
  i_entry x <> EServer -> must_fail ectab (flat x) -> forall r, o_out (run rmatch ectab x) <> Ok r.
Proof. exact missing_required_is_error. Qed.
Print Assumptions c10_missing_required_is_error.

(* the whole property at the Policy level (no best_effort there) *)
Theorem c10_policy_level : forall rmatch ectab x,
  i_entry x <> EServer -> class2 ectab x = false -> wf ectab x = true ->
  spec rmatch ectab (flat x) (run rmatch ectab x).
Proof. exact policy_level_holds. Qed.
Print Assumptions c10_policy_level.

(* the whole property for every entry point outside the two finding classes *)
Theorem c10_guarded : forall rmatch ectab x,
  guard rmatch ectab x = true -> spec rmatch ectab (flat x) (run rmatch ectab x).
Proof. exact run_spec. Qed.
Print Assumptions c10_guarded.

(* finding 1 (open): Server._authn_response passes best_effort=True, a MissingValue leaves the
   unfiltered identity in the assertion *)
Theorem c10_server_release_refuted : exists rmatch ectab x, ~ spec rmatch ectab (flat x) (run rmatch ectab x).
Proof. exact server_release_refuted. Qed.
Print Assumptions c10_server_release_refuted.

(* ... while setup_assertion called with best_effort=False obeys the property *)
Theorem c10_setup_assertion_strict : forall rmatch ectab x r,
  class2 ectab x = false -> wf ectab x = true -> i_entry x = EServer ->
  setup_assertion rmatch ectab false (i_ident x) (i_pol x) (i_sp x) (i_md x) = Ok r ->
  released_ok rmatch ectab (flat x) r.
Proof. exact setup_assertion_strict. Qed.
Print Assumptions c10_setup_assertion_strict.

(* finding 2 (open): entity categories configured but no metadata store: the filter is skipped *)
Theorem c10_nostore_refuted : exists rmatch ectab x,
  i_entry x = ERestrict /\ ~ spec rmatch ectab (flat x) (run rmatch ectab x).
Proof. exact nostore_refuted. Qed.
Print Assumptions c10_nostore_refuted.

(* the boolean spec that Coq evaluates on the implementation's recorded output is the stated spec *)
Theorem c10_spec_reflect : forall rmatch ectab x o,
  spec_b rmatch ectab x o = true <-> spec rmatch ectab (flat x) o.
Proof. exact spec_b_iff. Qed.
Print Assumptions c10_spec_reflect.

(* the model's bit-level lower() is Base.Str.lower *)
Theorem c10_lower_is_str_lower : forall s, C10.Model.lower s = Base.Str.lower s.
Proof. exact lower_is_str_lower. Qed.
Print Assumptions c10_lower_is_str_lower.
