(* C10/Property.v — property theorems only.
   rmatch (the regex engine) and ectab (the entity-category tables) are universally quantified:
   the theorems hold for every regex semantics and every table.
   `guard` is no finding guard: it is only the stated input assumption wf (with entity categories in force the
   identity has no attribute named "").  The classes of the repaired findings C10-F1 (a4e3dbdd), C10-F2 (47cc754e)
   and C10-F5 (4be62a1c: Policy.get_entity_categories read the FriendlyName of a required RequestedAttribute
   before its Name + NameFormat; c10_label_first_categories_v0_refuted) are not excluded.
   What a RequestedAttribute declares is Name + NameFormat (Spec.designators / required_names); the FriendlyName
   is a label that stands in only when the attribute maps do not know the Name. *)
From Coq Require Import String List Bool.
From Verif Require Import Base.Str C10.Model C10.Spec C10.Proofs Base.Py Base.Py2 C10.Source C10.Source2.
From VerifGen Require Import C10Src C10Src2.
Import ListNotations.

(* released names are the user's names; every released value list is a sub-multiset of what the
   user holds (never more occurrences).  No hypothesis. *)
Theorem c10_release_subset : forall rmatch ectab x r,
  o_out (run rmatch ectab x) = Ok r -> subset (i_ident x) r.
Proof. exact release_subset. Qed.
Print Assumptions c10_release_subset.

(* every released name and value passes the most specific applicable section's restriction, and
   the entity categories (when in force) or else the requester's declaration (when there is one) *)
Theorem c10_release_allowed : forall rmatch ectab x r,
  guard ectab x = true -> o_out (run rmatch ectab x) = Ok r -> allowed rmatch ectab (flat x) r.
Proof. exact release_allowed. Qed.
Print Assumptions c10_release_allowed.

(* filtering never alters the caller's identity data *)
Theorem c10_caller_unchanged : forall rmatch ectab x, o_caller (run rmatch ectab x) = i_ident x.
Proof. exact caller_unchanged. Qed.
Print Assumptions c10_caller_unchanged.

(* EVERY entry point - filter_on_attributes / Policy.filter / Policy.restrict /
   Assertion.apply_policy / Server.create_authn_response: a required attribute that cannot be
   supplied while failing is in effect (at the Server: best_effort false) is an error - at the
   Server an error response -, never a release *)
Theorem c10_missing_required_is_error : forall rmatch ectab x,
  must_fail ectab (flat x) -> forall r, o_out (run rmatch ectab x) <> Ok r.
Proof. exact missing_required_is_error. Qed.
Print Assumptions c10_missing_required_is_error.

(* the whole property at the Policy level *)
Theorem c10_policy_level : forall rmatch ectab x,
  (forall be, i_entry x <> EServer be) -> wf ectab x = true ->
  spec rmatch ectab (flat x) (run rmatch ectab x).
Proof. exact policy_level_holds. Qed.
Print Assumptions c10_policy_level.

(* the whole property for every entry point (Server included, best_effort or not) *)
Theorem c10_guarded : forall rmatch ectab x,
  guard ectab x = true -> spec rmatch ectab (flat x) (run rmatch ectab x).
Proof. exact run_spec. Qed.
Print Assumptions c10_guarded.

(* ... with no hypothesis at all when no entity categories are in force *)
Theorem c10_whole_property_no_ec : forall rmatch ectab x,
  the_entries ectab (flat x) = [] -> spec rmatch ectab (flat x) (run rmatch ectab x).
Proof. exact no_ec_holds. Qed.
Print Assumptions c10_whole_property_no_ec.

(* what the Server releases is the outcome of a pass of the policy (the first, or with best_effort
   the one with fail_on_missing=False) - never the unfiltered identity *)
Theorem c10_server_release_is_policy_output : forall rmatch ectab x be r,
  i_entry x = EServer be -> o_out (run rmatch ectab x) = Ok r ->
  exists fo out, restrict rmatch ectab (i_ident x) (i_pol x) (i_sp x) (i_md x) fo = Ok out
                 /\ (fo = None \/ (be = true /\ fo = Some false))
                 /\ r = self_after (i_ident x) (Ok out).
Proof. exact server_release_is_policy_output. Qed.
Print Assumptions c10_server_release_is_policy_output.

(* THE LIFE OF ONE Policy OBJECT (as held by a running Server): for every policy configuration and every
   sequence of calls on the object - users, requesters, arguments and the content of the metadata
   store (what it says about the requester: required/optional attributes, entity categories,
   registration authority) changing from call to call - every call satisfies the whole property
   against the requester AS DESCRIBED AT THE TIME OF THAT CALL *)
Theorem c10_life_guarded : forall rmatch ectab p l,
  guard_life ectab p l = true -> spec_life rmatch ectab p l (run_life rmatch ectab p l).
Proof. exact life_spec. Qed.
Print Assumptions c10_life_guarded.

(* what a call releases does not depend on the calls made before or after it on the same object *)
Theorem c10_life_history_independent : forall rmatch ectab p pre s post,
  nth_error (run_life rmatch ectab p (pre ++ s :: post)) (length pre)
  = Some (run rmatch ectab (step_input p s)).
Proof. exact life_history_independent. Qed.
Print Assumptions c10_life_history_independent.

(* ... in particular a release made late in a life is a subset of that call's identity and permitted
   by that call's requester description *)
Theorem c10_life_release_allowed : forall rmatch ectab p pre s post o r,
  guard ectab (step_input p s) = true ->
  nth_error (run_life rmatch ectab p (pre ++ s :: post)) (length pre) = Some o ->
  o_out o = Ok r ->
  subset (st_ident s) r /\ allowed rmatch ectab (flat (step_input p s)) r.
Proof. exact life_release_allowed. Qed.
Print Assumptions c10_life_release_allowed.

(* the boolean life spec evaluated by the correspondence is the life spec *)
Theorem c10_life_spec_reflect : forall rmatch ectab p l os,
  spec_life_b rmatch ectab p l os = true <-> spec_life rmatch ectab p l os.
Proof. exact spec_life_b_iff. Qed.
Print Assumptions c10_life_spec_reflect.

(* a life whose later calls answer what the first call was entitled to (restrictions remembered on
   the object) fails the property *)
Theorem c10_stale_life_refuted : exists rmatch ectab p l,
  guard_life ectab p l = true /\ ~ spec_life rmatch ectab p l (stale_life rmatch ectab p l).
Proof. exact stale_life_refuted. Qed.
Print Assumptions c10_stale_life_refuted.

(* finding C10-F1, fixed by a4e3dbdd: the code BEFORE the repair (run_v0: literal best_effort=True,
   MissingValue leaves the unfiltered identity in the assertion) fails the property *)
Theorem c10_server_release_v0_refuted : exists rmatch ectab x, ~ spec rmatch ectab (flat x) (run_v0 rmatch ectab x).
Proof. exact server_release_v0_refuted. Qed.
Print Assumptions c10_server_release_v0_refuted.

(* finding C10-F2, fixed by 47cc754e: the code BEFORE the repair skipped the entity-category filter
   when the Policy has no metadata store *)
Theorem c10_nostore_v0_refuted : exists rmatch ectab x,
  i_entry x = ERestrict None /\ ~ spec rmatch ectab (flat x) (run_v0 rmatch ectab x).
Proof. exact nostore_v0_refuted. Qed.
Print Assumptions c10_nostore_v0_refuted.

(* ROUND 6 - the FriendlyName of a RequestedAttribute is a label, not a declaration.
   When the attribute maps know Name + NameFormat only the mapped local name and the Name itself designate an
   identity attribute (this is what `allowed`, `must_fail` = c10_release_allowed, c10_missing_required_is_error,
   c10_guarded are about) *)
Theorem c10_label_designates_nothing : forall d l k,
  resolved d = Some l -> designates d k -> lower k = lower l \/ lower k = lower (ra_name d).
Proof. exact label_designates_nothing. Qed.
Print Assumptions c10_label_designates_nothing.

(* ... and the label stands in when they do not *)
Theorem c10_unresolved_label_designates : forall d f,
  resolved d = None -> ra_friendly d = Some f -> designates d f.
Proof. exact unresolved_label_designates. Qed.
Print Assumptions c10_unresolved_label_designates.

(* a matching that reads the label first (seeded change C10-b) picks an identity attribute the requester never
   declared while the declared one is not held *)
Theorem c10_label_first_match_refuted : exists d a fn,
  match_attr_name_label_first d a = Some fn /\ ~ designates d fn /\ match_attr_name d a = None.
Proof. exact label_first_match_refuted. Qed.
Print Assumptions c10_label_first_match_refuted.

(* finding C10-F5, fixed by 4be62a1c: the code BEFORE the repair (restrict_lf: Policy.get_entity_categories reads
   the label first) releases, with an ONLY_REQUIRED category, an attribute the requester did not require - on an
   input that satisfies wf and lies in class 3 (Corr.cls names a regression) *)
Theorem c10_label_first_categories_v0_refuted : exists rmatch ectab x,
  i_entry x = ERestrict None /\ wf ectab x = true /\ class3 ectab x = true
  /\ ~ spec rmatch ectab (flat x) (run_restrict_lf rmatch ectab x).
Proof. exact label_first_categories_v0_refuted. Qed.
Print Assumptions c10_label_first_categories_v0_refuted.

(* the boolean spec that Coq evaluates on the implementation's recorded output is the stated spec *)
Theorem c10_spec_reflect : forall rmatch ectab x o,
  spec_b rmatch ectab x o = true <-> spec rmatch ectab (flat x) o.
Proof. exact spec_b_iff. Qed.
Print Assumptions c10_spec_reflect.

(* the model's bit-level lower() is Base.Str.lower *)
Theorem c10_lower_is_str_lower : forall s, C10.Model.lower s = Base.Str.lower s.
Proof. exact lower_is_str_lower. Qed.
Print Assumptions c10_lower_is_str_lower.

(* tie to the source TEXT: Policy.get as translated from /repo's current source on this run
   (coq/gen/C10Src.v, harness/py2coq.py) answers from the section the model's [applicable] selects
   (requester > registration authority > "default" unless empty and "" exists > ""), for every compiled
   policy, requester, registration authority, key and default; enc_sec is any dict encoding of sections that
   is empty exactly for empty sections *)
Theorem c10_source_policy_get :
  forall (enc_sec : section -> list (String.string * pyval)),
    (forall s, enc_sec s = nil <-> s_bare s = true) ->
    forall (reginfo : pyval -> pyval) p store sp ra key dflt,
      reginfo (PStr sp) = enc_ra ra ->
      src_policy_get reginfo (enc_policy enc_sec p store) (PStr key) (PStr sp) dflt
      = match applicable p sp (if store then ra else None) with
        | Some s => sec_value enc_sec s key dflt
        | None => dflt
        end.
Proof. exact src_policy_get_is_model. Qed.
Print Assumptions c10_source_policy_get.

(* ==== tie to the source TEXT, translator v2 (coq/gen/C10Src2.v is re-translated from /repo's current
   source on every run by harness/py2coq2.py; operations Base/Py2.v; proofs C10/Source2.v).  Encodings:
   enc_ava (dict name -> str | list of str), enc_strs, enc_ostr (str | None), enc_rq (RequestedAttribute as
   to_dict() makes it), enc_orestr (compiled attribute_restrictions), enc_result (released dict /
   MissingValue / other exception).  keys_ok = no key "__class__", keys_ascii = ASCII keys. ==== *)
Open Scope string_scope.

(* saml2.assertion._filter_values, whole function, list arguments *)
Theorem c10_source2_filter_values : forall (vals vlist : list string) (must : bool),
  src2_filter_values (enc_strs vals) (enc_strs vlist) (PBool must)
  = if must
    then match filter_values_must vals vlist with Some r => enc_strs r | None => PExc "MissingValue" end
    else enc_strs (filter_values vals vlist).
Proof. exact src2_filter_values_is_model. Qed.
Print Assumptions c10_source2_filter_values.

(* saml2.assertion._match, whole function *)
Theorem c10_source2_match : forall (attr : string) (a : ava),
  keys_ok a -> keys_ascii a -> all_ascii attr = true ->
  src2_match (PStr attr) (enc_ava a) = enc_ostr (match_ attr a).
Proof. exact src2_match_is_model. Qed.
Print Assumptions c10_source2_match.

(* filter_on_attributes._match_attr_name (nested function, whole) with the translated _match in the place
   of _match; get_local_name (the attribute maps) is external: its answer is the model's datum ra_loc_l.
   The caller's truth test `if _fn:` is the model's [tr]: match_attr_name d a = tr (or_ ..) by definition *)
Theorem c10_source2_match_attr_name : forall (get_local_name : pyval -> pyval -> pyval) (d : reqattr),
  get_local_name (PStr (lower (ra_name d))) (enc_ostr (ra_nf d)) = enc_ostr (ra_loc_l d) ->
  forall a : ava,
    keys_ok a -> keys_ascii a -> all_ascii (ra_name d) = true -> all_ascii (local_name d) = true ->
    src2_match_attr_name get_local_name src2_match (enc_rq d) (enc_ava a)
    = enc_ostr (or_ (match_ (local_name d) a) (match_ (lower (ra_name d)) a)).
Proof. exact src2_match_attr_name_is_model. Qed.
Print Assumptions c10_source2_match_attr_name.

(* filter_attribute_value_assertions, whole function; `restr.match(val)` (the regex engine) is external.
   list(set(..)) is first-occurrence order in the embedding (set_first), last-occurrence in the model
   (dedup): fava_with .. dedup IS the model's fava, and the two de-duplications have the same elements *)
Theorem c10_source2_filter_attribute_value_assertions :
  forall (rmatch : string -> string -> bool) (re_match : pyval -> pyval -> pyval),
    (forall r v, is_bad (re_match (PStr r) (PStr v)) = false) ->
    (forall r v, py_truthy (re_match (PStr r) (PStr v)) = rmatch r v) ->
    forall (a : ava) (R : option restr),
      keys_ok a -> NoDup (keys a) -> keys_ascii a -> (forall R', R = Some R' -> keys_ok R') ->
      src2_fava re_match (enc_ava a) (enc_orestr R) = enc_ava (fava_with rmatch set_first a R).
Proof. exact src2_fava_is_model. Qed.
Print Assumptions c10_source2_filter_attribute_value_assertions.

Theorem c10_source2_fava_with_is_fava : forall rmatch a R, fava_with rmatch dedup a R = fava rmatch a R.
Proof. exact fava_with_dedup. Qed.
Print Assumptions c10_source2_fava_with_is_fava.

Theorem c10_source2_set_order : forall l,
  (forall x, In x (set_first l) <-> In x (dedup l)) /\ NoDup (set_first l) /\ NoDup (dedup l).
Proof.
  exact (fun l => conj (fun x => iff_trans (set_first_In l x) (iff_sym (dedup_In l x)))
                       (conj (set_first_NoDup l) (dedup_NoDup l))).
Qed.
Print Assumptions c10_source2_set_order.

(* Policy.filter, whole method on the path mdstore=None: the composition of the filters.  External calls
   (each a hypothesis): ac_factory(), self.get_entity_categories, filter_attribute_value_assertions (any
   value filter F on encodings), filter_on_attributes, self.get_fail_on_missing_requested,
   self.get_attribute_restrictions.  pfilter_gen .. (fava rmatch) IS the model's pfilter *)
Theorem c10_source2_policy_filter :
  forall (ectab : list (string * ecmap)) (F : ava -> option restr -> ava)
         (a : ava) (p : policy) (sp : string) (ecs : option (list string)) (ra : option string)
         (req opt : list reqattr) (fo : option bool)
         (ac_factory : pyval) (gec : pyval -> pyval -> pyval -> pyval -> pyval)
         (favaF : pyval -> pyval -> pyval) (foaF : pyval -> pyval -> pyval -> pyval -> pyval -> pyval)
         (get_failF get_arF : pyval -> pyval -> pyval) (cn : string),
    is_bad ac_factory = false ->
    (forall s, gec s (PStr sp) PNone (enc_oreqs req)
               = match get_ec ectab (applicable p sp ra) ecs req with
                 | Ok er => enc_restr (names_restr er) | _ => PExc cn end) ->
    (forall x R, favaF (enc_ava x) (enc_orestr R) = enc_ava (F x R)) ->
    (forall acs' fail, is_bad acs' = false ->
       foaF (enc_ava a) (enc_oreqs req) (enc_oreqs opt) acs' (PBool fail)
       = enc_result cn (filter_on_attributes a req opt fail)) ->
    (forall s, get_failF s (PStr sp) = PBool (get_fail (applicable p sp ra))) ->
    (forall s, get_arF s (PStr sp) = enc_orestr (get_ar (applicable p sp ra))) ->
    forall store acs : pyval,
      keys_ok a -> is_bad acs = false ->
      src2_policy_filter ac_factory gec favaF foaF get_failF get_arF (enc_policy_self store acs)
        (enc_ava a) (PStr sp) PNone (enc_oreqs req) (enc_oreqs opt) (enc_obool fo)
      = enc_result cn (pfilter_gen ectab F a p sp ecs ra req opt fo).
Proof. exact src2_policy_filter_is_model. Qed.
Print Assumptions c10_source2_policy_filter.

Theorem c10_source2_pfilter_gen_is_pfilter : forall rmatch ectab a p sp ecs ra req opt fo,
  pfilter_gen ectab (fava rmatch) a p sp ecs ra req opt fo = pfilter rmatch ectab a p sp ecs ra req opt fo.
Proof. exact pfilter_gen_model. Qed.
Print Assumptions c10_source2_pfilter_gen_is_pfilter.

(* Policy.restrict, whole method on the path metadata=None: Policy.filter (external here) is called with the
   model's effective required / optional lists and the caller's fail_on_missing; the metadata store's
   attribute_requirement / subject_id_requirement are external; enc_r: any encoding of RequestedAttribute
   dicts on which == is the model's reqattr_eqb (enc_rq is one: c10_source2_reqattr_eq) *)
Theorem c10_source2_policy_restrict :
  forall enc_r : reqattr -> pyval,
    (forall x y, pv_eq (enc_r x) (enc_r y) = Some (reqattr_eqb x y)) ->
    forall (attribute_requirement subject_id_requirement : pyval -> pyval -> pyval)
           (policy_filter : pyval -> pyval -> pyval -> pyval -> pyval -> pyval -> pyval)
           (md : option mdinfo) (sp : string) (store : pyval),
      is_bad store = false ->
      py_truthy store = match md with Some _ => true | None => false end ->
      (forall m, md = Some m ->
         attribute_requirement store (PStr sp)
         = PObj [("required", enc_rl enc_r (md_required m)); ("optional", enc_rl enc_r (md_optional m))]) ->
      (forall m, md = Some m -> subject_id_requirement store (PStr sp) = enc_rl enc_r (subj_reqs m)) ->
      forall acs v_ava v_fo : pyval,
        is_bad v_ava = false -> is_bad v_fo = false ->
        src2_policy_restrict attribute_requirement subject_id_requirement policy_filter
          (enc_policy_self store acs) v_ava (PStr sp) PNone v_fo
        = policy_filter (enc_policy_self store acs) v_ava (PStr sp)
            (enc_orl enc_r (eff_required md)) (enc_orl enc_r (eff_optional md)) v_fo.
Proof. exact src2_policy_restrict_is_model. Qed.
Print Assumptions c10_source2_policy_restrict.

Theorem c10_source2_reqattr_eq : forall x y, pv_eq (enc_rq x) (enc_rq y) = Some (reqattr_eqb x y).
Proof. exact enc_rq_eq. Qed.
Print Assumptions c10_source2_reqattr_eq.

(* Policy.restrict (translated) calling Policy.filter (translated) answers what the model's [restrict] answers *)
Theorem c10_source2_restrict_calls_filter :
  forall (rmatch : string -> string -> bool) (ectab : list (string * ecmap))
         (a : ava) (p : policy) (sp : string) (md : option mdinfo) (fo : option bool)
         (store acs ac_factory : pyval)
         (attribute_requirement subject_id_requirement : pyval -> pyval -> pyval)
         (gec : pyval -> pyval -> pyval -> pyval -> pyval) (favaF : pyval -> pyval -> pyval)
         (foaF : pyval -> pyval -> pyval -> pyval -> pyval -> pyval)
         (get_failF get_arF : pyval -> pyval -> pyval) (cn : string),
    is_bad store = false ->
    py_truthy store = match md with Some _ => true | None => false end ->
    (forall m, md = Some m ->
       attribute_requirement store (PStr sp)
       = PObj [("required", enc_rl enc_rq (md_required m)); ("optional", enc_rl enc_rq (md_optional m))]) ->
    (forall m, md = Some m -> subject_id_requirement store (PStr sp) = enc_rl enc_rq (subj_reqs m)) ->
    is_bad ac_factory = false ->
    (forall s, gec s (PStr sp) PNone (enc_oreqs (eff_required md))
               = match get_ec ectab (applicable p sp (eff_ra md)) (eff_ecs md) (eff_required md) with
                 | Ok er => enc_restr (names_restr er) | _ => PExc cn end) ->
    (forall x R, favaF (enc_ava x) (enc_orestr R) = enc_ava (fava rmatch x R)) ->
    (forall acs' fail, is_bad acs' = false ->
       foaF (enc_ava a) (enc_oreqs (eff_required md)) (enc_oreqs (eff_optional md)) acs' (PBool fail)
       = enc_result cn (filter_on_attributes a (eff_required md) (eff_optional md) fail)) ->
    (forall s, get_failF s (PStr sp) = PBool (get_fail (applicable p sp (eff_ra md)))) ->
    (forall s, get_arF s (PStr sp) = enc_orestr (get_ar (applicable p sp (eff_ra md)))) ->
    keys_ok a -> is_bad acs = false ->
    src2_policy_restrict attribute_requirement subject_id_requirement
      (fun self ava_ sp_ required optional fail_on_missing =>
         src2_policy_filter ac_factory gec favaF foaF get_failF get_arF self ava_ sp_ PNone
           required optional fail_on_missing)
      (enc_policy_self store acs) (enc_ava a) (PStr sp) PNone (enc_obool fo)
    = enc_result cn (restrict rmatch ectab a p sp md fo).
Proof. exact src2_restrict_filter_is_model. Qed.
Print Assumptions c10_source2_restrict_calls_filter.

(* Policy.get_fail_on_missing_requested, whole method: key and default of the Policy.get call ... *)
Theorem c10_source2_get_fail_on_missing_requested :
  forall (policy_get : pyval -> pyval -> pyval -> pyval -> pyval) (self : pyval) (sp : string),
    src2_get_fail policy_get self (PStr sp)
    = policy_get self (PStr "fail_on_missing_requested") (PStr sp) (PBool true).
Proof. exact src2_get_fail_is_model. Qed.
Print Assumptions c10_source2_get_fail_on_missing_requested.

(* ... and composed with Policy.get as translated by v1 (c10_source_policy_get): the model's get_fail *)
Theorem c10_source2_get_fail_via_policy_get :
  forall enc_sec : section -> list (string * pyval),
    (forall s, enc_sec s = nil <-> s_bare s = true) ->
    forall (reginfo : pyval -> pyval) (p : policy) (store : bool) (sp : string) (ra : option string),
      reginfo (PStr sp) = C10.Source.enc_ra ra ->
      (forall s, applicable p sp (if store then ra else None) = Some s ->
                 sec_value enc_sec s "fail_on_missing_requested" (PBool true) = PBool (get_fail (Some s))) ->
      src2_get_fail (src_policy_get reginfo) (enc_policy enc_sec p store) (PStr sp)
      = PBool (get_fail (applicable p sp (if store then ra else None))).
Proof. exact src2_get_fail_via_policy_get. Qed.
Print Assumptions c10_source2_get_fail_via_policy_get.

(* ---- round 5: the subject-id requirement (entity attribute subject-id:req) and the requester's own listing of
   that identifier.  Every subject-id requirement is among the REQUIRED attributes the release is judged by -
   itself or an equal dict that the requester lists as required (or another subject-id requirement); a listing
   as optional never stands in for it *)
Theorem c10_subject_id_requirement_is_required : forall m r,
  In r (subj_reqs m) ->
  exists r', In r' (eff_required (Some m)) /\ reqattr_eqb r r' = true /\ In r' (md_required m ++ subj_reqs m).
Proof. exact subject_id_requirement_is_required. Qed.
Print Assumptions c10_subject_id_requirement_is_required.

(* merging the requirement in drops nothing the requester requires and invents nothing *)
Theorem c10_required_merge_exact : forall m r,
  (In r (md_required m) -> In r (eff_required (Some m)))
  /\ (In r (eff_required (Some m)) -> In r (md_required m) \/ In r (subj_reqs m)).
Proof. intros m r. split; [apply add_subj_keeps|apply add_subj_only]. Qed.
Print Assumptions c10_required_merge_exact.

(* the requester's metadata ask for a subject identifier the user cannot supply, failing is in effect, no entity
   categories decide: an error at every entry point that reads the requester's metadata (Policy.restrict,
   Assertion.apply_policy, the Server), whatever the AttributeConsumingService says about that identifier *)
Theorem c10_subject_id_requirement_enforced : forall rmatch ectab x m r,
  i_md x = Some m ->
  (match i_entry x with ERestrict _ | EApply _ | EServer _ => True | _ => False end) ->
  ~ ec_in_force ectab (flat x) -> fail_flag (flat x) = true ->
  In r (subj_reqs m) ->
  (forall r', In r' (md_required m ++ subj_reqs m) -> reqattr_eqb r r' = true -> unsuppliable (i_ident x) r') ->
  forall out, o_out (run rmatch ectab x) <> Ok out.
Proof. exact subject_id_requirement_enforced. Qed.
Print Assumptions c10_subject_id_requirement_enforced.

(* a duplicate test by Name against everything the requester lists (required and optional) loses the requirement *)
Theorem c10_subject_id_dedup_by_name_refuted : exists m r,
  In r (subj_reqs m) /\ ~ In r (add_subj_by_name (md_required m) (md_optional m) (subj_reqs m))
  /\ In r (eff_required (Some m)).
Proof. exact dedup_by_name_refuted. Qed.
Print Assumptions c10_subject_id_dedup_by_name_refuted.
