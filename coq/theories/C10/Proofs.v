(* C10/Proofs.v *)
From Coq Require Import String Ascii List Bool Arith Lia.
From Verif Require Import Base.Str C10.Model C10.Spec.
Import ListNotations.
Open Scope string_scope.
Open Scope list_scope.

(* ================================================================ A. strings, counting, dicts *)

Lemma lower_char_eq c : lower_char c = Str.lower_char c.
Proof. destruct c as [[] [] [] [] [] [] [] []]; vm_compute; reflexivity. Qed.

Lemma lower_is_str_lower s : lower s = Str.lower s.
Proof. induction s as [|c r IH]; cbn [lower Str.lower]; [reflexivity|]. rewrite lower_char_eq, IH. reflexivity. Qed.

Lemma lower_char_idem c : lower_char (lower_char c) = lower_char c.
Proof. destruct c as [[] [] [] [] [] [] [] []]; vm_compute; reflexivity. Qed.

Lemma lower_idem s : lower (lower s) = lower s.
Proof. induction s as [|c r IH]; cbn [lower]; [reflexivity|]. rewrite lower_char_idem, IH. reflexivity. Qed.

Lemma lower_empty s : lower s = "" -> s = "".
Proof. destruct s; cbn [lower]; [reflexivity|discriminate]. Qed.

Lemma is_empty_true s : is_empty s = true <-> s = "".
Proof. destruct s; cbn; split; congruence. Qed.

Lemma is_nil_true {A} (l : list A) : is_nil l = true <-> l = [].
Proof. destruct l; cbn; split; congruence. Qed.

Lemma is_nil_false {A} (l : list A) : is_nil l = false <-> l <> [].
Proof. destruct l; cbn; split; congruence. Qed.

Lemma tr_some o s : tr o = Some s -> o = Some s /\ s <> "".
Proof.
  destruct o as [t|]; cbn [tr]; [|discriminate].
  destruct (is_empty t) eqn:E; [discriminate|]. intros H; inversion H; subst. split; [reflexivity|].
  intros ->. discriminate.
Qed.

Lemma count_app v a b : count v (a ++ b) = count v a + count v b.
Proof. induction a as [|x a IH]; cbn [count app]; [reflexivity|]. rewrite IH. lia. Qed.

Lemma count_pos v l : In v l <-> 1 <= count v l.
Proof.
  induction l as [|x l IH]; cbn [count In].
  - split; [contradiction|lia].
  - destruct (String.eqb v x) eqn:E.
    + apply String.eqb_eq in E. subst. split; [lia|auto].
    + apply String.eqb_neq in E. rewrite IH. split; [intros [H|H]; [congruence|lia]|intros H; right; lia].
Qed.

Lemma count_zero v l : ~ In v l -> count v l = 0.
Proof. intros H. destruct (count v l) eqn:E; [reflexivity|]. exfalso. apply H. apply count_pos. lia. Qed.

Lemma sub_ms_b_iff a b : sub_ms_b a b = true <-> sub_ms a b.
Proof.
  unfold sub_ms_b, sub_ms. rewrite forallb_forall. split.
  - intros H v. destruct (in_dec string_dec v a) as [Hi|Hn].
    + apply Nat.leb_le. apply H; exact Hi.
    + rewrite (count_zero v a Hn). lia.
  - intros H v _. apply Nat.leb_le. apply H.
Qed.

Lemma sub_ms_refl a : sub_ms a a.
Proof. intros v. lia. Qed.

Lemma sub_ms_trans a b c : sub_ms a b -> sub_ms b c -> sub_ms a c.
Proof. intros H1 H2 v. specialize (H1 v). specialize (H2 v). lia. Qed.

Lemma sub_ms_incl a b : sub_ms a b -> incl a b.
Proof. intros H v Hv. apply count_pos. apply count_pos in Hv. specialize (H v). lia. Qed.

(* a duplicate-free list of members is a sub-multiset *)
Lemma sub_ms_nodup a b : (forall v, count v a <= 1) -> incl a b -> sub_ms a b.
Proof.
  intros H1 H2 v. destruct (in_dec string_dec v a) as [Hi|Hn].
  - specialize (H1 v). apply H2 in Hi. apply count_pos in Hi. lia.
  - rewrite (count_zero v a Hn). lia.
Qed.

Lemma lookup_In {V} k (d : list (string * V)) v : lookup k d = Some v -> In (k, v) d.
Proof.
  induction d as [|[k' v'] r IH]; cbn [lookup]; [discriminate|].
  destruct (String.eqb k k') eqn:E.
  - apply String.eqb_eq in E. subst. intros H; inversion H; subst. left; reflexivity.
  - intros H. right. apply IH; exact H.
Qed.

Lemma In_lookup_some {V} k (d : list (string * V)) v : In (k, v) d -> exists w, lookup k d = Some w.
Proof.
  induction d as [|[k' v'] r IH]; cbn [lookup In]; [contradiction|].
  intros [H|H].
  - inversion H; subst. rewrite String.eqb_refl. eexists; reflexivity.
  - destruct (String.eqb k k'); [eexists; reflexivity|apply IH; exact H].
Qed.

Lemma has_true {V} k (d : list (string * V)) : has k d = true -> exists v, lookup k d = Some v.
Proof. unfold has. destruct (lookup k d) as [v|]; [intros _; exists v; reflexivity|discriminate]. Qed.

Lemma In_keys_has {V} k (d : list (string * V)) : In k (keys d) -> has k d = true.
Proof.
  unfold keys. rewrite in_map_iff. intros [[k' v] [E H]]. cbn in E. subst k'.
  destruct (In_lookup_some _ _ _ H) as [w Hw]. unfold has. rewrite Hw. reflexivity.
Qed.

Lemma In_set_ {V} k (v : V) d k' v' : In (k', v') (set_ k v d) -> (k' = k /\ v' = v) \/ In (k', v') d.
Proof.
  induction d as [|[k0 v0] r IH]; cbn [set_].
  - intros [H|[]]. inversion H; subst. left; split; reflexivity.
  - destruct (String.eqb k k0) eqn:E.
    + intros [H|H]; [inversion H; subst; left; split; reflexivity|right; right; exact H].
    + intros [H|H]; [right; left; exact H|]. destruct (IH H) as [H'|H']; [left; exact H'|right; right; exact H'].
Qed.

(* ================================================================ B. filter_attribute_value_assertions *)

Lemma subset_refl a : subset a a.
Proof. intros k vs H. exists vs. split; [exact H|apply sub_ms_refl]. Qed.

Lemma subset_trans a b c : subset a b -> subset b c -> subset a c.
Proof.
  intros H1 H2 k vs H. destruct (H2 k vs H) as [us [Hu Hs]]. destruct (H1 k us Hu) as [ws [Hw Hs']].
  exists ws. split; [exact Hw|]. eapply sub_ms_trans; eassumption.
Qed.

Section WithData.
  Variable rmatch : string -> string -> bool.
  Variable ectab : list (string * ecmap).

  Lemma In_dedup v l : In v (dedup l) <-> In v l.
  Proof.
    induction l as [|x r IH]; cbn [dedup]; [tauto|].
    destruct (mem x r) eqn:E.
    - rewrite IH. cbn [In]. split; [auto|]. intros [->|H]; [apply mem_In; exact E|exact H].
    - cbn [In]. rewrite IH. tauto.
  Qed.

  Lemma count_dedup v l : count v (dedup l) <= 1.
  Proof.
    induction l as [|x r IH]; cbn [dedup count]; [lia|].
    destruct (mem x r) eqn:E; [exact IH|]. cbn [count].
    destruct (String.eqb v x) eqn:Ev; [|lia].
    apply String.eqb_eq in Ev. subst x.
    assert (Hn : ~ In v (dedup r)).
    { rewrite In_dedup. intros Hi. apply mem_In in Hi. congruence. }
    rewrite (count_zero _ _ Hn). lia.
  Qed.

  Lemma In_rvals v rests vs : In v (rvals rmatch rests vs) -> In v vs /\ exists r, In r rests /\ rmatch r v = true.
  Proof.
    unfold rvals. rewrite in_flat_map. intros [r [Hr Hv]]. apply filter_In in Hv as [Hv Hm].
    split; [exact Hv|]. exists r. split; assumption.
  Qed.

  (* what an entry that survives the filter looks like *)
  Definition survives (R : restr) (k : string) (vs us : vals) : Prop :=
    (vs = us /\ lookup (lower k) R = Some None)
    \/ (exists rests, lookup (lower k) R = Some (Some rests)
         /\ (forall v, In v (held vs) -> In v (held us) /\ exists r, In r rests /\ rmatch r v = true)
         /\ forall v, count v (held vs) <= 1).

  Lemma fava_entry_spec R e k vs : In (k, vs) (fava_entry rmatch R e) -> fst e = k /\ survives R k vs (snd e).
  Proof.
    unfold fava_entry. destruct e as [k0 us]. cbn [fst snd].
    destruct (lookup (lower k0) R) as [[rests|]|] eqn:El.
    - destruct (rvals rmatch rests (held us)) as [|x rv] eqn:Er; [contradiction|].
      intros [H|[]]. apply pair_equal_spec in H as [E1 E2]. subst k vs. split; [reflexivity|]. right. exists rests.
      split; [exact El|]. rewrite <- Er. split.
      + intros v Hv. unfold held at 1 in Hv. rewrite In_dedup in Hv. apply In_rvals; exact Hv.
      + intros v. unfold held. apply count_dedup.
    - intros [H|[]]. inversion H; subst k vs. split; [reflexivity|]. left. split; [reflexivity|exact El].
    - contradiction.
  Qed.

  Lemma fava_flat_spec R a k vs :
    In (k, vs) (flat_map (fava_entry rmatch R) a) -> exists us, In (k, us) a /\ survives R k vs us.
  Proof.
    rewrite in_flat_map. intros [[k0 us] [He Hi]]. apply fava_entry_spec in Hi as [E S]. cbn in E. subst k0.
    exists us. split; [exact He|exact S].
  Qed.

  Lemma survives_sub R k vs us : survives R k vs us -> sub_ms (held vs) (held us).
  Proof.
    intros [[-> _]|[rests [_ [H1 H2]]]]; [apply sub_ms_refl|].
    apply sub_ms_nodup; [exact H2|]. intros v Hv. apply H1; exact Hv.
  Qed.

  Lemma fava_cases a R : fava rmatch a R = a \/ exists R', R = Some R' /\ R' <> [] /\ fava rmatch a R = flat_map (fava_entry rmatch R') a.
  Proof.
    destruct R as [[|e R']|]; cbn [fava]; [left; reflexivity| |left; reflexivity].
    right. exists (e :: R'). split; [reflexivity|]. split; [discriminate|reflexivity].
  Qed.

  Lemma fava_subset a R : subset a (fava rmatch a R).
  Proof.
    destruct (fava_cases a R) as [E|[R' [-> [_ E]]]]; rewrite E; [apply subset_refl|].
    intros k vs H. destruct (fava_flat_spec _ _ _ _ H) as [us [Hu S]]. exists us. split; [exact Hu|].
    eapply survives_sub; exact S.
  Qed.

  Lemma fava_ar_ok a R k vs :
    In (k, vs) (fava rmatch a R) -> ar_name_ok R k /\ forall v, In v (held vs) -> ar_value_ok rmatch R k v.
  Proof.
    destruct R as [[|e0 R']|]; cbn [fava ar_name_ok ar_value_ok]; [intros _; split; [exact I|intros; exact I]| |intros _; split; [exact I|intros; exact I]].
    intros H. destruct (fava_flat_spec _ _ _ _ H) as [us [_ S]].
    destruct S as [[_ El]|[rests [El [H1 _]]]].
    - split; [eexists; exact El|]. intros v _ rs Hrs. rewrite El in Hrs. discriminate.
    - split; [eexists; exact El|]. intros v Hv rs Hrs. rewrite El in Hrs. inversion Hrs; subst rs.
      apply H1; exact Hv.
  Qed.

  (* ================================================================ C. filter_on_attributes *)

  Lemma match_sound attr a k : match_ attr a = Some k -> has k a = true /\ lower k = lower attr.
  Proof.
    unfold match_. destruct (has attr a) eqn:E1.
    - intros H; inversion H; subst. split; [exact E1|reflexivity].
    - destruct (has (lower attr) a) eqn:E2.
      + intros H; inversion H; subst. split; [exact E2|apply lower_idem].
      + intros H. apply find_some in H as [Hi He]. apply String.eqb_eq in He.
        split; [apply In_keys_has; exact Hi|exact He].
  Qed.

  (* the code's local_name (get_local_name(..) or friendly_name or "") is the name the RequestedAttribute
     declares: what Name + NameFormat stand for, the FriendlyName only when the maps do not know the Name *)
  Lemma local_name_cases d : local_name d = "" \/ In (local_name d) (designators d).
  Proof.
    unfold local_name, designators, resolved.
    destruct (tr (ra_loc_l d)) as [l|] eqn:E1.
    - right. left; reflexivity.
    - destruct (tr (ra_friendly d)) as [f|] eqn:E2; [|left; reflexivity].
      apply tr_some in E2 as [E2 _]. rewrite E2. right. cbn. left; reflexivity.
  Qed.

  Lemma name_in_designators d : In (ra_name d) (designators d).
  Proof.
    unfold designators. destruct (resolved d) as [l|]; [right; left; reflexivity|].
    apply in_or_app; right. left; reflexivity.
  Qed.

  Lemma name_designates d : designates d (ra_name d).
  Proof. exists (ra_name d). split; [apply name_in_designators|reflexivity]. Qed.

  Lemma match_attr_name_sound d a fn :
    match_attr_name d a = Some fn -> fn <> "" /\ has fn a = true /\ designates d fn.
  Proof.
    unfold match_attr_name. intros H. apply tr_some in H as [H Hne]. split; [exact Hne|].
    unfold or_ in H. destruct (tr (match_ (local_name d) a)) as [s|] eqn:E1.
    - inversion H; subst s. apply tr_some in E1 as [E1 _]. apply match_sound in E1 as [Hh Hl].
      split; [exact Hh|]. destruct (local_name_cases d) as [E|Hi].
      + rewrite E in Hl. cbn in Hl. apply lower_empty in Hl. contradiction.
      + exists (local_name d). split; [exact Hi|symmetry; exact Hl].
    - apply match_sound in H as [Hh Hl]. split; [exact Hh|].
      exists (ra_name d). split.
      + apply name_in_designators.
      + rewrite Hl, lower_idem. reflexivity.
  Qed.

  Lemma fv_loop_In vals vlist res v :
    In v (fv_loop vals vlist res) -> In v res \/ (In v vals /\ In v vlist).
  Proof.
    revert res. induction vlist as [|x r IH]; intros res; cbn [fv_loop]; [auto|].
    intros H. apply IH in H. destruct H as [H|[H1 H2]]; [|right; split; [exact H1|right; exact H2]].
    destruct (mem x vals && negb (mem x res)) eqn:E; [|left; exact H].
    apply in_app_or in H as [H|[H|[]]]; [left; exact H|]. subst x.
    apply andb_true_iff in E as [E _]. right. split; [apply mem_In; exact E|left; reflexivity].
  Qed.

  Lemma fv_loop_count vals vlist res :
    (forall v, count v res <= 1) -> forall v, count v (fv_loop vals vlist res) <= 1.
  Proof.
    revert res. induction vlist as [|x r IH]; intros res H; cbn [fv_loop]; [exact H|]. apply IH.
    destruct (mem x vals && negb (mem x res)) eqn:E; [|exact H].
    intros v. rewrite count_app. cbn [count]. destruct (String.eqb v x) eqn:Ev.
    - apply String.eqb_eq in Ev; subst x. apply andb_true_iff in E as [_ E]. apply negb_true_iff in E.
      assert (Hn : ~ In v res) by (intros Hi; apply mem_In in Hi; congruence).
      rewrite (count_zero _ _ Hn). lia.
    - specialize (H v). lia.
  Qed.

  Lemma filter_values_spec vals vlist :
    sub_ms (filter_values vals vlist) vals
    /\ forall v, In v (filter_values vals vlist) -> vlist = [] \/ In v vlist.
  Proof.
    unfold filter_values. destruct vlist as [|x r]; [split; [apply sub_ms_refl|auto]|].
    split.
    - apply sub_ms_nodup.
      + apply fv_loop_count. intros v; cbn; lia.
      + intros v Hv. apply fv_loop_In in Hv as [[]|[Hv _]]. exact Hv.
    - intros v Hv. apply fv_loop_In in Hv as [[]|[_ Hv]]. right; exact Hv.
  Qed.

  Lemma filter_values_must_some vals vlist r :
    filter_values_must vals vlist = Some r -> vlist = [] \/ exists v, In v vlist /\ In v vals.
  Proof.
    unfold filter_values_must. destruct vlist as [|x l]; [left; reflexivity|].
    destruct (fv_loop vals (x :: l) []) as [|y t] eqn:E; [discriminate|]. intros _. right.
    assert (Hy : In y (fv_loop vals (x :: l) [])) by (rewrite E; left; reflexivity).
    apply fv_loop_In in Hy as [[]|[H1 H2]]. exists y. split; assumption.
  Qed.

  Lemma ext_spec U val : incl val U -> forall cur, sub_ms cur U ->
    sub_ms (ext cur val) U /\ forall v, In v (ext cur val) -> In v cur \/ In v val.
  Proof.
    unfold ext. induction val as [|x r IH]; intros Hi cur Hs; cbn [fold_left]; [split; [exact Hs|auto]|].
    assert (Hr : incl r U) by (intros v Hv; apply Hi; right; exact Hv).
    assert (Hx : In x U) by (apply Hi; left; reflexivity).
    destruct (mem x cur) eqn:E.
    - destruct (IH Hr cur Hs) as [H1 H2]. split; [exact H1|]. intros v Hv. destruct (H2 v Hv); [left|right; right]; assumption.
    - assert (Hn : ~ In x cur) by (intros Hc; apply mem_In in Hc; congruence).
      assert (Hs' : sub_ms (cur ++ [x]) U).
      { intros v. rewrite count_app. cbn [count]. destruct (String.eqb v x) eqn:Ev.
        - apply String.eqb_eq in Ev; subst v. rewrite (count_zero _ _ Hn). apply count_pos in Hx. lia.
        - specialize (Hs v). lia. }
      destruct (IH Hr (cur ++ [x]) Hs') as [H1 H2]. split; [exact H1|]. intros v Hv.
      destruct (H2 v Hv) as [H|H]; [|right; right; exact H].
      apply in_app_or in H as [H|[H|[]]]; [left; exact H|right; left; exact H].
  Qed.

  (* value v of attribute k is covered by a declaration in D *)
  Definition dok (D : list reqattr) (k v : string) : Prop :=
    exists d, In d D /\ designates d k /\ (ra_values d = [] \/ In v (ra_values d)).

  Definition foa_inv (a : ava) (D : list reqattr) (res : rdict) : Prop :=
    forall k l, In (k, l) res ->
      exists us, lookup k a = Some us /\ sub_ms l (held us)
                 /\ (exists d, In d D /\ designates d k) /\ forall v, In v l -> dok D k v.

  Lemma apply_avr_inv a D res d fn :
    foa_inv a D res -> In d D -> match_attr_name d a = Some fn -> foa_inv a D (fst (apply_avr a fn d res)).
  Proof.
    intros Hinv Hd Hm. apply match_attr_name_sound in Hm as [_ [Hh Hdes]].
    apply has_true in Hh as [us Hus]. unfold apply_avr. rewrite Hus. cbn [fst].
    destruct (filter_values_spec (held us) (ra_values d)) as [Hsub Hvals].
    set (val := filter_values (held us) (ra_values d)) in *.
    assert (Hdok : forall v, In v val -> dok D fn v).
    { intros v Hv. exists d. split; [exact Hd|]. split; [exact Hdes|]. apply Hvals; exact Hv. }
    destruct (lookup fn res) as [cur|] eqn:Ec.
    - intros k l Hin. apply In_set_ in Hin as [[-> ->]|Hin]; [|apply Hinv; exact Hin].
      apply lookup_In in Ec. destruct (Hinv fn cur Ec) as [us' [Hus' [Hs' [Hex Hd']]]].
      rewrite Hus in Hus'. inversion Hus'; subst us'.
      destruct (ext_spec (held us) val (sub_ms_incl _ _ Hsub) cur Hs') as [H1 H2].
      exists us. split; [exact Hus|]. split; [exact H1|]. split; [exact Hex|].
      intros v Hv. destruct (H2 v Hv) as [H|H]; [apply Hd'; exact H|apply Hdok; exact H].
    - intros k l Hin. apply in_app_or in Hin as [Hin|[Hin|[]]]; [apply Hinv; exact Hin|].
      inversion Hin; subst k l. exists us. split; [exact Hus|]. split; [exact Hsub|].
      split; [exists d; split; assumption|exact Hdok].
  Qed.

  Lemma foa_req_inv a D fail reqs : incl reqs D -> forall res res',
    foa_inv a D res -> foa_req a fail reqs res = Ok res' -> foa_inv a D res'.
  Proof.
    induction reqs as [|d r IH]; intros Hi res res' Hinv; cbn [foa_req].
    - intros H; inversion H; subst; exact Hinv.
    - assert (Hr : incl r D) by (intros x Hx; apply Hi; right; exact Hx).
      assert (Hd : In d D) by (apply Hi; left; reflexivity).
      destruct (match_attr_name d a) as [fn|] eqn:Em.
      + destruct (snd (apply_avr a fn d res)); [|discriminate].
        apply IH; [exact Hr|]. apply apply_avr_inv; assumption.
      + destruct fail; [discriminate|]. apply IH; assumption.
  Qed.

  Lemma foa_opt_inv a D opts : incl opts D -> forall res, foa_inv a D res -> foa_inv a D (foa_opt a opts res).
  Proof.
    induction opts as [|d r IH]; intros Hi res Hinv; cbn [foa_opt]; [exact Hinv|].
    assert (Hr : incl r D) by (intros x Hx; apply Hi; right; exact Hx).
    assert (Hd : In d D) by (apply Hi; left; reflexivity).
    destruct (match_attr_name d a) as [fn|] eqn:Em; [|apply IH; assumption].
    apply IH; [exact Hr|]. apply apply_avr_inv; assumption.
  Qed.

  Lemma foa_sound a req opt fail r : filter_on_attributes a req opt fail = Ok r ->
    forall k vs, In (k, vs) r ->
      exists us, In (k, us) a /\ sub_ms (held vs) (held us)
                 /\ (exists d, In d (req ++ opt) /\ designates d k)
                 /\ forall v, In v (held vs) -> dok (req ++ opt) k v.
  Proof.
    unfold filter_on_attributes. destruct (foa_req a fail req []) as [res| |] eqn:E; try discriminate.
    intros H; inversion H; subst r. clear H. intros k vs Hin.
    assert (Hinv : foa_inv a (req ++ opt) (foa_opt a opt res)).
    { apply foa_opt_inv; [apply incl_appr, incl_refl|].
      eapply foa_req_inv; [apply incl_appl, incl_refl| |exact E]. intros k' l' []. }
    unfold to_ava in Hin. apply in_map_iff in Hin as [[k' l] [Heq Hin]]. cbn in Heq. inversion Heq; subst k vs.
    destruct (Hinv k' l Hin) as [us [Hus [Hs [Hex Hd]]]].
    exists us. split; [apply lookup_In; exact Hus|]. cbn [held]. auto.
  Qed.

  (* Ok means: every required attribute was found (or failing is off) and, where values are listed,
     the matched identity attribute holds one of them *)
  Lemma foa_req_complete a fail reqs : forall res res', foa_req a fail reqs res = Ok res' ->
    forall d, In d reqs ->
      (exists fn us, match_attr_name d a = Some fn /\ lookup fn a = Some us
                     /\ (ra_values d = [] \/ exists v, In v (ra_values d) /\ In v (held us)))
      \/ (match_attr_name d a = None /\ fail = false).
  Proof.
    induction reqs as [|d0 r IH]; intros res res'; cbn [foa_req]; [intros _ d []|].
    destruct (match_attr_name d0 a) as [fn|] eqn:Em.
    - destruct (snd (apply_avr a fn d0 res)) as [m|] eqn:Es; [|discriminate].
      intros H d [->|Hd]; [|eapply IH; eassumption].
      left. pose proof Em as Em'. apply match_attr_name_sound in Em' as [_ [Hh _]].
      apply has_true in Hh as [us Hus]. exists fn, us. split; [exact Em|]. split; [exact Hus|].
      unfold apply_avr in Es. rewrite Hus in Es. cbn [snd] in Es.
      apply filter_values_must_some in Es. exact Es.
    - destruct fail eqn:Ef; [discriminate|].
      intros H d [->|Hd]; [right; split; [exact Em|reflexivity]|eapply IH; eassumption].
  Qed.

  (* ================================================================ D. sections and entity categories *)

  Lemma applicable_the_section x : applicable (f_pol x) (f_sp x) (f_ra x) = the_section x.
  Proof.
    unfold the_section, first_some, applicable, default_section, getsec, sec_named.
    destruct (f_pol x) as [l|]; cbn [map flat_map app hd_error].
    2:{ destruct (f_ra x); reflexivity. }
    destruct (lookup (f_sp x) l) as [[s|]|]; cbn [flat_map app hd_error]; try reflexivity;
      (destruct (f_ra x) as [r|]; [destruct (lookup r l) as [[s'|]|]|]); cbn [flat_map app hd_error]; try reflexivity;
      (destruct (lookup "default" l) as [[s''|]|]); cbn [flat_map app hd_error]; try reflexivity;
      try (destruct (s_bare s'')); cbn [flat_map app hd_error]; try reflexivity;
      (destruct (lookup "" l) as [[s3|]|]); reflexivity.
  Qed.

  Lemma get_ar_the_ar x : get_ar (the_section x) = the_ar x.
  Proof. reflexivity. Qed.

  Lemma eff_fail_flag x : eff_fail (f_fo x) (the_section x) = fail_flag x.
  Proof. reflexivity. Qed.

  (* since 4be62a1c Policy.get_entity_categories reads Name + NameFormat first: the declared names *)
  Lemma req_names_ok ds : req_names ds = flat_map required_name ds.
  Proof. reflexivity. Qed.

  (* before 4be62a1c (finding C10-F5) it read the label first: Spec.label_first_names *)
  Lemma req_names_v0_ok ds rn : req_names_v0 ds = Ok rn -> rn = flat_map label_first_name ds.
  Proof.
    revert rn. induction ds as [|d r IH]; intros rn; cbn [req_names_v0 flat_map].
    - intros H; inversion H; reflexivity.
    - destruct (req_name_v0 d) as [n| |] eqn:En; try discriminate.
      destruct (req_names_v0 r) as [ns| |] eqn:Er; try discriminate.
      intros H; inversion H; subst rn. rewrite <- (IH ns eq_refl).
      unfold req_name_v0 in En. unfold label_first_name. destruct (tr (ra_friendly d)) as [f|].
      + inversion En; reflexivity.
      + destruct (ra_nf d); [|discriminate]. destruct (ra_loc_r d) as [l|]; [|discriminate].
        inversion En; reflexivity.
  Qed.

  Lemma narrowed_spec req e n :
    In n (narrowed req e) <-> In n (map lower (ec_attrs e)) /\ (ec_only_required e = true -> In n req).
  Proof.
    unfold narrowed. destruct (ec_only_required e).
    - rewrite filter_In. split.
      + intros [H1 H2]. split; [exact H1|]. intros _. apply mem_In; exact H2.
      + intros [H1 H2]. split; [exact H1|]. apply mem_In. apply H2; reflexivity.
    - split; [intros H; split; [exact H|discriminate]|intros [H _]; exact H].
  Qed.

  Lemma entry_attrs_grants x e n :
    In n (entry_attrs (required_names x) (f_ecs x) e) <-> grants x e n.
  Proof.
    unfold entry_attrs, grants, key_sat, key_always. destruct (ec_key e) as [s|l].
    - destruct (is_empty s) eqn:Es.
      + apply is_empty_true in Es. subst s. split.
        * intros H. split; [left; reflexivity|]. split; [exact H|]. intros _ Hc. discriminate.
        * intros [_ [H _]]. exact H.
      + destruct (mem s (f_ecs x)) eqn:Em.
        * rewrite narrowed_spec. apply mem_In in Em. split.
          -- intros [H1 H2]. split; [right; exact Em|]. split; [exact H1|]. intros Ho _. apply H2; exact Ho.
          -- intros [_ [H1 H2]]. split; [exact H1|]. intros Ho. apply H2; [exact Ho|reflexivity].
        * split; [contradiction|]. intros [[->|Hi] _]; [discriminate|].
          apply mem_In in Hi. congruence.
    - destruct (forallb (fun x0 => mem x0 (f_ecs x)) l) eqn:Ef.
      + rewrite narrowed_spec. rewrite forallb_forall in Ef. split.
        * intros [H1 H2]. split; [intros s Hs; apply mem_In; apply Ef; exact Hs|]. split; [exact H1|].
          intros Ho _. apply H2; exact Ho.
        * intros [_ [H1 H2]]. split; [exact H1|]. intros Ho. apply H2; [exact Ho|reflexivity].
      + split; [contradiction|]. intros [Hk _]. exfalso.
        assert (Ht : forallb (fun x0 => mem x0 (f_ecs x)) l = true).
        { apply forallb_forall. intros s Hs. apply mem_In. apply Hk; exact Hs. }
        congruence.
  Qed.

  Definition resets (rn ecs : list string) (e : ecentry) : bool :=
    negb (is_nil (entry_attrs rn ecs e)) && ec_no_agg e.

  Lemma ec_fold_In rn ecs l : forall acc n, In n (fold_left (ec_step rn ecs) l acc) ->
    n = ""
    \/ (In n acc /\ forall e', In e' l -> resets rn ecs e' = false)
    \/ exists pre e post, l = pre ++ e :: post /\ In n (entry_attrs rn ecs e)
                          /\ forall e', In e' post -> resets rn ecs e' = false.
  Proof.
    induction l as [|e l IH]; intros acc n; cbn [fold_left].
    - intros H. right; left. split; [exact H|intros e' []].
    - intros H. apply IH in H. destruct H as [H|[[H Hn]|[pre [e0 [post [E [Hi Hn]]]]]]].
      + left; exact H.
      + unfold ec_step in H. fold (resets rn ecs e) in H.
        apply in_app_or in H as [H|H].
        * destruct (resets rn ecs e) eqn:Er; [contradiction|]. right; left. split; [exact H|].
          intros e' [<-|He']; [exact Er|apply Hn; exact He'].
        * apply in_app_or in H as [H|[H|[]]]; [|left; symmetry; exact H].
          right; right. exists [], e, l. split; [reflexivity|]. split; [exact H|exact Hn].
      + right; right. exists (e :: pre), e0, post. split; [rewrite E; reflexivity|]. split; assumption.
  Qed.

  Lemma ec_fold_nonempty rn ecs l : l <> [] -> forall acc, fold_left (ec_step rn ecs) l acc <> [].
  Proof.
    induction l as [|e l IH]; intros Hne acc; [contradiction|]. cbn [fold_left].
    destruct l as [|e' l'].
    - cbn [fold_left]. unfold ec_step. intros H. apply app_eq_nil in H as [_ H]. apply app_eq_nil in H as [_ H]. discriminate.
    - apply IH. discriminate.
  Qed.

  (* ecs: what Policy.filter knows about the requester's categories (None: no metadata store,
     the requester is in no category) *)
  Lemma get_ec_cases x ecs er : ecs_of ecs = f_ecs x ->
    get_ec ectab (the_section x) ecs (f_req x) = Ok er ->
    (the_entries ectab x = [] /\ er = [])
    \/ (the_entries ectab x <> []
        /\ er = fold_left (ec_step (required_names x) (f_ecs x)) (the_entries ectab x) []).
  Proof.
    intros Hecs. unfold get_ec, the_entries. destruct (the_section x) as [s|].
    2:{ intros H; inversion H. left; split; reflexivity. }
    destruct (s_ecs s) as [|n0 names] eqn:En.
    { intros H; inversion H. left; split; reflexivity. }
    fold (maps_of ectab (n0 :: names)).
    rewrite req_names_ok. fold (required_names x). rewrite Hecs.
    remember (maps_of ectab (n0 :: names)) as ents eqn:Em.
    intros H; inversion H; subst er. destruct ents as [|e l].
    - left. split; reflexivity.
    - right. split; [discriminate|reflexivity].
  Qed.

  Lemma lookup_names_restr n l o : lookup n (names_restr l) = Some o -> In n l.
  Proof.
    unfold names_restr. induction l as [|m l IH]; cbn [map lookup]; [discriminate|].
    destruct (String.eqb n m) eqn:E; [apply String.eqb_eq in E; subst; left; reflexivity|].
    intros H. right. apply IH; exact H.
  Qed.

  (* every name that passes the entity-category stage is granted by the categories *)
  Lemma ec_stage x k us :
    the_entries ectab x <> [] -> ~ In "" (keys (f_ident x)) ->
    In (k, us) (fava rmatch (f_ident x)
                 (Some (names_restr (fold_left (ec_step (required_names x) (f_ecs x)) (the_entries ectab x) [])))) ->
    ec_name_ok ectab x k.
  Proof.
    intros Hne Hwf Hin.
    set (er := fold_left (ec_step (required_names x) (f_ecs x)) (the_entries ectab x) []) in *.
    assert (Her : er <> []) by (apply ec_fold_nonempty; exact Hne).
    assert (Hnr : names_restr er <> []) by (destruct er; [contradiction|discriminate]).
    destruct (names_restr er) as [|p R'] eqn:En; [contradiction|].
    cbn [fava] in Hin. rewrite <- En in Hin.
    destruct (fava_flat_spec _ _ _ _ Hin) as [us0 [Hu S]].
    assert (Hl : exists o, lookup (lower k) (names_restr er) = Some o).
    { destruct S as [[_ El]|[rests [El _]]]; eexists; exact El. }
    destruct Hl as [o Hl]. apply lookup_names_restr in Hl.
    apply ec_fold_In in Hl. destruct Hl as [Hl|[[[] _]|[pre [e [post [Ee [Hi Hn]]]]]]].
    - exfalso. apply lower_empty in Hl. subst k. apply Hwf. unfold keys. apply in_map_iff.
      exists ("", us0). split; [reflexivity|exact Hu].
    - exists pre, e, post. split; [exact Ee|]. split; [apply entry_attrs_grants; exact Hi|].
      intros e' He' Hna n Hg. apply entry_attrs_grants in Hg. specialize (Hn e' He'). unfold resets in Hn.
      rewrite Hna, andb_true_r in Hn. apply negb_false_iff in Hn. apply is_nil_true in Hn. rewrite Hn in Hg. contradiction.
  Qed.

  (* ================================================================ F. Policy.filter and the entry points *)

  (* Policy.filter on the situation x; ecs = what the store says about the requester's categories,
     fo = the fail_on_missing argument *)
  Definition pfilter_of (x : finput) (ecs : option (list string)) (fo : option bool) : result ava :=
    pfilter rmatch ectab (f_ident x) (f_pol x) (f_sp x) ecs (f_ra x) (f_req x) (f_opt x) fo.

  (* fl = the flag filter_on_attributes is run with; it is on whenever failing is in effect *)
  Lemma foa_stage x fl r1 : the_entries ectab x = [] -> (fail_flag x = true -> fl = true) ->
    filter_on_attributes (f_ident x) (f_req x) (f_opt x) fl = Ok r1 ->
    subset (f_ident x) r1
    /\ (forall k us, In (k, us) r1 -> decl_name_ok x k /\ forall v, In v (held us) -> decl_value_ok x k v)
    /\ ~ must_fail ectab x.
  Proof.
    intros He Hfl Hf. split; [|split].
    - intros k vs Hin. destruct (foa_sound _ _ _ _ _ Hf k vs Hin) as [us [Hu [Hs _]]]. exists us; split; assumption.
    - intros k us Hin. destruct (foa_sound _ _ _ _ _ Hf k us Hin) as [us0 [_ [_ [Hex Hd]]]].
      split; [exact Hex|exact Hd].
    - intros [_ [Hff [d [Hd Hu]]]]. specialize (Hfl Hff). subst fl.
      unfold filter_on_attributes in Hf.
      destruct (foa_req (f_ident x) true (f_req x) []) as [res| |] eqn:E; try discriminate.
      destruct (foa_req_complete _ _ _ _ _ E d Hd) as [[fn [us [Hm [Hl Hv]]]]|[_ Hfalse]].
      + apply match_attr_name_sound in Hm as [_ [_ Hdes]]. apply lookup_In in Hl.
        destruct (Hu fn us Hl Hdes) as [Hne Hnone].
        destruct Hv as [Hv|[v [Hv1 Hv2]]]; [contradiction|]. exact (Hnone v Hv1 Hv2).
      + discriminate Hfalse.
  Qed.

  Lemma assemble x r1 :
    subset (f_ident x) r1 ->
    (ec_in_force ectab x -> forall k us, In (k, us) r1 -> ec_name_ok ectab x k) ->
    (~ ec_in_force ectab x -> declared x <> [] -> forall k us, In (k, us) r1 ->
       decl_name_ok x k /\ forall v, In v (held us) -> decl_value_ok x k v) ->
    ~ must_fail ectab x ->
    released_ok rmatch ectab x (fava rmatch r1 (the_ar x)).
  Proof.
    intros Hs Hec Hd Hmf. split; [eapply subset_trans; [exact Hs|apply fava_subset]|]. split; [|exact Hmf].
    intros k vs Hin. destruct (fava_ar_ok _ _ _ _ Hin) as [Hn Hv].
    destruct (fava_subset r1 (the_ar x) k vs Hin) as [us [Hu Hsub]].
    split; [exact Hn|]. split; [intros Hf; eapply Hec; eassumption|]. split.
    - intros Hf Hdn. exact (proj1 (Hd Hf Hdn k us Hu)).
    - intros v Hv'. split; [apply Hv; exact Hv'|]. intros Hf Hdn.
      apply (proj2 (Hd Hf Hdn k us Hu)). apply (sub_ms_incl _ _ Hsub); exact Hv'.
  Qed.

  Lemma Ok_inj {A : Type} (a b : A) : Ok a = Ok b -> a = b.
  Proof. intros H; inversion H; reflexivity. Qed.

  Lemma match_nonempty {A B : Type} (l : list A) (a b : B) :
    l <> [] -> match l with _ :: _ => a | [] => b end = a.
  Proof. destruct l; [contradiction|reflexivity]. Qed.

  (* what ANY pass of Policy.filter lets through obeys the property, provided the pass fails on
     missing attributes whenever failing is in effect *)
  Lemma pfilter_released_ok x ecs fo r :
    ecs_of ecs = f_ecs x ->
    (fail_flag x = true -> eff_fail fo (the_section x) = true) ->
    (the_entries ectab x <> [] -> ~ In "" (keys (f_ident x))) ->
    pfilter_of x ecs fo = Ok r -> released_ok rmatch ectab x r.
  Proof.
    intros Hecs Hfl Hwf. unfold pfilter_of, pfilter. rewrite applicable_the_section.
    destruct (get_ec ectab (the_section x) ecs (f_req x)) as [er| |] eqn:Eg; try discriminate.
    apply (get_ec_cases x ecs er Hecs) in Eg. rewrite get_ar_the_ar.
    destruct Eg as [[Hent ->]|[Hent ->]].
    - (* no entity categories in force *)
      destruct (is_nil (f_req x) && is_nil (f_opt x)) eqn:Enil.
      + intros H; inversion H; subst r. apply assemble.
        * apply subset_refl.
        * intros Hf. exfalso. apply Hf; exact Hent.
        * intros _ Hdn. exfalso. apply Hdn. apply andb_true_iff in Enil as [E1 E2].
          apply is_nil_true in E1, E2. unfold declared. rewrite E1, E2. reflexivity.
        * intros [_ [_ [d [Hd _]]]]. apply andb_true_iff in Enil as [E1 _]. apply is_nil_true in E1.
          rewrite E1 in Hd. contradiction.
      + destruct (filter_on_attributes (f_ident x) (f_req x) (f_opt x) (eff_fail fo (the_section x))) as [r1| |] eqn:Ef; try discriminate.
        intros H; inversion H; subst r. destruct (foa_stage x _ r1 Hent Hfl Ef) as [H1 [H2 H3]]. apply assemble.
        * exact H1.
        * intros Hf. exfalso. apply Hf; exact Hent.
        * intros _ _. exact H2.
        * exact H3.
    - (* entity categories decide *)
      rewrite match_nonempty by (apply ec_fold_nonempty; exact Hent).
      intros H; apply Ok_inj in H; subst r. apply assemble.
      + apply fava_subset.
      + intros _ k us Hin. eapply ec_stage; [exact Hent|apply Hwf; exact Hent|exact Hin].
      + intros Hf. exfalso. apply Hf. exact Hent.
      + intros [Hf _]. apply Hf. exact Hent.
  Qed.

  (* the sub-multiset part needs no hypothesis at all *)
  Lemma pfilter_subset a p sp ecs ra req opt fo r :
    pfilter rmatch ectab a p sp ecs ra req opt fo = Ok r -> subset a r.
  Proof.
    unfold pfilter. destruct (get_ec ectab (applicable p sp ra) ecs req) as [er| |]; try discriminate.
    destruct er as [|n0 er'].
    - destruct (is_nil req && is_nil opt).
      + intros H; apply Ok_inj in H; subst r. apply fava_subset.
      + destruct (filter_on_attributes a req opt (eff_fail fo (applicable p sp ra))) as [r1| |] eqn:Ef; try discriminate.
        intros H; apply Ok_inj in H; subst r. eapply subset_trans; [|apply fava_subset].
        intros k vs Hin. destruct (foa_sound _ _ _ _ _ Ef k vs Hin) as [us [Hu [Hs _]]]. exists us; split; assumption.
    - intros H; apply Ok_inj in H; subst r. eapply subset_trans; apply fava_subset.
  Qed.

  Lemma released_ok_mono x r r' :
    released_ok rmatch ectab x r -> (forall e, In e r' -> In e r) -> released_ok rmatch ectab x r'.
  Proof.
    intros [H1 [H2 H3]] Hi. split; [|split; [|exact H3]].
    - intros k vs Hin. apply H1. apply Hi; exact Hin.
    - intros k vs Hin. apply H2. apply Hi; exact Hin.
  Qed.

  Lemma self_after_In a out e : In e (self_after a (Ok out)) -> In e out.
  Proof.
    unfold self_after. rewrite in_flat_map. intros [e0 [_ H]].
    destruct (lookup (fst e0) out) as [v|] eqn:El; [|contradiction].
    destruct H as [<-|[]]. apply lookup_In; exact El.
  Qed.

  Lemma subset_mono a r r' : subset a r -> (forall e, In e r' -> In e r) -> subset a r'.
  Proof. intros H Hi k vs Hin. apply H. apply Hi; exact Hin. Qed.

  Lemma ecs_of_md x req opt fo : ecs_of (eff_ecs (i_md x)) = f_ecs (of_md x req opt fo).
  Proof. unfold of_md, eff_ecs, ecs_of. cbn. destruct (i_md x); reflexivity. Qed.

  (* one pass of Policy.filter (argument fo) seen from the situation of_md x req opt fo' *)
  Lemma of_md_released_ok x req opt fo fo' r :
    (fail_flag (of_md x req opt fo') = true -> eff_fail fo (the_section (of_md x req opt fo')) = true) ->
    (the_entries ectab (of_md x req opt fo') <> [] -> ~ In "" (keys (i_ident x))) ->
    pfilter rmatch ectab (i_ident x) (i_pol x) (i_sp x) (eff_ecs (i_md x)) (eff_ra (i_md x)) req opt fo = Ok r ->
    released_ok rmatch ectab (of_md x req opt fo') r.
  Proof.
    intros Hfl Hwf Hf. apply (pfilter_released_ok _ (eff_ecs (i_md x)) fo);
      [apply ecs_of_md|exact Hfl|exact Hwf|exact Hf].
  Qed.

  Lemma f_ident_flat x : f_ident (flat x) = i_ident x.
  Proof. unfold flat. destruct (i_entry x) as [? ? ?|? ? ?|?|?|?]; reflexivity. Qed.

  Lemma wf_true x : wf ectab x = true -> the_entries ectab (flat x) <> [] -> ~ In "" (keys (i_ident x)).
  Proof.
    unfold wf. intros H Hne. apply is_nil_false in Hne. rewrite Hne in H. cbn in H.
    apply negb_true_iff in H. intros Hi. apply mem_In in Hi. congruence.
  Qed.

  Lemma guard_no_ec x : the_entries ectab (flat x) = [] -> guard ectab x = true.
  Proof. intros He. unfold guard, wf. rewrite He. reflexivity. Qed.

  (* the released attributes of every entry point *)
  Lemma entry_released_ok x r :
    wf ectab x = true -> o_out (run rmatch ectab x) = Ok r -> released_ok rmatch ectab (flat x) r.
  Proof.
    intros Hw. pose proof (wf_true x Hw) as Hwf.
    unfold run. unfold flat in *. destruct (i_entry x) as [fail req opt|req opt fo|fo|fo|be] eqn:Ee; cbn [o_out].
    - (* filter_on_attributes *)
      intros Hf.
      set (fx := {| f_ident := i_ident x; f_pol := foa_policy fail; f_sp := "default"; f_mds := false;
                    f_ecs := []; f_ra := None; f_req := req; f_opt := opt; f_fo := None |}) in *.
      assert (Hent : the_entries ectab fx = []) by reflexivity.
      assert (Hff : fail_flag fx = fail) by reflexivity.
      assert (Har : the_ar fx = None) by reflexivity.
      change (filter_on_attributes (f_ident fx) (f_req fx) (f_opt fx) fail = Ok r) in Hf.
      assert (Hfl : fail_flag fx = true -> fail = true) by (rewrite Hff; auto).
      destruct (foa_stage fx fail r Hent Hfl Hf) as [H1 [H2 H3]].
      change r with (fava rmatch r None). rewrite <- Har. apply assemble.
      + exact H1.
      + intros Hc. exfalso. apply Hc; exact Hent.
      + intros _ _. exact H2.
      + exact H3.
    - intros Hf. apply (of_md_released_ok x req opt fo fo r); [intros H; exact H|exact Hwf|exact Hf].
    - intros Hf. apply (of_md_released_ok x _ _ fo fo r); [intros H; exact H|exact Hwf|exact Hf].
    - intros Hf. apply (of_md_released_ok x _ _ fo fo r); [intros H; exact H|exact Hwf|exact Hf].
    - (* Server: the first pass, or (best effort) the second pass with fail_on_missing=False *)
      intros Hf. unfold authn_response, setup_assertion in Hf.
      destruct (restrict rmatch ectab (i_ident x) (i_pol x) (i_sp x) (i_md x) None) as [out| |] eqn:Er; try discriminate.
      + inversion Hf; subst r.
        eapply released_ok_mono; [|intros e; apply self_after_In].
        apply (of_md_released_ok x _ _ None _ out); [|exact Hwf|exact Er].
        destruct be; [intros H; cbn in H; discriminate H|intros H; exact H].
      + destruct be; [|discriminate].
        destruct (restrict rmatch ectab (i_ident x) (i_pol x) (i_sp x) (i_md x) (Some false)) as [out| |] eqn:Er2; try discriminate.
        inversion Hf; subst r.
        eapply released_ok_mono; [|intros e; apply self_after_In].
        apply (of_md_released_ok x _ _ (Some false) _ out); [|exact Hwf|exact Er2].
        intros H; cbn in H; discriminate H.
  Qed.

  Lemma caller_unchanged x : o_caller (run rmatch ectab x) = i_ident x.
  Proof. unfold run. destruct (i_entry x); reflexivity. Qed.

  Lemma o_self_cases x : match o_self (run rmatch ectab x) with
                         | Some s => s = self_after (i_ident x) (o_out (run rmatch ectab x))
                         | None => True
                         end.
  Proof. unfold run. destruct (i_entry x); cbn; auto. Qed.

  (* main theorem: the model satisfies the property, for every identity, policy, requester
     metadata, regex matcher, category table and entry point (guard = the input assumption wf) *)
  Lemma run_spec x : guard ectab x = true -> spec rmatch ectab (flat x) (run rmatch ectab x).
  Proof.
    unfold guard. intros Hw. unfold spec. split; [rewrite caller_unchanged, f_ident_flat; reflexivity|].
    destruct (o_out (run rmatch ectab x)) as [r| |] eqn:Eo; [|exact I|exact I].
    assert (Hr : released_ok rmatch ectab (flat x) r).
    { apply entry_released_ok; [exact Hw|exact Eo]. }
    split; [exact Hr|].
    pose proof (o_self_cases x) as Hs. destruct (o_self (run rmatch ectab x)) as [s|]; [|exact I].
    rewrite Hs, Eo. eapply released_ok_mono; [exact Hr|]. intros e. apply self_after_In.
  Qed.

  (* (1) of the property holds with no hypothesis whatsoever *)
  Lemma release_subset x r : o_out (run rmatch ectab x) = Ok r -> subset (i_ident x) r.
  Proof.
    unfold run. destruct (i_entry x) as [fail req opt|req opt fo|fo|fo|be]; cbn [o_out].
    - intros Hf k vs Hin. destruct (foa_sound _ _ _ _ _ Hf k vs Hin) as [us [Hu [Hs _]]]. exists us; split; assumption.
    - apply pfilter_subset.
    - apply pfilter_subset.
    - apply pfilter_subset.
    - unfold authn_response, setup_assertion.
      destruct (restrict rmatch ectab (i_ident x) (i_pol x) (i_sp x) (i_md x) None) as [out| |] eqn:Er; try discriminate.
      + intros H; inversion H. eapply subset_mono; [eapply pfilter_subset; exact Er|]. intros e. apply self_after_In.
      + destruct be; [|discriminate].
        destruct (restrict rmatch ectab (i_ident x) (i_pol x) (i_sp x) (i_md x) (Some false)) as [out| |] eqn:Er2; try discriminate.
        intros H; inversion H. eapply subset_mono; [eapply pfilter_subset; exact Er2|]. intros e. apply self_after_In.
  Qed.

  (* (5): a required attribute that cannot be supplied while failing is in effect is an error at
     EVERY entry point - at the Server (best_effort false) an error response, never an assertion.
     No wf hypothesis: must_fail says that no entity categories are in force. *)
  Lemma missing_required_is_error x :
    must_fail ectab (flat x) -> forall r, o_out (run rmatch ectab x) <> Ok r.
  Proof.
    intros Hmf r Ho. pose proof Hmf as [Hnf _].
    assert (Hent : the_entries ectab (flat x) = []).
    { destruct (the_entries ectab (flat x)) eqn:E; [reflexivity|]. exfalso. apply Hnf. unfold ec_in_force. rewrite E. discriminate. }
    assert (Hr : released_ok rmatch ectab (flat x) r).
    { apply entry_released_ok; [|exact Ho]. apply guard_no_ec. exact Hent. }
    destruct Hr as [_ [_ Hn]]. exact (Hn Hmf).
  Qed.

  (* what the Server puts into the assertion is always the outcome of a pass of the policy over the
     identity - the first one, or with best_effort the one that does not fail on missing
     attributes - cut down to the identity's keys; never the identity itself *)
  Lemma server_release_is_policy_output x be r :
    i_entry x = EServer be -> o_out (run rmatch ectab x) = Ok r ->
    exists fo out, restrict rmatch ectab (i_ident x) (i_pol x) (i_sp x) (i_md x) fo = Ok out
                   /\ (fo = None \/ (be = true /\ fo = Some false))
                   /\ r = self_after (i_ident x) (Ok out).
  Proof.
    intros Ee. unfold run. rewrite Ee. cbn [o_out]. unfold authn_response, setup_assertion.
    destruct (restrict rmatch ectab (i_ident x) (i_pol x) (i_sp x) (i_md x) None) as [out| |] eqn:Er; try discriminate.
    - intros H; inversion H. exists None, out. split; [exact Er|]. split; [left; reflexivity|reflexivity].
    - destruct be; [|discriminate].
      destruct (restrict rmatch ectab (i_ident x) (i_pol x) (i_sp x) (i_md x) (Some false)) as [out| |] eqn:Er2; try discriminate.
      intros H; inversion H. exists (Some false), out. split; [exact Er2|]. split; [right; split; reflexivity|reflexivity].
  Qed.
End WithData.

(* ================================================================ G. the boolean spec IS the spec *)
Section Reflect.
  Variable rmatch : string -> string -> bool.
  Variable ectab : list (string * ecmap).

  Lemma vals_exact_eqb_eq a b : vals_exact_eqb a b = true <-> a = b.
  Proof.
    destruct a as [s|l], b as [t|m]; cbn [vals_exact_eqb]; try (split; discriminate).
    - rewrite String.eqb_eq. split; [intros ->; reflexivity|intros H; inversion H; reflexivity].
    - rewrite (list_eqb_eq String.eqb String.eqb_eq). split; [intros ->; reflexivity|intros H; inversion H; reflexivity].
  Qed.

  Lemma ava_exact_eqb_eq a b : ava_exact_eqb a b = true <-> a = b.
  Proof.
    unfold ava_exact_eqb. apply list_eqb_eq. intros [k v] [k' v']. cbn [fst snd].
    rewrite andb_true_iff, String.eqb_eq, vals_exact_eqb_eq.
    split; [intros [-> ->]; reflexivity|intros H; inversion H; auto].
  Qed.

  Lemma subset_b_iff ident r : subset_b ident r = true <-> subset ident r.
  Proof.
    unfold subset_b, subset. rewrite forallb_forall. split.
    - intros H k vs Hin. specialize (H (k, vs) Hin). apply existsb_exists in H as [[k' us] [Hu Hb]].
      cbn [fst snd] in Hb. apply andb_true_iff in Hb as [E S]. apply String.eqb_eq in E. subst k'.
      exists us. split; [exact Hu|apply sub_ms_b_iff; exact S].
    - intros H [k vs] Hin. destruct (H k vs Hin) as [us [Hu S]]. apply existsb_exists. exists (k, us).
      split; [exact Hu|]. cbn [fst snd]. rewrite String.eqb_refl. apply sub_ms_b_iff in S. rewrite S. reflexivity.
  Qed.

  Lemma ar_name_ok_b_iff R k : ar_name_ok_b R k = true <-> ar_name_ok R k.
  Proof.
    destruct R as [[|e R']|]; cbn [ar_name_ok_b ar_name_ok]; try (split; [intros _; exact I|reflexivity]).
    destruct (lookup (lower k) (e :: R')) as [rs|]; split; try discriminate; eauto. intros [rs H]; discriminate.
  Qed.

  Lemma ar_value_ok_b_iff R k v : ar_value_ok_b rmatch R k v = true <-> ar_value_ok rmatch R k v.
  Proof.
    destruct R as [[|e R']|]; cbn [ar_value_ok_b ar_value_ok]; try (split; [intros _; exact I|reflexivity]).
    destruct (lookup (lower k) (e :: R')) as [[rs|]|].
    - rewrite existsb_exists. split.
      + intros [r [H1 H2]] rs' E. inversion E; subst rs'. exists r; split; assumption.
      + intros H. destruct (H rs eq_refl) as [r [H1 H2]]. exists r; split; assumption.
    - split; [intros _ rs E; discriminate|reflexivity].
    - split; [intros _ rs E; discriminate|reflexivity].
  Qed.

  Lemma designates_b_iff d k : designates_b d k = true <-> designates d k.
  Proof.
    unfold designates_b, designates. rewrite existsb_exists.
    split; intros [n [H1 H2]]; exists n; (split; [exact H1|]); apply String.eqb_eq; exact H2.
  Qed.

  Lemma decl_name_ok_b_iff x k : decl_name_ok_b x k = true <-> decl_name_ok x k.
  Proof.
    unfold decl_name_ok_b, decl_name_ok. rewrite existsb_exists.
    split; intros [d [H1 H2]]; exists d; (split; [exact H1|]); apply designates_b_iff; exact H2.
  Qed.

  Lemma decl_value_ok_b_iff x k v : decl_value_ok_b x k v = true <-> decl_value_ok x k v.
  Proof.
    unfold decl_value_ok_b, decl_value_ok. rewrite existsb_exists. split.
    - intros [d [H1 H2]]. apply andb_true_iff in H2 as [H2 H3]. exists d. split; [exact H1|].
      split; [apply designates_b_iff; exact H2|]. apply orb_true_iff in H3 as [H3|H3].
      + left. apply is_nil_true; exact H3.
      + right. apply mem_In; exact H3.
    - intros [d [H1 [H2 H3]]]. exists d. split; [exact H1|]. apply andb_true_iff. split; [apply designates_b_iff; exact H2|].
      apply orb_true_iff. destruct H3 as [H3|H3]; [left; apply is_nil_true; exact H3|right; apply mem_In; exact H3].
  Qed.

  Lemma key_sat_b_iff ecs k : key_sat_b ecs k = true <-> key_sat ecs k.
  Proof.
    destruct k as [s|l]; cbn [key_sat_b key_sat].
    - rewrite orb_true_iff, is_empty_true, mem_In. tauto.
    - rewrite forallb_forall. split; intros H s Hs; apply mem_In; apply H; exact Hs.
  Qed.

  Lemma grants_b_iff x e n : grants_b x e n = true <-> grants x e n.
  Proof.
    unfold grants_b, grants. rewrite !andb_true_iff, key_sat_b_iff, mem_In.
    assert (H : negb (ec_only_required e) || key_always (ec_key e) || mem n (required_names x) = true
                <-> (ec_only_required e = true -> key_always (ec_key e) = false -> In n (required_names x))).
    { destruct (ec_only_required e), (key_always (ec_key e)); cbn [negb orb].
      - split; [intros _ _ Hc; discriminate|reflexivity].
      - rewrite mem_In. split; [intros H _ _; exact H|intros H; apply H; reflexivity].
      - split; [intros _ Hc; discriminate|reflexivity].
      - split; [intros _ Hc; discriminate|reflexivity]. }
    rewrite H. tauto.
  Qed.

  Lemma grants_any_b_iff x e : grants_any_b x e = true <-> exists n, grants x e n.
  Proof.
    unfold grants_any_b. rewrite existsb_exists. split.
    - intros [n [_ H]]. exists n. apply grants_b_iff; exact H.
    - intros [n H]. exists n. split; [apply H|apply grants_b_iff; exact H].
  Qed.

  Lemma ec_scan_iff x n l : ec_scan x n l = true <->
    exists pre e post, l = pre ++ e :: post /\ grants x e n
                       /\ forall e', In e' post -> ec_no_agg e' = true -> forall m, ~ grants x e' m.
  Proof.
    induction l as [|e l IH]; cbn [ec_scan].
    - split; [discriminate|]. intros [pre [e [post [E _]]]]. destruct pre; discriminate.
    - rewrite orb_true_iff, andb_true_iff, grants_b_iff, forallb_forall, IH. split.
      + intros [[Hg Hf]|[pre [e0 [post [E [Hg Hn]]]]]].
        * exists [], e, l. split; [reflexivity|]. split; [exact Hg|]. intros e' He' Hna m Hm.
          specialize (Hf e' He'). rewrite Hna in Hf. cbn in Hf. apply negb_true_iff in Hf.
          assert (Ht : grants_any_b x e' = true) by (apply grants_any_b_iff; exists m; exact Hm). congruence.
        * exists (e :: pre), e0, post. split; [rewrite E; reflexivity|]. split; assumption.
      + intros [pre [e0 [post [E [Hg Hn]]]]]. destruct pre as [|p pre].
        * cbn in E. inversion E; subst e0 post. left. split; [exact Hg|]. intros e' He'.
          destruct (ec_no_agg e') eqn:Hna; [|reflexivity]. cbn. apply negb_true_iff.
          destruct (grants_any_b x e') eqn:Ha; [|reflexivity]. apply grants_any_b_iff in Ha as [m Hm].
          exfalso. exact (Hn e' He' Hna m Hm).
        * cbn in E. inversion E; subst p l. right. exists pre, e0, post. split; [reflexivity|]. split; assumption.
  Qed.

  Lemma ec_name_ok_b_iff x k : ec_name_ok_b ectab x k = true <-> ec_name_ok ectab x k.
  Proof. unfold ec_name_ok_b, ec_name_ok. apply ec_scan_iff. Qed.

  Lemma unsuppliable_b_iff ident d : unsuppliable_b ident d = true <-> unsuppliable ident d.
  Proof.
    unfold unsuppliable_b, unsuppliable. rewrite forallb_forall. split.
    - intros H k us Hin Hd. specialize (H (k, us) Hin). cbn [fst snd] in H.
      apply designates_b_iff in Hd. rewrite Hd in H. cbn in H. apply andb_true_iff in H as [H1 H2].
      split.
      + apply negb_true_iff in H1. apply is_nil_false; exact H1.
      + intros v Hv Hh. rewrite forallb_forall in H2. specialize (H2 v Hv). apply negb_true_iff in H2.
        apply mem_In in Hh. congruence.
    - intros H [k us] Hin. cbn [fst snd]. destruct (designates_b d k) eqn:Ed; [|reflexivity]. cbn.
      apply designates_b_iff in Ed. destruct (H k us Hin Ed) as [H1 H2]. apply andb_true_iff. split.
      + apply negb_true_iff. apply is_nil_false; exact H1.
      + apply forallb_forall. intros v Hv. apply negb_true_iff. destruct (mem v (held us)) eqn:Em; [|reflexivity].
        apply mem_In in Em. exfalso. exact (H2 v Hv Em).
  Qed.

  Lemma ecf_iff x : negb (is_nil (the_entries ectab x)) = true <-> ec_in_force ectab x.
  Proof. unfold ec_in_force. rewrite negb_true_iff. apply is_nil_false. Qed.

  Lemma must_fail_b_iff x : must_fail_b ectab x = true <-> must_fail ectab x.
  Proof.
    unfold must_fail_b, must_fail. rewrite !andb_true_iff, existsb_exists. split.
    - intros [[H1 H2] [d [H3 H4]]]. split; [intros Hc; apply Hc; apply is_nil_true; exact H1|].
      split; [exact H2|]. exists d. split; [exact H3|apply unsuppliable_b_iff; exact H4].
    - intros [H1 [H2 [d [H3 H4]]]]. split; [split; [|exact H2]|].
      + destruct (is_nil (the_entries ectab x)) eqn:E; [reflexivity|]. exfalso. apply H1. apply is_nil_false; exact E.
      + exists d. split; [exact H3|apply unsuppliable_b_iff; exact H4].
  Qed.

  Lemma dcl_iff x : negb (is_nil (declared x)) = true <-> declared x <> [].
  Proof. rewrite negb_true_iff. apply is_nil_false. Qed.

  (* P -> Q as a boolean: negb p || q *)
  Lemma impl_b (p q : bool) (P Q : Prop) : (p = true <-> P) -> (q = true <-> Q) -> (negb p || q = true <-> (P -> Q)).
  Proof.
    intros HP HQ. destruct p, q; cbn [negb orb]; intuition congruence.
  Qed.

  Lemma not_ecf_decl x (q : bool) (Q : Prop) : (q = true <-> Q) ->
    (negb (is_nil (the_entries ectab x)) || negb (negb (is_nil (declared x))) || q = true
     <-> (~ ec_in_force ectab x -> declared x <> [] -> Q)).
  Proof.
    intros [H1 H2]. pose proof (ecf_iff x) as [E1 E2]. pose proof (dcl_iff x) as [D1 D2].
    destruct (negb (is_nil (the_entries ectab x))) eqn:Ee; cbn [orb].
    - split; [intros _ Hn; exfalso; apply Hn; apply E1; reflexivity|reflexivity].
    - destruct (negb (is_nil (declared x))) eqn:Ed; cbn [negb orb].
      + split.
        * intros Hq _ _. apply H1; exact Hq.
        * intros H. apply H2. apply H; [intros Hc; apply E2 in Hc; discriminate|apply D1; reflexivity].
      + split; [|reflexivity]. intros _ _ Hd. apply D2 in Hd. discriminate.
  Qed.

  Lemma entry_ok_b_iff x k vs : entry_ok_b rmatch ectab x k vs = true <-> entry_ok rmatch ectab x k vs.
  Proof.
    unfold entry_ok_b, entry_ok. rewrite !andb_true_iff, ar_name_ok_b_iff, forallb_forall.
    rewrite (impl_b _ _ _ _ (ecf_iff x) (ec_name_ok_b_iff x k)).
    rewrite (not_ecf_decl x _ _ (decl_name_ok_b_iff x k)).
    assert (Hv : (forall v, In v (held vs) ->
                   ar_value_ok_b rmatch (the_ar x) k v
                   && (negb (is_nil (the_entries ectab x)) || negb (negb (is_nil (declared x))) || decl_value_ok_b x k v) = true)
                 <-> (forall v, In v (held vs) ->
                        ar_value_ok rmatch (the_ar x) k v
                        /\ (~ ec_in_force ectab x -> declared x <> [] -> decl_value_ok x k v))).
    { split; intros H v Hin; specialize (H v Hin).
      - apply andb_true_iff in H as [H1 H2]. split; [apply ar_value_ok_b_iff; exact H1|].
        apply (not_ecf_decl x _ _ (decl_value_ok_b_iff x k v)); exact H2.
      - destruct H as [H1 H2]. apply andb_true_iff. split; [apply ar_value_ok_b_iff; exact H1|].
        apply (not_ecf_decl x _ _ (decl_value_ok_b_iff x k v)); exact H2. }
    rewrite Hv. tauto.
  Qed.

  Lemma released_ok_b_iff x r : released_ok_b rmatch ectab x r = true <-> released_ok rmatch ectab x r.
  Proof.
    unfold released_ok_b, released_ok, allowed. rewrite !andb_true_iff, subset_b_iff, forallb_forall, negb_true_iff.
    assert (Hm : must_fail_b ectab x = false <-> ~ must_fail ectab x).
    { rewrite <- must_fail_b_iff. destruct (must_fail_b ectab x); split; congruence. }
    rewrite Hm.
    assert (Ha : (forall e, In e r -> entry_ok_b rmatch ectab x (fst e) (snd e) = true)
                 <-> (forall k vs, In (k, vs) r -> entry_ok rmatch ectab x k vs)).
    { split.
      - intros H k vs Hin. apply entry_ok_b_iff. exact (H (k, vs) Hin).
      - intros H [k vs] Hin. apply entry_ok_b_iff. apply H; exact Hin. }
    rewrite Ha. tauto.
  Qed.

  Lemma spec_fb_iff x o : spec_fb rmatch ectab x o = true <-> spec rmatch ectab x o.
  Proof.
    unfold spec_fb, spec. rewrite andb_true_iff, ava_exact_eqb_eq.
    destruct (o_out o) as [r| |]; [|tauto|tauto].
    rewrite andb_true_iff, released_ok_b_iff. destruct (o_self o) as [s|]; [rewrite released_ok_b_iff|]; tauto.
  Qed.

  Lemma spec_b_iff x o : spec_b rmatch ectab x o = true <-> spec rmatch ectab (flat x) o.
  Proof. apply spec_fb_iff. Qed.
End Reflect.

(* ================================================================ H. corollaries, refutations, non-vacuity *)
Section Corollaries.
  Variable rmatch : string -> string -> bool.
  Variable ectab : list (string * ecmap).

  Lemma release_allowed x r : guard ectab x = true ->
    o_out (run rmatch ectab x) = Ok r -> allowed rmatch ectab (flat x) r.
  Proof.
    intros Hg Ho. destruct (run_spec rmatch ectab x Hg) as [_ H]. rewrite Ho in H. destruct H as [[_ [H _]] _]. exact H.
  Qed.

  Lemma policy_level_holds x : (forall be, i_entry x <> EServer be) -> wf ectab x = true ->
    spec rmatch ectab (flat x) (run rmatch ectab x).
  Proof. intros _ Hw. apply run_spec. exact Hw. Qed.

  (* without entity categories in force there is no input assumption at all *)
  Lemma no_ec_holds x : the_entries ectab (flat x) = [] -> spec rmatch ectab (flat x) (run rmatch ectab x).
  Proof. intros He. apply run_spec. apply guard_no_ec. exact He. Qed.

  (* ---- the life of one Policy object: every call of every life satisfies the property against the
     requester as described at the time of that call; what a call releases does not depend on the
     calls made before or after it on the same object *)
  Lemma run_life_app p l1 l2 :
    run_life rmatch ectab p (l1 ++ l2) = run_life rmatch ectab p l1 ++ run_life rmatch ectab p l2.
  Proof. unfold run_life. apply map_app. Qed.

  Lemma life_spec p l : guard_life ectab p l = true ->
    spec_life rmatch ectab p l (run_life rmatch ectab p l).
  Proof.
    unfold guard_life, spec_life, run_life. induction l as [|s l IH]; cbn [forallb map]; intros Hg.
    - constructor.
    - apply andb_true_iff in Hg. destruct Hg as [Hs Hl]. constructor.
      + apply run_spec. exact Hs.
      + apply IH. exact Hl.
  Qed.

  Lemma life_history_independent p pre s post :
    nth_error (run_life rmatch ectab p (pre ++ s :: post)) (length pre)
    = Some (run rmatch ectab (step_input p s)).
  Proof.
    rewrite run_life_app. rewrite nth_error_app2; unfold run_life; rewrite map_length; [|apply Nat.le_refl].
    rewrite Nat.sub_diag. reflexivity.
  Qed.

  Lemma life_release_allowed p pre s post o r :
    guard ectab (step_input p s) = true ->
    nth_error (run_life rmatch ectab p (pre ++ s :: post)) (length pre) = Some o ->
    o_out o = Ok r ->
    subset (st_ident s) r /\ allowed rmatch ectab (flat (step_input p s)) r.
  Proof.
    intros Hg Hn Ho. rewrite life_history_independent in Hn. inversion Hn; subst o. split.
    - apply (release_subset rmatch ectab (step_input p s) r Ho).
    - apply (release_allowed (step_input p s) r Hg Ho).
  Qed.

  Lemma spec_life_b_iff p l os :
    spec_life_b rmatch ectab p l os = true <-> spec_life rmatch ectab p l os.
  Proof.
    unfold spec_life_b, spec_life. revert os. induction l as [|s l IH]; intros [|o os]; cbn [length combine forallb Nat.eqb andb].
    - split; [constructor|reflexivity].
    - split; [discriminate|intros H; inversion H].
    - split; [discriminate|intros H; inversion H].
    - cbn [fst snd]. split.
      + intros H. apply andb_true_iff in H. destruct H as [Hn H]. apply andb_true_iff in H. destruct H as [Hs Hr].
        constructor; [apply spec_b_iff; exact Hs|]. apply IH. rewrite Hn. exact Hr.
      + intros H. inversion H as [|? ? ? ? Hs Hr]; subst.
        apply IH in Hr. apply andb_true_iff in Hr. destruct Hr as [Hn Hr].
        rewrite Hn. cbn [andb]. apply andb_true_iff. split; [apply spec_b_iff; exact Hs|exact Hr].
  Qed.
End Corollaries.

Definition URIf := "urn:oasis:names:tc:SAML:2.0:attrname-format:uri".
Definition w_mail : reqattr :=
  {| ra_name := "urn:oid:0.9.2342.19200300.100.1.3"; ra_nf := Some URIf; ra_friendly := Some "mail";
     ra_values := []; ra_loc_l := Some "mail"; ra_loc_r := Some "mail" |}.
Definition w_gn : reqattr :=
  {| ra_name := "urn:oid:2.5.4.42"; ra_nf := Some URIf; ra_friendly := Some "givenName";
     ra_values := []; ra_loc_l := Some "givenName"; ra_loc_r := Some "givenName" |}.
Definition w_ident : ava := [("mail", VL ["a@example.org"; "b@example.com"]); ("eduPersonEntitlement", VL ["urn:x:secret"])].
Definition w_md (gn_required : bool) : mdinfo :=
  {| md_ras := [(w_mail, Some "true"); (w_gn, Some (if gn_required then "true" else "false"))];
     md_sid := None; md_sid_loc := (None, None); md_ecs := []; md_ra := None |}.
Definition no_rx (r v : string) : bool := false.

(* finding C10-F1 (repaired by a4e3dbdd): the SP requires givenName, the user has none; through the
   OLD Server._authn_response the MissingValue was swallowed and the unfiltered identity (incl.
   eduPersonEntitlement) released, although the caller said best_effort=False *)
Definition witness1 : input :=
  {| i_ident := w_ident; i_pol := None; i_sp := "https://sp.example.org/sp.xml"; i_md := Some (w_md true);
     i_entry := EServer false |}.

Example witness1_v0_unfiltered : o_out (run_v0 no_rx [] witness1) = Ok w_ident.
Proof. vm_compute. reflexivity. Qed.

Lemma server_release_v0_refuted : exists rmatch ectab x, ~ spec rmatch ectab (flat x) (run_v0 rmatch ectab x).
Proof.
  exists no_rx, [], witness1. intros H. apply spec_b_iff in H. vm_compute in H. discriminate.
Qed.

(* the code as it is now: an error response; with best_effort what the requester asked for and the
   user has (mail), never the entitlement *)
Example witness1_now_error :
  must_fail_b [] (flat witness1) = true /\ o_out (run no_rx [] witness1) = Missing.
Proof. vm_compute. split; reflexivity. Qed.

Definition witness1_be : input :=
  {| i_ident := w_ident; i_pol := None; i_sp := "https://sp.example.org/sp.xml"; i_md := Some (w_md true);
     i_entry := EServer true |}.
Example witness1_best_effort_filtered :
  o_out (run no_rx [] witness1_be) = Ok [("mail", VL ["a@example.org"; "b@example.com"])]
  /\ o_out (run_v0 no_rx [] witness1_be) = Ok w_ident.
Proof. vm_compute. split; reflexivity. Qed.

(* best effort, but the second pass fails too: the SP requires a VALUE of mail the user does not
   hold (and givenName, which makes the first pass fail): _filter_values(must=True) raises *)
Definition w_mail_v : reqattr :=
  {| ra_name := "urn:oid:0.9.2342.19200300.100.1.3"; ra_nf := Some URIf; ra_friendly := Some "mail";
     ra_values := ["c@example.net"]; ra_loc_l := Some "mail"; ra_loc_r := Some "mail" |}.
Definition witness1_be2 : input :=
  {| i_ident := w_ident; i_pol := None; i_sp := "https://sp.example.org/sp.xml";
     i_md := Some {| md_ras := [(w_gn, Some "true"); (w_mail_v, Some "true")]; md_sid := None;
                     md_sid_loc := (None, None); md_ecs := []; md_ra := None |};
     i_entry := EServer true |}.
Example witness1_best_effort_second_pass_fails : o_out (run no_rx [] witness1_be2) = Missing.
Proof. vm_compute. reflexivity. Qed.

(* the same request at the Policy level is an error, as the property demands *)
Definition witness1_policy : input :=
  {| i_ident := w_ident; i_pol := None; i_sp := "https://sp.example.org/sp.xml"; i_md := Some (w_md true);
     i_entry := ERestrict None |}.
Example witness1_policy_missing :
  must_fail_b [] (flat witness1_policy) = true /\ o_out (run no_rx [] witness1_policy) = Missing.
Proof. vm_compute. split; reflexivity. Qed.

(* finding C10-F2 (repaired by 47cc754e): entity categories configured, Policy without metadata
   store: the OLD code filtered nothing *)
Definition w_tab : list (string * ecmap) :=
  [("m", [{| ec_key := KS ""; ec_attrs := ["eduPersonTargetedID"]; ec_only_required := false; ec_no_agg := false |};
          {| ec_key := KS "http://ec/rs"; ec_attrs := ["mail"]; ec_only_required := false; ec_no_agg := false |}])].
Definition w_ident2 : ava := ("eduPersonTargetedID", VL ["t1"]) :: w_ident.
Definition witness2 : input :=
  {| i_ident := w_ident2;
     i_pol := Some [("default", Some {| s_ar := None; s_fail := None; s_ecs := ["m"]; s_bare := false |})];
     i_sp := "https://sp.example.org/sp.xml"; i_md := None; i_entry := ERestrict None |}.

Example witness2_v0_unfiltered : o_out (run_v0 no_rx w_tab witness2) = Ok w_ident2.
Proof. vm_compute. reflexivity. Qed.

Lemma nostore_v0_refuted : exists rmatch ectab x,
  i_entry x = ERestrict None /\ ~ spec rmatch ectab (flat x) (run_v0 rmatch ectab x).
Proof.
  exists no_rx, w_tab, witness2. split; [reflexivity|]. intros H. apply spec_b_iff in H. vm_compute in H. discriminate.
Qed.

(* now: the requester is in no category, only the always-released attribute passes *)
Example witness2_now_always_released_only :
  o_out (run no_rx w_tab witness2) = Ok [("eduPersonTargetedID", VL ["t1"])].
Proof. vm_compute. reflexivity. Qed.

(* non-vacuity: a request on which every filter bites.
   Section for the SP restricts mail to example.org addresses; givenName is only optional. *)
Definition ex_rx (r v : string) : bool :=
  String.eqb r ".*@example\.org$" && String.eqb v "a@example.org".
Definition witness_ok : input :=
  {| i_ident := w_ident;
     i_pol := Some [("default", Some {| s_ar := None; s_fail := None; s_ecs := []; s_bare := false |});
                    ("https://sp.example.org/sp.xml",
                     Some {| s_ar := Some [("mail", Some [".*@example\.org$"])]; s_fail := None; s_ecs := []; s_bare := false |})];
     i_sp := "https://sp.example.org/sp.xml"; i_md := Some (w_md false); i_entry := EServer false |}.

Example witness_ok_guarded :
  guard [] witness_ok = true
  /\ o_out (run ex_rx [] witness_ok) = Ok [("mail", VL ["a@example.org"])].
Proof. vm_compute. split; reflexivity. Qed.

(* ... and one where the entity categories decide *)
Definition w_tab2 : list (string * ecmap) :=
  [("m", [{| ec_key := KS ""; ec_attrs := ["eduPersonTargetedID"]; ec_only_required := false; ec_no_agg := false |};
          {| ec_key := KS "http://ec/rs"; ec_attrs := ["mail"; "givenName"]; ec_only_required := false; ec_no_agg := false |}])].
Definition witness_ec : input :=
  {| i_ident := w_ident;
     i_pol := Some [("default", Some {| s_ar := None; s_fail := None; s_ecs := ["m"]; s_bare := false |})];
     i_sp := "https://sp.example.org/sp.xml";
     i_md := Some {| md_ras := []; md_sid := None; md_sid_loc := (None, None); md_ecs := ["http://ec/rs"]; md_ra := None |};
     i_entry := EApply None |}.
Example witness_ec_guarded :
  guard w_tab2 witness_ec = true
  /\ o_out (run no_rx w_tab2 witness_ec) = Ok [("mail", VL ["a@example.org"; "b@example.com"])].
Proof. vm_compute. split; reflexivity. Qed.

(* non-vacuity of missing_required_is_error at the Server: witness1 satisfies must_fail *)
Example witness1_must_fail : must_fail [] (flat witness1).
Proof. apply must_fail_b_iff. vm_compute. reflexivity. Qed.

(* ---- the life of one Policy object: non-vacuity.  An ONLY_REQUIRED category (the shape of GEANT
   CoCo): call 1 while the requester requires mail and sn, then the metadata is refreshed (the
   requester requires only mail), call 2 on the SAME object; then the requester leaves the category. *)
Definition w_tab_or : list (string * ecmap) :=
  [("coco", [{| ec_key := KS "http://ec/coco"; ec_attrs := ["mail"; "sn"; "givenName"];
               ec_only_required := true; ec_no_agg := false |}])].
Definition w_sn : reqattr :=
  {| ra_name := "urn:oid:2.5.4.4"; ra_nf := Some URIf; ra_friendly := Some "sn";
     ra_values := []; ra_loc_l := Some "sn"; ra_loc_r := Some "sn" |}.
Definition w_life_ident : ava := [("mail", VL ["a@example.org"]); ("sn", VL ["Jeter"]); ("givenName", VL ["Derek"])].
Definition w_life_pol : policy :=
  Some [("default", Some {| s_ar := None; s_fail := None; s_ecs := ["coco"]; s_bare := false |})].
Definition w_life_md (ras : list (reqattr * option string)) (ecs : list string) : option mdinfo :=
  Some {| md_ras := ras; md_sid := None; md_sid_loc := (None, None); md_ecs := ecs; md_ra := None |}.
Definition w_life_step (md : option mdinfo) : step :=
  {| st_ident := w_life_ident; st_sp := "https://sp.example.org/sp.xml"; st_md := md; st_entry := ERestrict None |}.
Definition w_life : list step :=
  [w_life_step (w_life_md [(w_mail, Some "true"); (w_sn, Some "true")] ["http://ec/coco"]);
   w_life_step (w_life_md [(w_mail, Some "true"); (w_sn, Some "false")] ["http://ec/coco"]);
   w_life_step (w_life_md [(w_mail, Some "true")] [])].

Example w_life_releases :
  guard_life w_tab_or w_life_pol w_life = true
  /\ map (@o_out) (run_life no_rx w_tab_or w_life_pol w_life)
     = [Ok [("mail", VL ["a@example.org"]); ("sn", VL ["Jeter"])]; Ok [("mail", VL ["a@example.org"])]; Ok []].
Proof. vm_compute. split; reflexivity. Qed.

(* a life whose later calls answer what the FIRST call was entitled to (restrictions kept per
   requester on the object and never worked out again) fails the property: spec_life is not
   satisfied by stale answers *)
Definition stale_life (rmatch : string -> string -> bool) (ectab : list (string * ecmap)) (p : policy) (l : list step)
  : list output :=
  match l with
  | [] => []
  | s :: r => map (fun _ => run rmatch ectab (step_input p s)) l
  end.

Lemma stale_life_refuted : exists rmatch ectab p l,
  guard_life ectab p l = true /\ ~ spec_life rmatch ectab p l (stale_life rmatch ectab p l).
Proof.
  exists no_rx, w_tab_or, w_life_pol, w_life. split; [vm_compute; reflexivity|].
  intros H. apply spec_life_b_iff in H. vm_compute in H. discriminate.
Qed.

(* ---- round 5: the subject-id requirement of the requester's entity attribute and the requester's OWN listing
   of that identifier in its AttributeConsumingService.  However the requester lists the identifier
   (not at all / optional / required, same dict or another), the requirement ends up among the REQUIRED
   attributes; nothing else is added and nothing the requester requires is dropped. *)
Lemma reqattr_eqb_refl r : reqattr_eqb r r = true.
Proof.
  unfold reqattr_eqb. rewrite String.eqb_refl. cbn [andb].
  assert (Ho : forall o : option string, opt_eqb String.eqb o o = true).
  { intros [s|]; cbn; [apply String.eqb_refl|reflexivity]. }
  rewrite !Ho. cbn [andb].
  apply (list_eqb_eq String.eqb String.eqb_eq). reflexivity.
Qed.

Lemma add_subj_keeps subj : forall req r, In r req -> In r (add_subj req subj).
Proof.
  unfold add_subj. induction subj as [|s t IH]; intros req r Hin; cbn [fold_left]; [exact Hin|].
  apply IH. destruct (existsb (reqattr_eqb s) req); [exact Hin|]. apply in_or_app. left. exact Hin.
Qed.

Lemma add_subj_adds subj : forall req r, In r subj ->
  exists r', In r' (add_subj req subj) /\ reqattr_eqb r r' = true /\ In r' (req ++ subj).
Proof.
  unfold add_subj. induction subj as [|s t IH]; intros req r Hin; [destruct Hin|].
  cbn [fold_left]. destruct Hin as [->|Hin].
  - destruct (existsb (reqattr_eqb r) req) eqn:E.
    + apply existsb_exists in E. destruct E as [r' [Hr' He]]. exists r'.
      split; [apply (add_subj_keeps t); exact Hr'|]. split; [exact He|]. apply in_or_app. left. exact Hr'.
    + exists r. split; [apply (add_subj_keeps t); apply in_or_app; right; left; reflexivity|].
      split; [apply reqattr_eqb_refl|]. apply in_or_app. right. left. reflexivity.
  - destruct (IH (if existsb (reqattr_eqb s) req then req else req ++ [s]) r Hin) as [r' [Hk [He Hr']]].
    exists r'. split; [exact Hk|]. split; [exact He|].
    apply in_app_or in Hr'. destruct Hr' as [Hr'|Hr']; [|apply in_or_app; right; right; exact Hr'].
    destruct (existsb (reqattr_eqb s) req); [apply in_or_app; left; exact Hr'|].
    apply in_app_or in Hr'. destruct Hr' as [Hr'|[<-|[]]]; apply in_or_app; [left; exact Hr'|right; left; reflexivity].
Qed.

Lemma add_subj_only subj : forall req r, In r (add_subj req subj) -> In r req \/ In r subj.
Proof.
  unfold add_subj. induction subj as [|s t IH]; intros req r Hin; cbn [fold_left] in Hin; [left; exact Hin|].
  apply IH in Hin. destruct Hin as [Hin|Hin]; [|right; right; exact Hin].
  destruct (existsb (reqattr_eqb s) req); [left; exact Hin|].
  apply in_app_or in Hin. destruct Hin as [Hin|[<-|[]]]; [left; exact Hin|right; left; reflexivity].
Qed.

(* every subject-id requirement is among the required attributes - itself, or an equal dict the requester
   lists as REQUIRED; a listing as optional never stands in for it *)
Lemma subject_id_requirement_is_required m r :
  In r (subj_reqs m) ->
  exists r', In r' (eff_required (Some m)) /\ reqattr_eqb r r' = true /\ In r' (md_required m ++ subj_reqs m).
Proof. intros H. unfold eff_required. apply add_subj_adds. exact H. Qed.

Lemma required_is_declared_or_subject_id m r :
  In r (eff_required (Some m)) <-> In r (md_required m) \/ In r (add_subj (md_required m) (subj_reqs m)).
Proof.
  unfold eff_required. split; [intros H; right; exact H|]. intros [H|H]; [apply add_subj_keeps; exact H|exact H].
Qed.

(* the consequence the property text names: the requester's metadata ask for a subject identifier the user
   cannot supply, failing on missing attributes is in effect, no entity categories decide => an error at
   every entry point that reads the requester's metadata, whatever the AttributeConsumingService says about
   that identifier *)
Lemma subject_id_requirement_enforced rmatch ectab x m r :
  i_md x = Some m ->
  (match i_entry x with ERestrict _ | EApply _ | EServer _ => True | _ => False end) ->
  ~ ec_in_force ectab (flat x) -> fail_flag (flat x) = true ->
  In r (subj_reqs m) ->
  (forall r', In r' (md_required m ++ subj_reqs m) -> reqattr_eqb r r' = true -> unsuppliable (i_ident x) r') ->
  forall out, o_out (run rmatch ectab x) <> Ok out.
Proof.
  intros Hm He Hnec Hf Hr Hu. apply missing_required_is_error.
  assert (Hreq : f_req (flat x) = eff_required (Some m) /\ f_ident (flat x) = i_ident x).
  { unfold flat. destruct (i_entry x); try destruct He; rewrite Hm; split; reflexivity. }
  destruct Hreq as [Hreq Hid].
  split; [exact Hnec|]. split; [exact Hf|]. rewrite Hreq, Hid.
  destruct (subject_id_requirement_is_required m r Hr) as [r' [H1 [H2 H3]]].
  exists r'. split; [exact H1|]. apply Hu; assumption.
Qed.

(* non-vacuity, and the requester that lists the identifier as OPTIONAL: still an error *)
Definition w_sid_opt : reqattr :=
  {| ra_name := "urn:oasis:names:tc:SAML:attribute:subject-id"; ra_nf := Some URIf; ra_friendly := Some "subject-id";
     ra_values := []; ra_loc_l := Some "subject-id"; ra_loc_r := Some "subject-id" |}.
Definition w_sid_md (isreq : option string) : mdinfo :=
  {| md_ras := [(w_mail, Some "false"); (w_sid_opt, isreq)]; md_sid := Some "subject-id";
     md_sid_loc := (Some "pairwise-id", Some "subject-id"); md_ecs := []; md_ra := None |}.
Definition w_sid_input (ident : ava) (isreq : option string) (e : entry) : input :=
  {| i_ident := ident; i_pol := None; i_sp := "https://sp.example.org/sp.xml"; i_md := Some (w_sid_md isreq);
     i_entry := e |}.

Example w_sid_listed_optional_is_error :
  forall e, In e [ERestrict None; EApply None; EServer false] ->
  forall isreq, In isreq [None; Some "false"; Some "true"] ->
    o_out (run no_rx [] (w_sid_input [("mail", VL ["a@example.org"])] isreq e)) = Missing
    /\ exists out, o_out (run no_rx [] (w_sid_input [("mail", VL ["a@example.org"]); ("subject-id", VL ["s"])] isreq e))
                   = Ok out /\ length out = 2.
Proof.
  intros e He isreq Hi. cbn [In] in He, Hi.
  destruct He as [<-|[<-|[<-|[]]]]; destruct Hi as [<-|[<-|[<-|[]]]];
    (split; [vm_compute; reflexivity|eexists; split; [vm_compute; reflexivity|reflexivity]]).
Qed.

(* the hypotheses of subject_id_requirement_enforced are satisfiable: it applies to that requester *)
Example w_sid_enforced_applies : forall out,
  o_out (run no_rx [] (w_sid_input [("mail", VL ["a@example.org"])] (Some "false") (ERestrict None))) <> Ok out.
Proof.
  apply (subject_id_requirement_enforced no_rx [] _ (w_sid_md (Some "false")) w_sid_opt).
  - reflexivity.
  - exact I.
  - unfold ec_in_force. intros H. apply H. vm_compute. reflexivity.
  - vm_compute. reflexivity.
  - vm_compute. left. reflexivity.
  - intros r' Hin _. vm_compute in Hin. destruct Hin as [<-|[]].
    apply unsuppliable_b_iff. vm_compute. reflexivity.
Qed.

(* the duplicate test must be on the whole dict against the REQUIRED list: a test by Name against everything
   the requester lists (required and optional) loses the requirement when the identifier is listed as optional *)
Definition add_subj_by_name (req opt subj : list reqattr) : list reqattr :=
  fold_left (fun acc r => if existsb (fun a => String.eqb (ra_name a) (ra_name r)) (acc ++ opt) then acc else acc ++ [r])
            subj req.
Lemma dedup_by_name_refuted : exists m r,
  In r (subj_reqs m) /\ ~ In r (add_subj_by_name (md_required m) (md_optional m) (subj_reqs m))
  /\ In r (eff_required (Some m)).
Proof.
  exists (w_sid_md (Some "false")), w_sid_opt. vm_compute. split; [left; reflexivity|].
  split; [intros H; exact H|left; reflexivity].
Qed.

(* ---- round 6: what a RequestedAttribute DECLARES is Name + NameFormat; its FriendlyName is a label.
   (a) when the attribute maps know the Name, only the mapped local name and the Name itself designate an identity
       attribute - the label designates nothing;
   (b) the code's matching (filter_on_attributes._match_attr_name: get_local_name(..) or friendly_name) picks only
       designated identity attributes (match_attr_name_sound above, used by every theorem about the declaration);
   (c) a matching that reads the label FIRST (friendly_name or get_local_name(..)) picks an attribute the requester
       never declared, and lets a REQUIRED attribute the user lacks pass as supplied;
   (d) Policy.get_entity_categories DID read the label first (ONLY_REQUIRED categories): finding C10-F5, repaired by
       4be62a1c - the pre-repair behaviour (get_ec_lf / restrict_lf) fails the property on such a requester; the
       model of the code as it is now satisfies it with no finding class excluded. *)
Lemma label_designates_nothing d l k :
  resolved d = Some l -> designates d k -> lower k = lower l \/ lower k = lower (ra_name d).
Proof.
  unfold designates, designators. intros Hr [n [Hin He]]. rewrite Hr in Hin.
  destruct Hin as [<-|[<-|[]]]; [left|right]; symmetry; exact He.
Qed.

Lemma unresolved_label_designates d f :
  resolved d = None -> ra_friendly d = Some f -> designates d f.
Proof.
  intros Hr Hf. exists f. split; [|reflexivity]. unfold designators. rewrite Hr, Hf. left. reflexivity.
Qed.

(* the seeded change C10-b: friendly_name or get_local_name(acs, name, name_format) or "" *)
Definition local_name_label_first (d : reqattr) : string :=
  match tr (ra_friendly d) with
  | Some f => f
  | None => match tr (ra_loc_l d) with Some l => l | None => "" end
  end.
Definition match_attr_name_label_first (d : reqattr) (a : ava) : option string :=
  tr (or_ (match_ (local_name_label_first d) a) (match_ (lower (ra_name d)) a)).

(* urn:oid:2.5.4.42 = givenName, labelled "norEduPersonNIN" *)
Definition w_gn_as_nin : reqattr :=
  {| ra_name := "urn:oid:2.5.4.42"; ra_nf := Some URIf; ra_friendly := Some "norEduPersonNIN";
     ra_values := []; ra_loc_l := Some "givenName"; ra_loc_r := Some "givenName" |}.
Definition w_nin_ident : ava := [("mail", VL ["ann@example.org"]); ("norEduPersonNIN", VL ["197001011234"])].

Lemma label_first_match_refuted : exists d a fn,
  match_attr_name_label_first d a = Some fn /\ ~ designates d fn /\ match_attr_name d a = None.
Proof.
  exists w_gn_as_nin, w_nin_ident, "norEduPersonNIN". split; [vm_compute; reflexivity|]. split; [|vm_compute; reflexivity].
  intros H. apply designates_b_iff in H. vm_compute in H. discriminate.
Qed.

(* the same requester through the code as it is: the user lacks givenName = the required attribute cannot be
   supplied = an error at every entry point; a user who holds both gets givenName, never the number *)
Definition w_label_md : mdinfo :=
  {| md_ras := [(w_mail, Some "false"); (w_gn_as_nin, Some "true")]; md_sid := None; md_sid_loc := (None, None);
     md_ecs := []; md_ra := None |}.
Definition w_label_input (ident : ava) (e : entry) : input :=
  {| i_ident := ident; i_pol := None; i_sp := "https://sp.example.org/sp.xml"; i_md := Some w_label_md; i_entry := e |}.

Example w_label_is_not_a_declaration :
  forall e, In e [ERestrict None; EApply None; EServer false] ->
    must_fail_b [] (flat (w_label_input w_nin_ident e)) = true
    /\ o_out (run no_rx [] (w_label_input w_nin_ident e)) = Missing
    /\ o_out (run no_rx [] (w_label_input (("givenName", VL ["Ann"]) :: w_nin_ident) e))
       = Ok [("givenName", VL ["Ann"]); ("mail", VL ["ann@example.org"])].
Proof.
  intros e He. cbn [In] in He. destruct He as [<-|[<-|[<-|[]]]]; vm_compute; repeat split; reflexivity.
Qed.

(* finding C10-F5 (repaired by 4be62a1c): an ONLY_REQUIRED category (GEANT CoCo's shape); the requester REQUIRES
   urn:oid:2.5.4.3 = cn and labels it "mail".  BEFORE the repair Policy.get_entity_categories read the label first
   (restrict_lf) and the user's mail was released, which the requester never declared as required; NOW cn is *)
Definition w_cn_as_mail : reqattr :=
  {| ra_name := "urn:oid:2.5.4.3"; ra_nf := Some URIf; ra_friendly := Some "mail";
     ra_values := []; ra_loc_l := Some "cn"; ra_loc_r := Some "cn" |}.
Definition w_tab_coco : list (string * ecmap) :=
  [("coco", [{| ec_key := KS "http://ec/coco"; ec_attrs := ["mail"; "cn"; "displayName"];
               ec_only_required := true; ec_no_agg := false |}])].
Definition witness3 : input :=
  {| i_ident := [("cn", VL ["Ann Lee"]); ("mail", VL ["ann@example.org"]); ("displayName", VL ["Ann"])];
     i_pol := w_life_pol; i_sp := "https://sp.example.org/sp.xml";
     i_md := w_life_md [(w_cn_as_mail, Some "true")] ["http://ec/coco"]; i_entry := ERestrict None |}.

(* what Policy.restrict answered before 4be62a1c, as an output of the ERestrict entry *)
Definition run_restrict_lf (rmatch : string -> string -> bool) (ectab : list (string * ecmap)) (x : input) : output :=
  {| o_out := restrict_lf rmatch ectab (i_ident x) (i_pol x) (i_sp x) (i_md x) None; o_caller := i_ident x; o_self := None |}.

Example witness3_v0_releases_the_labelled :
  o_out (run_restrict_lf no_rx w_tab_coco witness3) = Ok [("mail", VL ["ann@example.org"])].
Proof. vm_compute. reflexivity. Qed.

Example witness3_now_releases_the_declared :
  guard w_tab_coco witness3 = true /\ o_out (run no_rx w_tab_coco witness3) = Ok [("cn", VL ["Ann Lee"])].
Proof. vm_compute. split; reflexivity. Qed.

Lemma label_first_categories_v0_refuted : exists rmatch ectab x,
  i_entry x = ERestrict None /\ wf ectab x = true /\ class3 ectab x = true
  /\ ~ spec rmatch ectab (flat x) (run_restrict_lf rmatch ectab x).
Proof.
  exists no_rx, w_tab_coco, witness3. split; [reflexivity|]. split; [vm_compute; reflexivity|]. split; [vm_compute; reflexivity|].
  intros H. apply spec_b_iff in H. vm_compute in H. discriminate.
Qed.

(* the pre-repair run_v0 (code before ALL repairs) fails on it as well *)
Example witness3_run_v0_fails : spec_b no_rx w_tab_coco witness3 (run_v0 no_rx w_tab_coco witness3) = false.
Proof. vm_compute. reflexivity. Qed.

(* the same requester with the agreeing label *)
Example witness3_agreeing_label_guarded :
  let x := {| i_ident := i_ident witness3; i_pol := w_life_pol; i_sp := i_sp witness3;
              i_md := w_life_md [({| ra_name := "urn:oid:2.5.4.3"; ra_nf := Some URIf; ra_friendly := Some "CN";
                                     ra_values := []; ra_loc_l := Some "cn"; ra_loc_r := Some "cn" |}, Some "true")]
                                ["http://ec/coco"];
              i_entry := ERestrict None |} in
  guard w_tab_coco x = true /\ o_out (run no_rx w_tab_coco x) = Ok [("cn", VL ["Ann Lee"])].
Proof. vm_compute. split; reflexivity. Qed.
