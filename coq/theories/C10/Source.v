(* C10/Source.v — the model's section precedence ([applicable]: requester > registration authority >
   "default" (unless it is an empty section and "" exists) > "") equals Policy.get as the translator
   (harness/py2coq.py) produced it from the CURRENT source text (coq/gen/C10Src.v, regenerated on every
   run): for every compiled policy (any sections, also None-valued and empty ones), requester,
   registration authority, looked-up key and default.  The metadata lookup
   self.metadata_store.registration_info is a parameter. *)
From Coq Require Import String List Bool.
From Verif Require Import Base.Str Base.Py C10.Model.
From VerifGen Require Import C10Src.
Import ListNotations.
Open Scope string_scope.

Section Source.
  (* how a compiled section looks as a dict: any encoding that is empty exactly for bare sections
     (compile() gives every non-empty section the keys entity_categories and attribute_restrictions) *)
  Variable enc_sec : section -> list (string * pyval).
  Hypothesis enc_bare : forall s, enc_sec s = [] <-> s_bare s = true.

  Definition enc_osec (o : option section) : pyval :=
    match o with Some s => PObj (enc_sec s) | None => PNone end.
  Definition enc_sections (l : list (string * option section)) : list (string * pyval) :=
    map (fun kv => (fst kv, enc_osec (snd kv))) l.
  Definition enc_policy (p : policy) (store : bool) : pyval :=
    PObj [("_restrictions", match p with Some l => PObj (enc_sections l) | None => PNone end);
          ("metadata_store", if store then PObj [("x", PNone)] else PNone)].
  Definition enc_ra (ra : option string) : pyval :=
    match ra with Some r => PObj [("registration_authority", PStr r)] | None => PNone end.

  (* the value Policy.get returns from a section *)
  Definition sec_value (s : section) (key : string) (dflt : pyval) : pyval :=
    match assoc_py key (enc_sec s) with
    | Some v => match v with PNone | PErr => dflt | _ => v end
    | None => dflt
    end.

  Lemma assoc_sections k l :
    assoc_py k (enc_sections l) = option_map enc_osec (lookup k l).
  Proof.
    induction l as [|[k' o] r IH]; cbn [enc_sections map assoc_py lookup fst snd option_map]; [reflexivity|].
    destruct (String.eqb k k'); [reflexivity|exact IH].
  Qed.

  Lemma get_section k l :
    py_get (PObj (enc_sections l)) (PStr k) = match getsec k l with Some s => PObj (enc_sec s) | None => PNone end.
  Proof.
    unfold py_get, getsec. rewrite assoc_sections.
    destruct (lookup k l) as [[s|]|]; reflexivity.
  Qed.

  Lemma truthy_section s : py_truthy (PObj (enc_sec s)) = negb (s_bare s).
  Proof.
    cbn [py_truthy]. destruct (enc_sec s) as [|x r] eqn:E.
    - apply enc_bare in E. rewrite E. reflexivity.
    - destruct (s_bare s) eqn:B; [|reflexivity]. apply enc_bare in B. congruence.
  Qed.

  Lemma get_value s key dflt :
    (let r := py_get (PObj (enc_sec s)) (PStr key) in if py_truthy (py_is_not_none r) then r else dflt)
    = sec_value s key dflt.
  Proof.
    unfold sec_value, py_get. destruct (assoc_py key (enc_sec s)) as [v|]; [|reflexivity].
    destruct v; reflexivity.
  Qed.

  (* ra_of: the registration authority the store reports (None: no store, or nothing registered) *)
  Theorem src_policy_get_is_model :
    forall (reginfo : pyval -> pyval) p store sp ra key dflt,
      reginfo (PStr sp) = enc_ra ra ->
      src_policy_get reginfo (enc_policy p store) (PStr key) (PStr sp) dflt
      = match applicable p sp (if store then ra else None) with
        | Some s => sec_value s key dflt
        | None => dflt
        end.
  Proof.
    intros reginfo p store sp ra key dflt Hreg. unfold src_policy_get, enc_policy.
    cbn [py_attr assoc_py String.eqb Ascii.eqb Bool.eqb].
    destruct p as [l|]; [|reflexivity].
    destruct l as [|kv l'] eqn:El.
    { cbn [enc_sections map py_not py_truthy negb]. cbn. destruct store; destruct ra; reflexivity. }
    assert (Htr : py_truthy (py_not (PObj (enc_sections l))) = false).
    { subst l. cbn [enc_sections map py_not py_truthy negb]. reflexivity. }
    rewrite <- El in *. rewrite Htr. clear Htr.
    (* the registration authority *)
    assert (Hra : py_get (if py_truthy (py_is_not_none (if store then PObj [("x", PNone)] else PNone))
                          then py_or (reginfo (PStr sp)) (PObj []) else PObj [])
                         (PStr "registration_authority")
                  = match (if store then ra else None) with Some r => PStr r | None => PNone end).
    { destruct store; cbn [py_is_not_none py_truthy]; [|reflexivity].
      rewrite Hreg. destruct ra as [r|]; reflexivity. }
    cbv zeta. rewrite Hra. clear Hra.
    set (ra' := if store then ra else None).
    rewrite !get_section.
    unfold applicable.
    destruct (getsec sp l) as [s|] eqn:Esp.
    { cbn [py_is_not_none py_truthy]. apply get_value. }
    cbn [py_is_not_none py_truthy].
    assert (Hrg : py_get (PObj (enc_sections l)) (match ra' with Some r => PStr r | None => PNone end)
                  = match (match ra' with Some r => getsec r l | None => None end) with
                    | Some s => PObj (enc_sec s) | None => PNone end).
    { destruct ra' as [r|]; [apply get_section|reflexivity]. }
    rewrite Hrg. clear Hrg.
    destruct (match ra' with Some r => getsec r l | None => None end) as [s|] eqn:Era.
    { cbn [py_is_not_none py_truthy]. apply get_value. }
    cbn [py_is_not_none py_truthy].
    unfold py_or.
    destruct (getsec "default" l) as [s|] eqn:Ed.
    - rewrite truthy_section. destruct (s_bare s) eqn:B; cbn [negb].
      + destruct (getsec "" l) as [s'|] eqn:Ee; cbn [py_is_not_none py_truthy].
        * apply get_value.
        * (* {} default, no "" section: restrictions = {} *)
          unfold sec_value. apply enc_bare in B. rewrite B. reflexivity.
      + cbn [py_is_not_none py_truthy]. apply get_value.
    - cbn [py_truthy]. destruct (getsec "" l) as [s'|] eqn:Ee; cbn [py_is_not_none py_truthy].
      + apply get_value.
      + reflexivity.
  Qed.
End Source.
