(* C15/Model.v — redirect-binding signatures, as coded.
   Mirrors: pack.http_redirect_message (127-190), sigver.RSACrypto.get_signer / RSASigner (515-561),
   sigver.verify_redirect_signature (563-599), Request._loads / _do_redirect_sig_check (request.py 41-115),
   Entity.apply_binding (allow-list test, entity.py 268-271), with the LIVE tables
   SIG_ALLOWED_ALG, SIGNER_ALGS, REQ_ORDER, RESP_ORDER (gen/C15Tables.v).
   RSA is external: [sign]/[verify] are Section variables (signature = byte string); the digest of the
   chosen algorithm is part of the index of the signature function. *)
From Coq Require Import String Ascii List Bool.
From Verif Require Import Base.Str Base.Percent Base.Base64.
From VerifGen Require Import C15Tables.
Import ListNotations.
Open Scope string_scope.

(* a dict with str keys and str values, in insertion order (keys unique) *)
Definition query := list (string * string).

Fixpoint get (q : query) (k : string) : option string :=
  match q with
  | [] => None
  | (k', v) :: r => if String.eqb k' k then Some v else get r k
  end.

Definition has (q : query) (k : string) : bool :=
  match get q k with Some _ => true | None => false end.

(* del d[k] *)
Definition remove (k : string) (q : query) : query :=
  filter (fun kv => negb (String.eqb (fst kv) k)) q.

(* urllib.parse.urlencode({k: v}) for str k, v: quote_plus(k) + "=" + quote_plus(v) *)
Definition urlencode1 (k v : string) : string := quote_plus k ++ "=" ++ quote_plus v.

(* "&".join(urlencode({k: args[k]}) for k in _order if k in args) *)
Definition octets (order : list string) (args : query) : string :=
  join "&" (flat_map (fun k => match get args k with Some v => [urlencode1 k v] | None => [] end) order).

(* sigalg in [long_name for short_name, long_name in SIG_ALLOWED_ALG] *)
Definition allowed (alg : string) : bool := mem alg (map snd sig_allowed_alg).

(* SIGNER_ALGS[alg].digest (None = KeyError) *)
Definition digest_of (alg : string) : option string := get signer_algs alg.

Notation K_REQ := "SAMLRequest" (only parsing).
Notation K_RESP := "SAMLResponse" (only parsing).
Notation K_ART := "SAMLart" (only parsing).
Notation K_RS := "RelayState" (only parsing).
Notation K_ALG := "SigAlg" (only parsing).
Notation K_SIG := "Signature" (only parsing).

(* result of http_redirect_message: the dict that is url-encoded into the Location header, or the
   class of the exception raised *)
(* SOther / VOther: any other outcome; never produced by the model *)
Inductive sres := SArgs (args : query) | SExc | STypeError | SOther.

(* result of verify_redirect_signature *)
Inductive vres := VTrue | VFalse | VNone | VKeyError | VUnsupported | VValueError | VOther.

Definition vres_eqb (a b : vres) : bool :=
  match a, b with
  | VTrue, VTrue | VFalse, VFalse | VNone, VNone | VKeyError, VKeyError
  | VUnsupported, VUnsupported | VValueError, VValueError => true
  | _, _ => false
  end.

Definition query_eqb (a b : query) : bool :=
  list_eqb (fun x y => String.eqb (fst x) (fst y) && String.eqb (snd x) (snd y)) a b.

Definition sres_eqb (a b : sres) : bool :=
  match a, b with
  | SArgs x, SArgs y => query_eqb x y
  | SExc, SExc | STypeError, STypeError => true
  | _, _ => false
  end.

(* _order of http_redirect_message: None = unknown typ (exception), Some None = SAMLart (no order table) *)
Definition order_of_typ (typ : string) : option (option (list string)) :=
  if String.eqb typ K_REQ then Some (Some req_order)
  else if String.eqb typ K_RESP then Some (Some resp_order)
  else if String.eqb typ K_ART then Some None
  else None.

(* the cert argument of verify_redirect_signature / one published certificate of the issuer *)
Inductive certarg (cert : Type) := CAbsent | CCert (c : cert) | CUnreadable.

(* ---- long-lived receivers (strengthening round 5).  A receiver (Server) lives through many receptions; between
   them its metadata is reloaded (MetadataStore.reload / Entity.reload_metadata), certificates are looked up, it
   signs messages of its own.  What the code keeps between two receptions that matters here is the metadata alone:
   r_pub = for every issuer (numbered) the signing certificates that metadata.certs(issuer, "any", "signing")
   yields NOW, in order; r_own / r_must are configuration and never change. *)
Record receiver (key cert : Type) := mkrcv { r_own : key; r_must : bool; r_pub : list (list (certarg cert)) }.
Arguments mkrcv {key cert}.
Arguments r_own {key cert}.
Arguments r_must {key cert}.
Arguments r_pub {key cert}.

Inductive lstep (cert : Type) :=
(* receiver r reloads its metadata; good = the new configuration loads (MetadataStore.reload then holds exactly
   the new documents), otherwise the reload raises and the old metadata is restored *)
| LReload (r : nat) (good : bool) (pub : list (list (certarg cert)))
(* anything else done with receiver r (certificate look-ups with other arguments, signing and sending): no trace *)
| LOther (r : nat)
(* receiver r is handed a request of issuer iss on the redirect binding, parameter by parameter *)
| LRecv (r iss : nat) (origdoc : string) (rs sigalg signature : option string).
Arguments LReload {cert}.
Arguments LOther {cert}.
Arguments LRecv {cert}.

Inductive lres := RReload (ok : bool) | ROther | RRecv (acc : bool).

Section Crypto.
  Context {key cert : Type}.
  Variable cert_of : key -> cert.
  (* key_sign(key, octets, digest) / key_verify(public key, signature, octets, digest) *)
  Variable sign : key -> string -> string -> string.
  Variable verify : cert -> string -> string -> string -> bool.

  (* pack.http_redirect_message(message, location, relay_state, typ, sigalg, sign, backend=RSACrypto(k));
     v is the value stored under typ (deflate+base64 of the message, or the artifact itself) *)
  Definition http_redirect_message (k : key) (typ v rs : string) (alg : option string) (sgn : bool) : sres :=
    match order_of_typ typ with
    | None => SExc                                       (* Unknown message type *)
    | Some order =>
        let args := (typ, v) :: (if is_empty rs then [] else [(K_RS, rs)]) in
        if sgn then
          match alg with
          | None => SExc                                 (* None not in the allow-list *)
          | Some a =>
              if negb (allowed a) then SExc              (* Signature algo not in allowed list *)
              else if is_empty a then SExc               (* "if sign and sigalg else None" *)
              else match digest_of a with
                   | None => SExc                        (* Could not init signer *)
                   | Some d =>                           (* fresh RSASigner(digest, backend.key) *)
                       match order with
                       | None => STypeError              (* for k in None *)
                       | Some o =>
                           let args2 := (args ++ [(K_ALG, a)])%list in
                           SArgs (args2 ++ [(K_SIG, encode (sign k d (octets o args2)))])%list
                       end
                   end
          end
        else SArgs args
    end.

  (* Entity.apply_binding(BINDING_HTTP_REDIRECT, ...): sign_alg = sigalg or self.signing_algorithm is tested
     against the allow-list whether or not the message gets signed *)
  Definition apply_binding_redirect (k : key) (response : bool) (v rs : string) (sigalg : option string)
             (default_alg : string) (sgn : bool) : sres :=
    let a := match sigalg with
             | Some s => if is_empty s then default_alg else s
             | None => default_alg
             end in
    if negb (allowed a) then SExc
    else http_redirect_message k (if response then K_RESP else K_REQ) v rs (Some a) sgn.

  (* sigver.verify_redirect_signature(saml_msg, RSACrypto(own), cert)   (sigkey is never passed).
     strict = true is the code as it is now (fix 9a4284f6: only the canonical base64 text of the signature
     value is accepted: base64.b64encode(b64decode(sp)) must equal sp); strict = false is the pinned snapshot,
     which decoded the Signature parameter leniently (finding C15-F1, kept to recognise a regression) *)
  Definition verify_redirect_signature_gen (strict : bool) (own : key) (q : query) (c : option cert) : vres :=
    match get q K_ALG with
    | None => VKeyError                                  (* saml_msg["SigAlg"] *)
    | Some alg =>
        match digest_of alg with
        | None => VNone                                  (* get_signer -> None; "in SIGNER_ALGS" false: falls off the end *)
        | Some d =>
            match (if has q K_REQ then Some req_order else if has q K_RESP then Some resp_order else None) with
            | None => VUnsupported
            | Some order =>
                match get q K_SIG with
                | None => VKeyError                      (* del _args["Signature"] *)
                | Some sp =>
                    let m := octets order (remove K_SIG q) in
                    (* cert given: its public key; else key = None and the signer falls back on the backend's own key *)
                    let vk := match c with Some c' => c' | None => cert_of own end in
                    match decode_str sp with
                    | None => VValueError                (* binascii.Error / non-ASCII str *)
                    | Some s =>
                        if strict && negb (String.eqb (encode s) sp) then VFalse   (* not the canonical text *)
                        else if verify vk d m s then VTrue else VFalse
                    end
                end
            end
        end
    end.
  Definition verify_redirect_signature := verify_redirect_signature_gen true.
  Definition verify_redirect_signature_v0 := verify_redirect_signature_gen false.

  (* Request._do_redirect_sig_check at the accept/reject level, for READABLE certificates: "some certificate
     yields True" (the faithful loop, with unreadable certificates and exceptions, is do_redirect_sig_check_c
     below; Proofs.check_c_existsb relates the two) *)
  Definition do_redirect_sig_check (own : key) (certs : list cert) (q : query) : bool :=
    existsb (fun c => vres_eqb (verify_redirect_signature own q (Some c)) VTrue) certs.

  (* Request._loads, detached-signature part, binding = HTTP-Redirect, everything else about the
     request valid; must = want_authn_requests_signed *)
  Definition loads_redirect (own : key) (certs : list cert) (must : bool) (origdoc : string)
             (rs sigalg signature : option string) : bool :=
    if must then
      match sigalg, signature with
      | Some a, Some s =>
          let q := ([(K_REQ, origdoc); (K_SIG, s); (K_ALG, a)]
                     ++ match rs with Some r => [(K_RS, r)] | None => [] end)%list in
          do_redirect_sig_check own certs q
      | _, _ => false
      end
    else true.

  (* ---- the cert argument as the code distinguishes it (strengthening round 3).
     CAbsent: falsy (None or ""): "if cert:" is false, _key = sigkey = None, and RSASigner.verify falls back on
     the key of the backend (the verifying entity's own key).
     CCert c: pem_format + load_pem_x509_certificate succeed: the public key of certificate c.
     CUnreadable: extract_rsa_key_from_x509_cert raises ValueError (octets that are no X.509 certificate,
     text that is no base64 / no ASCII); this happens after the SigAlg / message type / Signature look-ups and
     before the Signature parameter is decoded (which raises ValueError as well) *)
  Definition verify_redirect_signature_c (own : key) (q : query) (ca : certarg cert) : vres :=
    match ca with
    | CAbsent _ => verify_redirect_signature own q None
    | CCert _ c => verify_redirect_signature own q (Some c)
    | CUnreadable _ =>
        match get q K_ALG with
        | None => VKeyError
        | Some alg =>
            match digest_of alg with
            | None => VNone
            | Some _ =>
                if has q K_REQ || has q K_RESP then
                  match get q K_SIG with
                  | None => VKeyError
                  | Some _ => VValueError             (* extract_rsa_key_from_x509_cert *)
                  end
                else VUnsupported
            end
        end
    end.

  (* Request._do_redirect_sig_check, the loop as coded (fix 2dad6239):
       for cert_name, cert in certs:
           try:
               if verify_redirect_signature(_saml_msg, backend, cert): verified = True; break
           except ValueError: (log) -- go on to the next certificate
     Some b = returns b; None = another exception propagates (the caller turns it into a rejection) *)
  Fixpoint do_redirect_sig_check_c (own : key) (certs : list (certarg cert)) (q : query) : option bool :=
    match certs with
    | [] => Some false
    | c :: r =>
        match verify_redirect_signature_c own q c with
        | VTrue => Some true
        | VFalse | VNone | VValueError => do_redirect_sig_check_c own r q
        | VKeyError | VUnsupported | VOther => None
        end
    end.

  Definition loads_redirect_c (own : key) (certs : list (certarg cert)) (must : bool) (origdoc : string)
             (rs sigalg signature : option string) : bool :=
    if must then
      match sigalg, signature with
      | Some a, Some s =>
          let q := ([(K_REQ, origdoc); (K_SIG, s); (K_ALG, a)]
                     ++ match rs with Some r => [(K_RS, r)] | None => [] end)%list in
          match do_redirect_sig_check_c own certs q with Some b => b | None => false end
      | _, _ => false
      end
    else true.

  (* ---- a life: the steps in order, the state threaded through *)
  Fixpoint upd_rcv (r : nat) (pub : list (list (certarg cert))) (st : list (receiver key cert))
    : list (receiver key cert) :=
    match st, r with
    | [], _ => []
    | rc :: t, O => mkrcv (r_own rc) (r_must rc) pub :: t
    | rc :: t, S r' => rc :: upd_rcv r' pub t
    end.

  Definition life_step (st : list (receiver key cert)) (s : lstep cert) : list (receiver key cert) * lres :=
    match s with
    | LReload r good pub => (if good then upd_rcv r pub st else st, RReload good)
    | LOther r => (st, ROther)
    | LRecv r iss origdoc rs sigalg signature =>
        (st, RRecv match nth_error st r with
                   | Some rc => loads_redirect_c (r_own rc) (nth iss (r_pub rc) []) (r_must rc) origdoc rs sigalg signature
                   | None => false
                   end)
    end.

  Fixpoint run_life (st : list (receiver key cert)) (steps : list (lstep cert)) : list lres :=
    match steps with
    | [] => []
    | s :: t => snd (life_step st s) :: run_life (fst (life_step st s)) t
    end.
End Crypto.
Arguments CAbsent {cert}.
Arguments CCert {cert} c.
Arguments CUnreadable {cert}.
