(* C15/Property.v — property theorems only.
   Signatures are ideal (Spec.ideal: Section hypotheses, no axioms); Proofs.ta_ideal shows them satisfiable. *)
From Coq Require Import String List Bool.
From Verif Require Import Base.Str Base.Percent Base.Base64 Base.Py Base.Py2 C15.Model C15.Spec C15.Proofs C15.Source2.
From VerifGen Require Import C15Tables C15Src2 C15Src2v C15Src2p.
Import ListNotations.
Open Scope string_scope.

(* the live tables: the allow-list is the five RSA-SHA* URIs, every allowed algorithm has a signer, both
   order tables are exactly [message; RelayState; SigAlg], URIs and digests are pairwise distinct *)
Theorem c15_tables :
  (forall a, In a (map snd sig_allowed_alg) <-> In a spec_allowed)
  /\ incl (map snd sig_allowed_alg) (map fst signer_algs)
  /\ req_order = ["SAMLRequest"; "RelayState"; "SigAlg"] /\ resp_order = ["SAMLResponse"; "RelayState"; "SigAlg"]
  /\ NoDup (map fst signer_algs) /\ NoDup (map snd signer_algs).
Proof. exact tables_ok. Qed.
Print Assumptions c15_tables.

(* the signed octet string determines direction, message value, presence and value of RelayState, SigAlg *)
Theorem octets_injective : forall t v r a t' v' r' a',
  dirtyp t -> dirtyp t' ->
  octets (order_for t) (args_of t v r a) = octets (order_for t') (args_of t' v' r' a') ->
  t = t' /\ v = v' /\ r = r' /\ a = a'.
Proof. exact octets_injective_model. Qed.
Print Assumptions octets_injective.

(* a URL signed by k carries the message, RelayState and SigAlg, and verifies under a certificate exactly
   when that certificate is cert_of k — for every message value, RelayState, allowed algorithm, direction *)
Theorem c15_verify : forall (key cert : Type) (cert_of : key -> cert) sign verify,
  ideal cert_of sign verify ->
  forall k t v r a, dirtyp t -> In a spec_allowed ->
  exists args, http_redirect_message sign k t v r (Some a) true = SArgs args
    /\ get args t = Some v /\ get args "RelayState" = (if is_empty r then None else Some r)
    /\ get args "SigAlg" = Some a
    /\ forall own q c, same_on keys5 q args ->
         (verify_redirect_signature cert_of verify own q (Some c) = VTrue <-> c = cert_of k).
Proof. exact @verify_thm. Qed.
Print Assumptions c15_verify.

(* whatever verifies under the signer's certificate has the message value, RelayState, SigAlg and Signature
   parameter of the signed URL — provided the Signature parameter presented is the URL's own or is not the
   base64 text of another signature made with the signer's key (no_other_sig: the adversary knows this one
   signature of the signer; every other change of the parameter is inside the quantifier) *)
Theorem c15_tamper : forall (key cert : Type) (cert_of : key -> cert) sign verify,
  ideal cert_of sign verify ->
  forall k t v r al args own q,
  http_redirect_message sign k t v r al true = SArgs args ->
  no_other_sig sign k q args ->
  verify_redirect_signature cert_of verify own q (Some (cert_of k)) = VTrue ->
  same_on [t; "RelayState"; "SigAlg"; "Signature"] q args.
Proof. exact @tamper_thm. Qed.
Print Assumptions c15_tamper.

(* the Signature parameter is not malleable (no guard on the adversary): parameter sets that agree on message
   value, RelayState and SigAlg and verify under the same certificate carry the same Signature parameter.  With
   c15_verify: next to the signed URL's own Signature parameter no other value verifies - no other base64 text and
   no other octet string for the same integer (leading zero octets dropped or added, s + n, ...) *)
Theorem c15_signature_unique : forall (key cert : Type) (cert_of : key -> cert) sign verify,
  ideal cert_of sign verify ->
  forall own own' q q' c,
  same_on ["SAMLRequest"; "SAMLResponse"; "RelayState"; "SigAlg"] q q' ->
  verify_redirect_signature cert_of verify own q (Some c) = VTrue ->
  verify_redirect_signature cert_of verify own' q' (Some c) = VTrue ->
  get q "Signature" = get q' "Signature".
Proof. exact @signature_unique. Qed.
Print Assumptions c15_signature_unique.

(* ... and this rests on key_verify accepting exactly ONE octet string per (certificate, digest, octets): for ANY
   verify function (nothing assumed) that accepts two different octet strings s, s' somewhere, two parameter sets
   that differ in nothing but the Signature parameter both verify *)
Theorem c15_one_signature_value_needed : forall (key cert : Type) (cert_of : key -> cert) verify own c t v r a d s s',
  dirtyp t -> digest_of a = Some d -> s <> s' ->
  verify c d (octets_of t v r a) s = true -> verify c d (octets_of t v r a) s' = true ->
  exists q q', same_on ["SAMLRequest"; "SAMLResponse"; "RelayState"; "SigAlg"] q q'
    /\ get q "Signature" <> get q' "Signature"
    /\ verify_redirect_signature cert_of verify own q (Some c) = VTrue
    /\ verify_redirect_signature cert_of verify own q' (Some c) = VTrue.
Proof. exact @malleable_verify_breaks. Qed.
Print Assumptions c15_one_signature_value_needed.

(* acceptance under c means: the owner of c signed exactly the octets determined by the presented message
   value, RelayState and SigAlg, with the digest of the presented SigAlg *)
Theorem c15_sound : forall (key cert : Type) (cert_of : key -> cert) sign verify,
  ideal cert_of sign verify ->
  forall own q c, verify_redirect_signature cert_of verify own q (Some c) = VTrue ->
  exists a d t v sp k, get q "SigAlg" = Some a /\ digest_of a = Some d /\ vview q = Some (t, v)
    /\ get q "Signature" = Some sp /\ c = cert_of k
    /\ sp = encode (sign k d (octets_of t v (get q "RelayState") a)).
Proof. exact @accept_sound. Qed.
Print Assumptions c15_sound.

(* algorithms outside the allow-list (or none) are refused for signing, for every message type *)
Theorem c15_allow : forall (key : Type) (sign : key -> string -> string -> string) k t v r al,
  ~ alg_allowed al -> http_redirect_message sign k t v r al true = SExc.
Proof. exact @refused_outside_allowlist. Qed.
Print Assumptions c15_allow.

(* an unsupported SigAlg is never verified (the function returns None) *)
Theorem c15_unsupported : forall (key cert : Type) (cert_of : key -> cert) verify own q c a,
  get q "SigAlg" = Some a -> ~ supported a -> verify_redirect_signature cert_of verify own q c = VNone.
Proof. exact @unsupported_not_verified. Qed.
Print Assumptions c15_unsupported.

(* the property as a whole, for every signing call and every verification call *)
Theorem c15_property : forall (key cert : Type) (cert_of : key -> cert) sign verify,
  ideal cert_of sign verify ->
  forall x : input key cert, guard cert_of sign verify x -> spec cert_of x (model cert_of sign verify x).
Proof. exact @spec_holds. Qed.
Print Assumptions c15_property.

(* finding C15-F1 (repaired by fix: 9a4284f6): the pinned snapshot decoded the Signature parameter leniently,
   so a changed Signature parameter ("!" prepended) still verified — the property is false of model_v0 *)
Theorem c15_f1_v0_refuted : forall (key cert : Type) (cert_of : key -> cert) sign verify,
  ideal cert_of sign verify -> key ->
  exists x : input key cert, ~ spec cert_of x (model_v0 cert_of sign verify x).
Proof. exact @f1_refuted. Qed.
Print Assumptions c15_f1_v0_refuted.

(* the boolean spec that Coq evaluates on the implementation's recorded outputs is the stated spec *)
Theorem c15_spec_reflect : forall (key cert : Type) (cert_of : key -> cert) (cert_eqb : cert -> cert -> bool),
  (forall c c', cert_eqb c c' = true <-> c = c') ->
  forall (x : input key cert) o, spec_b cert_of cert_eqb x o = true <-> spec cert_of x o.
Proof. exact @spec_b_iff. Qed.
Print Assumptions c15_spec_reflect.

(* Request._loads with want_authn_requests_signed on the redirect binding: acceptance means a registered
   certificate's owner signed the octets of (SAMLRequest as received, RelayState as received, SigAlg) *)
Theorem c15_request : forall (key cert : Type) (cert_of : key -> cert) sign verify,
  ideal cert_of sign verify ->
  forall own certs origdoc rs sigalg signature,
  loads_redirect cert_of verify own certs true origdoc rs sigalg signature = true ->
  exists a sp d k, sigalg = Some a /\ signature = Some sp /\ In (cert_of k) certs /\ digest_of a = Some d
    /\ sp = encode (sign k d (octets_of "SAMLRequest" origdoc rs a)).
Proof. exact @request_sound. Qed.
Print Assumptions c15_request.

(* --- the cert argument in all its forms (strengthening round 3) --- *)

(* octets that are no X.509 certificate verify nothing - whatever parameters are presented, whoever verifies, for
   ANY verify function: an unreadable certificate never brings another key (the verifier's own) into play *)
Theorem c15_unreadable : forall (key cert : Type) (cert_of : key -> cert) verify own q,
  verify_redirect_signature_c cert_of verify own q CUnreadable <> VTrue.
Proof. exact @unreadable_not_verified. Qed.
Print Assumptions c15_unreadable.

(* without any certificate the verifier's own certificate is used, nothing else *)
Theorem c15_absent_is_own : forall (key cert : Type) (cert_of : key -> cert) verify own q,
  verify_redirect_signature_c cert_of verify own q CAbsent
  = verify_redirect_signature_c cert_of verify own q (CCert (cert_of own)).
Proof. exact @absent_is_own. Qed.
Print Assumptions c15_absent_is_own.

(* an unsupported SigAlg is never verified, whatever the form of the certificate *)
Theorem c15_unsupported_c : forall (key cert : Type) (cert_of : key -> cert) verify own q ca a,
  get q "SigAlg" = Some a -> ~ supported a -> verify_redirect_signature_c cert_of verify own q ca = VNone.
Proof. exact @unsupported_not_verified_c. Qed.
Print Assumptions c15_unsupported_c.

(* the loop of Request._do_redirect_sig_check as coded (ValueError: next certificate; other exceptions
   propagate) returns True exactly when some READABLE published certificate verifies *)
Theorem c15_check_loop : forall (key cert : Type) (cert_of : key -> cert) verify own certs q,
  do_redirect_sig_check_c cert_of verify own certs q = Some true
  <-> do_redirect_sig_check cert_of verify own (readable cert_of own certs) q = true.
Proof. exact @check_c_existsb. Qed.
Print Assumptions c15_check_loop.

(* c15_request over published certificates of every form: acceptance means the owner of a READABLE published
   certificate signed; unreadable entries stand for nobody *)
Theorem c15_request_c : forall (key cert : Type) (cert_of : key -> cert) sign verify,
  ideal cert_of sign verify ->
  forall own certs origdoc rs sigalg signature,
  (forall ca, In ca certs -> ca <> CAbsent) ->
  loads_redirect_c cert_of verify own certs true origdoc rs sigalg signature = true ->
  exists a sp d k, sigalg = Some a /\ signature = Some sp /\ In (CCert (cert_of k)) certs /\ digest_of a = Some d
    /\ sp = encode (sign k d (octets_of "SAMLRequest" origdoc rs a)).
Proof. exact @request_sound_c. Qed.
Print Assumptions c15_request_c.

(* --- the allow-list on the verifying side (strengthening round 6) ---
   "An unsupported SigAlg is never treated as verified", with supported = the five allowed algorithms (Spec.supported;
   until round 6: whatever the live signer table named).  The live table SIGNER_ALGS names no other URI ... *)
Theorem c15_signers_allowed : forall a, In a (map fst signer_algs) -> In a spec_allowed.
Proof. exact signer_algs_allowed. Qed.
Print Assumptions c15_signers_allowed.

(* ... hence whatever verify_redirect_signature answers True to carries an allowed SigAlg - for every certificate
   argument, every verifier, every verify function (however genuine the signature is for the algorithm named) ... *)
Theorem c15_verified_alg_allowed : forall (key cert : Type) (cert_of : key -> cert) verify own q ca,
  verify_redirect_signature_c cert_of verify own q ca = VTrue ->
  exists a, get q "SigAlg" = Some a /\ In a spec_allowed.
Proof. exact @verified_alg_allowed. Qed.
Print Assumptions c15_verified_alg_allowed.

(* ... and a receiver that requires signatures accepts a request only with an allowed SigAlg, whatever is published *)
Theorem c15_request_alg_allowed : forall (key cert : Type) (cert_of : key -> cert) verify own certs origdoc rs sigalg signature,
  loads_redirect_c cert_of verify own certs true origdoc rs sigalg signature = true ->
  exists a, sigalg = Some a /\ In a spec_allowed.
Proof. exact @request_alg_allowed. Qed.
Print Assumptions c15_request_alg_allowed.

(* --- the receiving entry point: presence of the detached parameters (strengthening round 4) ---
   rs / sigalg / signature are the arguments of Server.parse_authn_request / Entity.parse_logout_request as they
   reach Request._loads: None = not passed, Some "" = a parameter that is present and empty *)

(* the Signature parameter of a signed URL is accepted only together with that URL's own message value, SigAlg and
   RelayState, PRESENCE included: rs = None exactly when the URL was signed without RelayState *)
Theorem c15_request_binds : forall (key cert : Type) (cert_of : key -> cert) sign verify,
  ideal cert_of sign verify ->
  forall k v r al args own certs origdoc rs sigalg,
  http_redirect_message sign k "SAMLRequest" v r al true = SArgs args ->
  (forall ca, In ca certs -> ca <> CAbsent) ->
  loads_redirect_c cert_of verify own certs true origdoc rs sigalg (get args "Signature") = true ->
  origdoc = v /\ rs = (if is_empty r then None else Some r) /\ sigalg = al.
Proof. exact @request_binds. Qed.
Print Assumptions c15_request_binds.

(* ... so `RelayState=` (present, empty) added to, or left of, a signed URL is never accepted *)
Theorem c15_empty_relay_state_refused : forall (key cert : Type) (cert_of : key -> cert) sign verify,
  ideal cert_of sign verify ->
  forall k v r al args own certs origdoc sigalg,
  http_redirect_message sign k "SAMLRequest" v r al true = SArgs args ->
  (forall ca, In ca certs -> ca <> CAbsent) ->
  loads_redirect_c cert_of verify own certs true origdoc (Some "") sigalg (get args "Signature") = false.
Proof. exact @empty_relay_state_refused. Qed.
Print Assumptions c15_empty_relay_state_refused.

(* the URL as produced, handed over parameter by parameter (absent RelayState as None), is accepted whenever the
   signer's certificate is published readably for the issuer, whatever is published next to it *)
Theorem c15_request_complete : forall (key cert : Type) (cert_of : key -> cert) sign verify,
  ideal cert_of sign verify ->
  forall k v r a own certs, In a spec_allowed -> In (CCert (cert_of k)) certs ->
  exists args, http_redirect_message sign k "SAMLRequest" v r (Some a) true = SArgs args
    /\ get args "RelayState" = (if is_empty r then None else Some r)
    /\ loads_redirect_c cert_of verify own certs true v (get args "RelayState") (get args "SigAlg")
         (get args "Signature") = true.
Proof. exact @request_complete. Qed.
Print Assumptions c15_request_complete.

(* necessity of `relay_state is not None` in Request._loads (and of handing relay_state over unchanged): a receiver
   that looks at the truth value instead (Proofs.truthy: "" becomes None) accepts, for every message and allowed
   algorithm, the URL signed without RelayState after an empty RelayState parameter was added *)
Theorem c15_presence_test_needed : forall (key cert : Type) (cert_of : key -> cert) sign verify,
  ideal cert_of sign verify ->
  forall k v a own certs, In a spec_allowed -> In (CCert (cert_of k)) certs ->
  exists args, http_redirect_message sign k "SAMLRequest" v "" (Some a) true = SArgs args
    /\ get args "RelayState" = None
    /\ loads_redirect_c cert_of verify own certs true v (truthy (Some "")) (get args "SigAlg")
         (get args "Signature") = true.
Proof. exact @truthy_accepts_added_empty. Qed.
Print Assumptions c15_presence_test_needed.

(* --- long-lived receivers (strengthening round 5) ---
   A life = receptions (LRecv), metadata reloads that succeed or fail (LReload), anything else (LOther: look-ups,
   sending) in any order on any number of receivers; run_life threads the receivers' state through the steps.
   Spec.published_now st0 before r = what the last successful reload of receiver r among `before` published (found by
   looking BACK from the reception), or r's configuration when there was none. *)

(* a reception anywhere in any life answers what a receiver freshly set up with the metadata of now answers: nothing
   received, looked up, sent or loaded earlier plays a part *)
Theorem c15_life_fresh : forall (key cert : Type) (cert_of : key -> cert) verify,
  forall (st0 : list (receiver key cert)) before after r iss origdoc rs sigalg signature rc pub,
  nth_error st0 r = Some rc -> published_now st0 before r = Some pub ->
  nth_error (run_life cert_of verify st0 (before ++ LRecv r iss origdoc rs sigalg signature :: after)) (length before)
  = Some (RRecv (loads_redirect_c cert_of verify (r_own rc) (nth iss pub []) (r_must rc) origdoc rs sigalg signature)).
Proof. exact @life_fresh. Qed.
Print Assumptions c15_life_fresh.

(* acceptance at any point of any life means: the owner of a certificate that the metadata holds NOW for the issuer
   signed exactly what was handed over - a certificate withdrawn by a reload verifies nothing any more *)
Theorem c15_life_sound : forall (key cert : Type) (cert_of : key -> cert) sign verify,
  ideal cert_of sign verify ->
  forall (st0 : list (receiver key cert)) before after r iss origdoc rs sigalg signature rc pub,
  nth_error st0 r = Some rc -> published_now st0 before r = Some pub -> r_must rc = true ->
  (forall ca, In ca (nth iss pub []) -> ca <> CAbsent) ->
  nth_error (run_life cert_of verify st0 (before ++ LRecv r iss origdoc rs sigalg signature :: after)) (length before)
    = Some (RRecv true) ->
  exists a sp d k, sigalg = Some a /\ signature = Some sp /\ In (CCert (cert_of k)) (nth iss pub [])
    /\ digest_of a = Some d /\ sp = encode (sign k d (octets_of "SAMLRequest" origdoc rs a)).
Proof. exact @life_sound. Qed.
Print Assumptions c15_life_sound.

(* the URL an entity signed is accepted at every point of every life at which the metadata holds that entity's
   certificate for the issuer - in particular right after the reload that introduced it *)
Theorem c15_life_complete : forall (key cert : Type) (cert_of : key -> cert) sign verify,
  ideal cert_of sign verify ->
  forall (st0 : list (receiver key cert)) before after r iss rc pub k v rl a,
  nth_error st0 r = Some rc -> published_now st0 before r = Some pub -> r_must rc = true ->
  In a spec_allowed -> In (CCert (cert_of k)) (nth iss pub []) ->
  exists args, http_redirect_message sign k "SAMLRequest" v rl (Some a) true = SArgs args
    /\ nth_error (run_life cert_of verify st0
                    (before ++ LRecv r iss v (get args "RelayState") (get args "SigAlg") (get args "Signature") :: after))
                 (length before) = Some (RRecv true).
Proof. exact @life_complete. Qed.
Print Assumptions c15_life_complete.

(* the smallest life that a certificate memo breaks: reception, key roll-over + reload, reception.  Whatever the
   first reception was, a signature made with a key whose certificate the reload no longer publishes is refused *)
Theorem c15_withdrawn_refused : forall (key cert : Type) (cert_of : key -> cert) sign verify,
  ideal cert_of sign verify ->
  forall own pub0 pub1 iss k d0 rs0 sa0 sg0 origdoc rs sigalg signature,
  (forall ca, In ca (nth iss pub1 []) -> ca <> CAbsent) ->
  ~ In (CCert (cert_of k)) (nth iss pub1 []) ->
  (forall a d, sigalg = Some a -> digest_of a = Some d ->
     signature = Some (encode (sign k d (octets_of "SAMLRequest" origdoc rs a)))) ->
  nth_error (run_life cert_of verify [mkrcv own true pub0]
               [LRecv 0 iss d0 rs0 sa0 sg0; LReload 0 true pub1; LRecv 0 iss origdoc rs sigalg signature]) 2
  = Some (RRecv false).
Proof. exact @withdrawn_refused. Qed.
Print Assumptions c15_withdrawn_refused.

(* the ideal-signature hypotheses are satisfiable (term algebra) *)
Theorem c15_ideal_satisfiable : ideal ta_cert_of ta_sign ta_verify.
Proof. exact ta_ideal. Qed.
Print Assumptions c15_ideal_satisfiable.

(* ================================================================== source tie, translator v2 (proofs: C15/Source2.v).
   gen/C15Src2.v and gen/C15Src2v.v are re-translated from the CURRENT source text on every run; each theorem says, for
   ALL inputs, that the translated function on the encoded model input gives the (encoded) output of the model function
   it mirrors.  External calls are universally quantified functions with the stated properties. *)

(* RSACrypto.get_signer: KeyError -> None; else a new signer with the shared signer's digest and `sigkey or self.key` *)
Theorem c15_source2_get_signer : forall own alg sk, is_bad own = false -> sigkey_ok sk ->
  src2_get_signer signer_algs_py (enc_crypto own) (PStr alg) sk
  = match digest_of alg with Some d => enc_signer d (or_key sk own) | None => PNone end.
Proof. exact src2_get_signer_is_model. Qed.
Print Assumptions c15_source2_get_signer.

(* RSASigner.verify: key_verify(key or self.key, sig, msg, self.digest) *)
Theorem c15_source2_signer_verify : forall (kv : pyval -> pyval -> pyval -> pyval -> pyval) d k0 m s k,
  is_bad k0 = false -> is_bad m = false -> is_bad s = false -> is_bad k = false ->
  src2_signer_verify kv (enc_signer d k0) m s k = kv (or_key k k0) s m (PStr d).
Proof. exact src2_signer_verify_is_model. Qed.
Print Assumptions c15_source2_signer_verify.

(* RSASigner.sign: key_sign(key or self.key, msg, self.digest) *)
Theorem c15_source2_signer_sign : forall (ks : pyval -> pyval -> pyval -> pyval) d k0 m k,
  is_bad k0 = false -> is_bad m = false -> is_bad k = false ->
  src2_signer_sign ks (enc_signer d k0) m k = ks (or_key k k0) m (PStr d).
Proof. exact src2_signer_sign_is_model. Qed.
Print Assumptions c15_source2_signer_sign.

(* sigver.verify_redirect_signature (calls the translations of get_signer and RSASigner.verify), sigkey = None, for
   every parameter dict, every verifier and every form of the cert argument: the model's verify_redirect_signature_c *)
Theorem c15_source2_verify_redirect_signature :
  forall (key cert : Type) (cert_of : key -> cert) (verify : cert -> string -> string -> string -> bool)
         (enc_key : key -> pyval) (enc_pub : cert -> pyval),
  (forall k, keyval (enc_key k)) -> (forall c, keyval (enc_pub c)) ->
  forall (urlencode_ext pem_format_ext cert_key_ext encode_ascii_ext b64decode_ext b64encode_ext : pyval -> pyval)
         (key_verify_ext : pyval -> pyval -> pyval -> pyval -> pyval),
  (forall k v, urlencode_ext (PObj [(k, PStr v)]) = PStr (urlencode1 k v)) ->
  (forall s, encode_ascii_ext (PStr s) = if all_chars Base64.is_ascii_char s then PStr s else PExc "UnicodeEncodeError") ->
  (forall s, b64decode_ext (PStr s) = match decode s with Some b => PStr b | None => PExc "Error" end) ->
  (forall b, b64encode_ext (PStr b) = PStr (encode b)) ->
  (forall c d m s, key_verify_ext (enc_pub c) (PStr s) (PStr m) (PStr d) = PBool (verify c d m s)) ->
  (forall k d m s, key_verify_ext (enc_key k) (PStr s) (PStr m) (PStr d) = PBool (verify (cert_of k) d m s)) ->
  forall own q ca cv, dict_ok q -> cert_repr enc_pub pem_format_ext cert_key_ext ca cv ->
  vres_of (src2_verify_redirect_signature signer_algs_py req_order_py resp_order_py urlencode_ext pem_format_ext
             cert_key_ext encode_ascii_ext b64decode_ext b64encode_ext key_verify_ext
             (enc_q q) (enc_crypto (enc_key own)) cv PNone)
  = verify_redirect_signature_c cert_of verify own q ca.
Proof. exact @src2_verify_redirect_signature_is_model. Qed.
Print Assumptions c15_source2_verify_redirect_signature.

(* Request._do_redirect_sig_check: the loop over the published certificates (ValueError: next one; other exceptions
   propagate; break on the first that verifies) is the model's do_redirect_sig_check_c *)
Theorem c15_source2_do_redirect_sig_check :
  forall (key cert : Type) (cert_of : key -> cert) (verify : cert -> string -> string -> string -> bool)
         (own : key) (q : query) (certs : list (certarg cert))
         (sender_ext : pyval -> pyval) (certs_ext : pyval -> pyval -> pyval) (vrs_ext : pyval -> pyval -> pyval -> pyval)
         (cert_text : certarg cert -> pyval) (backend msg : pyval),
  is_bad backend = false -> is_bad msg = false -> (forall ca, is_bad (cert_text ca) = false) ->
  is_bad (sender_ext (enc_request backend)) = false ->
  certs_ext (enc_request backend) (sender_ext (enc_request backend))
    = PList (map (fun ca => PList [PNone; cert_text ca]) certs) ->
  (forall ca, In ca certs ->
     vres_of (vrs_ext msg backend (cert_text ca)) = verify_redirect_signature_c cert_of verify own q ca) ->
  check_of (src2_do_redirect_sig_check sender_ext certs_ext vrs_ext (enc_request backend) msg)
  = Some (do_redirect_sig_check_c cert_of verify own certs q).
Proof. exact @src2_do_redirect_sig_check_is_model. Qed.
Print Assumptions c15_source2_do_redirect_sig_check.

(* pack.http_redirect_message with sign=True (calls the translations of get_signer and RSASigner.sign), every message,
   RelayState, algorithm argument (None included) and message type except SAMLart: the model's http_redirect_message *)
Theorem c15_source2_http_redirect_message :
  forall (key : Type) (sign : key -> string -> string -> string) (enc_key : key -> pyval),
  (forall k, keyval (enc_key k)) ->
  forall (deflate : string -> string) (add_query : string -> string -> string)
         (urlencode_ext deflate_b64_ext encode_ascii_ext b64encode_ext : pyval -> pyval)
         (add_query_ext : pyval -> pyval -> pyval) (key_sign_ext : pyval -> pyval -> pyval -> pyval),
  (forall l, urlencode_ext (enc_q l) = PStr (urlencode l)) ->
  (forall m, deflate_b64_ext (PStr m) = PStr (deflate m)) ->
  (forall loc s, add_query_ext (PStr loc) (PStr s) = PStr (add_query loc s)) ->
  (forall s, encode_ascii_ext (PStr s) = if all_chars Base64.is_ascii_char s then PStr s else PExc "UnicodeEncodeError") ->
  (forall b, b64encode_ext (PStr b) = PStr (encode b)) ->
  (forall k d m, key_sign_ext (enc_key k) (PStr m) (PStr d) = PStr (sign k d m)) ->
  forall k msg loc rs typ alg, String.eqb typ "SAMLart" = false ->
  src2_http_redirect_message signer_algs_py req_order_py resp_order_py sig_allowed_alg_py urlencode_ext deflate_b64_ext
    add_query_ext encode_ascii_ext b64encode_ext key_sign_ext
    (PStr msg) (PStr loc) (PStr rs) (PStr typ) (enc_optstr alg) (PBool true) (enc_crypto (enc_key k))
  = enc_sres add_query loc (http_redirect_message sign k typ (deflate msg) rs alg true).
Proof. exact @src2_http_redirect_message_is_model. Qed.
Print Assumptions c15_source2_http_redirect_message.

(* --- the receiving entry points (strengthening round 6): translated from the current source text, proved to be
   pass-throughs for ANY callee - the SAMLRequest value, RelayState, SigAlg and Signature that the entry point is
   handed are the ones Entity._parse_request / Request._loads get *)
Theorem c15_source2_parse_authn_request :
  forall (parse_request_ext : pyval -> pyval -> pyval -> pyval -> pyval -> pyval -> pyval -> pyval -> pyval)
         self enc binding rs sigalg sg,
  is_bad enc = false -> is_bad binding = false -> is_bad rs = false -> is_bad sigalg = false -> is_bad sg = false ->
  src2_parse_authn_request parse_request_ext self enc binding rs sigalg sg
  = parse_request_ext self enc (PStr "class AuthnRequest") (PStr "single_sign_on_service") binding rs sigalg sg.
Proof. exact src2_parse_authn_request_hands_over. Qed.
Print Assumptions c15_source2_parse_authn_request.

Theorem c15_source2_parse_logout_request :
  forall (parse_request_ext : pyval -> pyval -> pyval -> pyval -> pyval -> pyval -> pyval -> pyval -> pyval)
         self enc binding rs sigalg sg,
  is_bad enc = false -> is_bad binding = false -> is_bad rs = false -> is_bad sigalg = false -> is_bad sg = false ->
  src2_parse_logout_request parse_request_ext self enc binding rs sigalg sg
  = parse_request_ext self enc (PStr "class LogoutRequest") (PStr "single_logout_service") binding rs sigalg sg.
Proof. exact src2_parse_logout_request_hands_over. Qed.
Print Assumptions c15_source2_parse_logout_request.

Theorem c15_source2_request_loads :
  forall (loads_ext : pyval -> pyval -> pyval -> pyval -> pyval -> pyval -> pyval -> pyval -> pyval -> pyval)
         self xmldata binding origdoc must ovc rs sigalg sg,
  is_bad xmldata = false -> is_bad binding = false -> is_bad origdoc = false -> is_bad must = false ->
  is_bad ovc = false -> is_bad rs = false -> is_bad sigalg = false -> is_bad sg = false ->
  src2_request_loads loads_ext self xmldata binding origdoc must ovc rs sigalg sg
  = loads_ext self xmldata binding origdoc must ovc rs sigalg sg.
Proof. exact src2_request_loads_hands_over. Qed.
Print Assumptions c15_source2_request_loads.

(* Entity._parse_request, for ALL externals and arguments: an exception leaves it, or the result is pr_tail of
   _request.loads(.., origdoc=enc_request, .., relay_state=relay_state, sigalg=sigalg, signature=signature) with the
   four received values unchanged (Source2.handed_over) *)
Theorem c15_source2_parse_request :
  forall (endpoint_ext : pyval -> pyval -> pyval -> pyval -> pyval)
         (mkreq_ext : pyval -> pyval -> pyval -> pyval -> pyval -> pyval)
         (unravel_ext : pyval -> pyval -> pyval -> pyval -> pyval)
         (cfg_getattr_ext : pyval -> pyval -> pyval -> pyval)
         (loads_ext : pyval -> pyval -> pyval -> pyval -> pyval -> pyval -> pyval -> pyval -> pyval -> pyval)
         (verify_ext : pyval -> pyval) (enc binding rs sigalg sg self request_cls service : pyval),
  handed_over loads_ext verify_ext enc binding rs sigalg sg
    (src2_parse_request endpoint_ext mkreq_ext unravel_ext cfg_getattr_ext loads_ext verify_ext
                        self enc request_cls service binding rs sigalg sg).
Proof. exact src2_parse_request_hands_over. Qed.
Print Assumptions c15_source2_parse_request.
