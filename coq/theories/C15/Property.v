(* C15/Property.v — property theorems only.
   Signatures are ideal (Spec.ideal: Section hypotheses, no axioms); Proofs.ta_ideal shows them satisfiable. *)
From Coq Require Import String List Bool.
From Verif Require Import Base.Str Base.Percent Base.Base64 C15.Model C15.Spec C15.Proofs.
From VerifGen Require Import C15Tables.
Import ListNotations.
Open Scope string_scope.

(* the live tables: the allow-list is the five RSA-SHA* URIs, every allowed algorithm has a signer, both
   order tables are exactly [message; RelayState; SigAlg], URIs and digests are pairwise distinct *)
Theorem c15_tables :
  (forall a, In a (map snd sig_allowed_alg) <-> In a spec_allowed)
  /\ incl (map snd sig_allowed_alg) (map fst signer_algs)
  /\ req_order = ["SAMLRequest"; "RelayState"; "SigAlg"] /\ resp_order = ["SAMLResponse"; "RelayState"; "SigAlg"]
  /\ NoDup (map fst signer_algs) /\ NoDup (map snd signer_algs).
Proof. exact tables_ok. Qed.
Print Assumptions c15_tables.

(* the signed octet string determines direction, message value, presence and value of RelayState, SigAlg *)
Theorem octets_injective : forall t v r a t' v' r' a',
  dirtyp t -> dirtyp t' ->
  octets (order_for t) (args_of t v r a) = octets (order_for t') (args_of t' v' r' a') ->
  t = t' /\ v = v' /\ r = r' /\ a = a'.
Proof. exact octets_injective_model. Qed.
Print Assumptions octets_injective.

(* a URL signed by k carries the message, RelayState and SigAlg, and verifies under a certificate exactly
   when that certificate is cert_of k — for every message value, RelayState, allowed algorithm, direction *)
Theorem c15_verify : forall (key cert : Type) (cert_of : key -> cert) sign verify,
  ideal cert_of sign verify ->
  forall k t v r a, dirtyp t -> In a spec_allowed ->
  exists args, http_redirect_message sign k t v r (Some a) true = SArgs args
    /\ get args t = Some v /\ get args "RelayState" = (if is_empty r then None else Some r)
    /\ get args "SigAlg" = Some a
    /\ forall own q c, same_on keys5 q args ->
         (verify_redirect_signature cert_of verify own q (Some c) = VTrue <-> c = cert_of k).
Proof. exact @verify_thm. Qed.
Print Assumptions c15_verify.

(* whatever verifies under the signer's certificate has the message value, RelayState, SigAlg and Signature
   parameter of the signed URL — provided the Signature parameter presented is the URL's own or is not the
   base64 text of another signature made with the signer's key (no_other_sig: the adversary knows this one
   signature of the signer; every other change of the parameter is inside the quantifier) *)
Theorem c15_tamper : forall (key cert : Type) (cert_of : key -> cert) sign verify,
  ideal cert_of sign verify ->
  forall k t v r al args own q,
  http_redirect_message sign k t v r al true = SArgs args ->
  no_other_sig sign k q args ->
  verify_redirect_signature cert_of verify own q (Some (cert_of k)) = VTrue ->
  same_on [t; "RelayState"; "SigAlg"; "Signature"] q args.
Proof. exact @tamper_thm. Qed.
Print Assumptions c15_tamper.

(* the Signature parameter is not malleable (no guard on the adversary): parameter sets that agree on message
   value, RelayState and SigAlg and verify under the same certificate carry the same Signature parameter.  With
   c15_verify: next to the signed URL's own Signature parameter no other value verifies - no other base64 text and
   no other octet string for the same integer (leading zero octets dropped or added, s + n, ...) *)
Theorem c15_signature_unique : forall (key cert : Type) (cert_of : key -> cert) sign verify,
  ideal cert_of sign verify ->
  forall own own' q q' c,
  same_on ["SAMLRequest"; "SAMLResponse"; "RelayState"; "SigAlg"] q q' ->
  verify_redirect_signature cert_of verify own q (Some c) = VTrue ->
  verify_redirect_signature cert_of verify own' q' (Some c) = VTrue ->
  get q "Signature" = get q' "Signature".
Proof. exact @signature_unique. Qed.
Print Assumptions c15_signature_unique.

(* ... and this rests on key_verify accepting exactly ONE octet string per (certificate, digest, octets): for ANY
   verify function (nothing assumed) that accepts two different octet strings s, s' somewhere, two parameter sets
   that differ in nothing but the Signature parameter both verify *)
Theorem c15_one_signature_value_needed : forall (key cert : Type) (cert_of : key -> cert) verify own c t v r a d s s',
  dirtyp t -> digest_of a = Some d -> s <> s' ->
  verify c d (octets_of t v r a) s = true -> verify c d (octets_of t v r a) s' = true ->
  exists q q', same_on ["SAMLRequest"; "SAMLResponse"; "RelayState"; "SigAlg"] q q'
    /\ get q "Signature" <> get q' "Signature"
    /\ verify_redirect_signature cert_of verify own q (Some c) = VTrue
    /\ verify_redirect_signature cert_of verify own q' (Some c) = VTrue.
Proof. exact @malleable_verify_breaks. Qed.
Print Assumptions c15_one_signature_value_needed.

(* acceptance under c means: the owner of c signed exactly the octets determined by the presented message
   value, RelayState and SigAlg, with the digest of the presented SigAlg *)
Theorem c15_sound : forall (key cert : Type) (cert_of : key -> cert) sign verify,
  ideal cert_of sign verify ->
  forall own q c, verify_redirect_signature cert_of verify own q (Some c) = VTrue ->
  exists a d t v sp k, get q "SigAlg" = Some a /\ digest_of a = Some d /\ vview q = Some (t, v)
    /\ get q "Signature" = Some sp /\ c = cert_of k
    /\ sp = encode (sign k d (octets_of t v (get q "RelayState") a)).
Proof. exact @accept_sound. Qed.
Print Assumptions c15_sound.

(* algorithms outside the allow-list (or none) are refused for signing, for every message type *)
Theorem c15_allow : forall (key : Type) (sign : key -> string -> string -> string) k t v r al,
  ~ alg_allowed al -> http_redirect_message sign k t v r al true = SExc.
Proof. exact @refused_outside_allowlist. Qed.
Print Assumptions c15_allow.

(* an unsupported SigAlg is never verified (the function returns None) *)
Theorem c15_unsupported : forall (key cert : Type) (cert_of : key -> cert) verify own q c a,
  get q "SigAlg" = Some a -> ~ supported a -> verify_redirect_signature cert_of verify own q c = VNone.
Proof. exact @unsupported_not_verified. Qed.
Print Assumptions c15_unsupported.

(* the property as a whole, for every signing call and every verification call *)
Theorem c15_property : forall (key cert : Type) (cert_of : key -> cert) sign verify,
  ideal cert_of sign verify ->
  forall x : input key cert, guard cert_of sign verify x -> spec cert_of x (model cert_of sign verify x).
Proof. exact @spec_holds. Qed.
Print Assumptions c15_property.

(* finding C15-F1 (repaired by fix: 9a4284f6): the pinned snapshot decoded the Signature parameter leniently,
   so a changed Signature parameter ("!" prepended) still verified — the property is false of model_v0 *)
Theorem c15_f1_v0_refuted : forall (key cert : Type) (cert_of : key -> cert) sign verify,
  ideal cert_of sign verify -> key ->
  exists x : input key cert, ~ spec cert_of x (model_v0 cert_of sign verify x).
Proof. exact @f1_refuted. Qed.
Print Assumptions c15_f1_v0_refuted.

(* the boolean spec that Coq evaluates on the implementation's recorded outputs is the stated spec *)
Theorem c15_spec_reflect : forall (key cert : Type) (cert_of : key -> cert) (cert_eqb : cert -> cert -> bool),
  (forall c c', cert_eqb c c' = true <-> c = c') ->
  forall (x : input key cert) o, spec_b cert_of cert_eqb x o = true <-> spec cert_of x o.
Proof. exact @spec_b_iff. Qed.
Print Assumptions c15_spec_reflect.

(* Request._loads with want_authn_requests_signed on the redirect binding: acceptance means a registered
   certificate's owner signed the octets of (SAMLRequest as received, RelayState as received, SigAlg) *)
Theorem c15_request : forall (key cert : Type) (cert_of : key -> cert) sign verify,
  ideal cert_of sign verify ->
  forall own certs origdoc rs sigalg signature,
  loads_redirect cert_of verify own certs true origdoc rs sigalg signature = true ->
  exists a sp d k, sigalg = Some a /\ signature = Some sp /\ In (cert_of k) certs /\ digest_of a = Some d
    /\ sp = encode (sign k d (octets_of "SAMLRequest" origdoc rs a)).
Proof. exact @request_sound. Qed.
Print Assumptions c15_request.

(* the ideal-signature hypotheses are satisfiable (term algebra) *)
Theorem c15_ideal_satisfiable : ideal ta_cert_of ta_sign ta_verify.
Proof. exact ta_ideal. Qed.
Print Assumptions c15_ideal_satisfiable.
