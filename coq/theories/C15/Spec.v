(* C15/Spec.v — the property, stated over the inputs of one signing call and one verification call and
   their OBSERVABLE results.  Written from the property text, not from the model.

   "A redirect URL signed by an entity verifies under that entity's certificate for every message,
    RelayState and allowed signature algorithm, and fails to verify after any change to the
    SAMLRequest/SAMLResponse value, the RelayState, the SigAlg or the Signature parameter, or under any
    other entity's key.  Signature algorithms outside the allowed list are refused for signing, and an
    unsupported SigAlg is never treated as verified." *)
From Coq Require Import String List Bool.
From Verif Require Import Base.Str Base.Base64 C15.Model.
From VerifGen Require Import C15Tables.
Import ListNotations.
Open Scope string_scope.

(* the five allowed RSA-SHA* algorithms *)
Definition spec_allowed : list string :=
  ["http://www.w3.org/2000/09/xmldsig#rsa-sha1";
   "http://www.w3.org/2001/04/xmldsig-more#rsa-sha224";
   "http://www.w3.org/2001/04/xmldsig-more#rsa-sha256";
   "http://www.w3.org/2001/04/xmldsig-more#rsa-sha384";
   "http://www.w3.org/2001/04/xmldsig-more#rsa-sha512"].

(* supported = one of the five algorithms the property supports.  (Until strengthening round 6 this read "the
   implementation has a signer for the URI", i.e. the live table SIGNER_ALGS: the clause "an unsupported SigAlg is
   never treated as verified" then said nothing about a URI that the implementation comes to support, such as
   rsa-md5 with a genuine RSA-MD5 signature.  What the live table contains is the MODEL's business:
   Proofs.signer_algs_allowed re-checks on every run that it names no URI outside this list.) *)
Definition supported (a : string) : Prop := In a spec_allowed.

Definition dict_eq (a b : query) : Prop := forall k, get a k = get b k.
Definition same_on (keys : list string) (a b : query) : Prop := forall k, In k keys -> get a k = get b k.
Definition keys5 : list string := [K_REQ; K_RESP; K_RS; K_ALG; K_SIG].
Definition dirtyp (t : string) : Prop := t = K_REQ \/ t = K_RESP.
Definition alg_allowed (al : option string) : Prop := exists a, al = Some a /\ In a spec_allowed.

(* ---- long-lived receivers (strengthening round 5).  "Verifies under that entity's certificate ... and under no
   other key" speaks about the certificate the entity has NOW: for a receiver that lives through metadata reloads
   this is what the last reload that succeeded published (or, before any, what it was configured with) - whatever
   was received, looked up or sent in between.  `before`: the steps so far, oldest first. *)
Fixpoint last_good_reload {cert : Type} (r : nat) (newest_first : list (lstep cert)) : option (list (list (certarg cert))) :=
  match newest_first with
  | [] => None
  | LReload r' true pub :: older => if Nat.eqb r' r then Some pub else last_good_reload r older
  | _ :: older => last_good_reload r older
  end.

Definition published_now {key cert : Type} (st0 : list (receiver key cert)) (before : list (lstep cert)) (r : nat)
  : option (list (list (certarg cert))) :=
  match last_good_reload r (rev before) with
  | Some pub => Some pub
  | None => option_map r_pub (nth_error st0 r)
  end.

Section Spec.
  Context {key cert : Type}.
  Variable cert_of : key -> cert.
  Variable sign : key -> string -> string -> string.
  Variable verify : cert -> string -> string -> string -> bool.

  (* ideal signatures (DESIGN 3.2): a signature verifies under a certificate exactly when it was made
     with the corresponding key over the same octets with the same digest; distinct (key, digest,
     octets) never share a signature value *)
  Record ideal : Prop := {
    verify_iff : forall c d m s, verify c d m s = true <-> exists k, c = cert_of k /\ s = sign k d m;
    cert_inj : forall k k', cert_of k = cert_of k' -> k = k';
    sign_inj : forall k d m k' d' m', sign k d m = sign k' d' m' -> k = k' /\ d = d' /\ m = m'
  }.

  Record input := {
    (* the signing call of entity ks *)
    ks : key; typ : string; val : string; rs : string; alg : option string; sgn : bool;
    (* the verification call: parameters presented, certificate used, the verifier's own key *)
    q : query; vc : certarg cert; own : key
  }.
  Definition output := (sres * vres)%type.

  (* the parameters a signed URL for this message must carry *)
  Definition honest_args (x : input) (a sg : string) : query :=
    ((typ x, val x) :: (if is_empty (rs x) then [] else [(K_RS, rs x)]) ++ [(K_ALG, a); (K_SIG, sg)])%list.

  (* the four signed-URL parameters named in the property *)
  Definition keys4 (x : input) : list string := [typ x; K_RS; K_ALG; K_SIG].

  Definition spec (x : input) (o : output) : Prop :=
    (sgn x = true ->
       (* refused outside the allow-list *)
       (~ alg_allowed (alg x) -> forall args, fst o <> SArgs args)
       (* for every message, RelayState and allowed algorithm a URL with exactly these parameters comes out *)
       /\ (dirtyp (typ x) -> forall a, alg x = Some a -> In a spec_allowed ->
             exists args sg, fst o = SArgs args /\ dict_eq args (honest_args x a sg))
       /\ (forall args c, fst o = SArgs args -> vc x = CCert c ->
             (* the URL as produced verifies under the signer's certificate and under no other *)
             (same_on keys5 (q x) args -> (snd o = VTrue <-> c = cert_of (ks x)))
             (* whatever verifies under the signer's certificate has the four parameters unchanged *)
             /\ (c = cert_of (ks x) -> snd o = VTrue -> same_on (keys4 x) (q x) args)))
    (* an unsupported SigAlg is never treated as verified *)
    /\ (forall a, get (q x) K_ALG = Some a -> ~ supported a -> snd o <> VTrue)
    (* "or under any other entity's key": octets that are not a certificate are nobody's key, in particular not
       the signer's - nothing verifies under them, whatever is presented and whoever verifies *)
    /\ (vc x = CUnreadable -> snd o <> VTrue).

  (* ------------------------------------------------------------- boolean version *)
  Variable cert_eqb : cert -> cert -> bool.

  Definition dict_eqb (a b : query) : bool :=
    forallb (fun k => opt_eqb String.eqb (get a k) (get b k)) (map fst a ++ map fst b)%list.
  Definition same_on_b (keys : list string) (a b : query) : bool :=
    forallb (fun k => opt_eqb String.eqb (get a k) (get b k)) keys.
  Definition dirtyp_b (t : string) : bool := String.eqb t K_REQ || String.eqb t K_RESP.
  Definition alg_allowed_b (al : option string) : bool :=
    match al with Some a => mem a spec_allowed | None => false end.
  Definition is_args (s : sres) : bool := match s with SArgs _ => true | _ => false end.

  Definition spec_b (x : input) (o : output) : bool :=
    (negb (sgn x) ||
       ((alg_allowed_b (alg x) || negb (is_args (fst o)))
        && (negb (dirtyp_b (typ x)) ||
            match alg x with
            | Some a =>
                negb (mem a spec_allowed) ||
                match fst o with
                | SArgs args => match get args K_SIG with
                                | Some sg => dict_eqb args (honest_args x a sg)
                                | None => false
                                end
                | _ => false
                end
            | None => true
            end)
        && match fst o, vc x with
           | SArgs args, CCert c =>
               (negb (same_on_b keys5 (q x) args) || Bool.eqb (vres_eqb (snd o) VTrue) (cert_eqb c (cert_of (ks x))))
               && (negb (cert_eqb c (cert_of (ks x))) || negb (vres_eqb (snd o) VTrue)
                   || same_on_b (keys4 x) (q x) args)
           | _, _ => true
           end))
    && match get (q x) K_ALG with
       | Some a => mem a spec_allowed || negb (vres_eqb (snd o) VTrue)
       | None => true
       end
    && match vc x with CUnreadable => negb (vres_eqb (snd o) VTrue) | _ => true end.

  (* ------------------------------------------------------------- the modelled run of one input *)
  Definition model (x : input) : output :=
    (http_redirect_message sign (ks x) (typ x) (val x) (rs x) (alg x) (sgn x),
     verify_redirect_signature_c cert_of verify (own x) (q x) (vc x)).

  (* the pinned snapshot (lenient decoding of the Signature parameter), kept for c15_f1_v0_refuted *)
  Definition model_v0 (x : input) : output :=
    (http_redirect_message sign (ks x) (typ x) (val x) (rs x) (alg x) (sgn x),
     verify_redirect_signature_v0 cert_of verify (own x) (q x)
       (match vc x with CCert c => Some c | _ => None end)).
End Spec.

Arguments input : clear implicits.
Arguments Build_input {key cert}.
