(* C15/Corr.v — correspondence runner.
   The model's signature functions are instantiated with the RSA ORACLE TABLE of the case: the harness
   computes, with the `cryptography` library directly and independently of pysaml2, the PKCS#1 v1.5
   signature bytes for the (key, digest, octets) triples that can matter; sign/verify of the model are
   look-ups in that table (PKCS#1 v1.5 is deterministic: verify c d m s <-> s = sign c d m).
   Keys and certificates are symbolic: key pair number n of /verif/fixtures (cert_of = identity). *)
From Coq Require Import String Ascii List Bool Arith NArith Uint63.
From Verif Require Import Base.Str Base.Run Base.Percent Base.Base64 C15.Model C15.Spec.
From VerifGen Require Import C15Tables.
Import ListNotations.
Open Scope string_scope.

(* Case-writer helper: long byte strings are written packed, 7 bytes per primitive 63-bit integer
   (little endian), because Coq parses string literals slowly.  pk len l = the first len bytes. *)
Definition bit_of (n i : int) : bool := negb (is_zero (PrimInt63.land (PrimInt63.lsr n i) 1%uint63)).
Definition byte_at (n i : int) : ascii :=
  let b := PrimInt63.lsr n (PrimInt63.mul 8%uint63 i) in
  Ascii (bit_of b 0%uint63) (bit_of b 1%uint63) (bit_of b 2%uint63) (bit_of b 3%uint63)
        (bit_of b 4%uint63) (bit_of b 5%uint63) (bit_of b 6%uint63) (bit_of b 7%uint63).
Fixpoint unpack (l : list int) : string :=
  match l with
  | [] => EmptyString
  | n :: r =>
      String (byte_at n 0%uint63) (String (byte_at n 1%uint63) (String (byte_at n 2%uint63)
     (String (byte_at n 3%uint63) (String (byte_at n 4%uint63) (String (byte_at n 5%uint63)
     (String (byte_at n 6%uint63) (unpack r)))))))
  end.
Fixpoint take (n : nat) (s : string) : string :=
  match n, s with
  | S m, String c r => String c (take m r)
  | _, _ => EmptyString
  end.
Definition pk (len : nat) (l : list int) : string := take len (unpack l).

Example pk_example : pk 9 [32495401788859493; 28271]%uint63 = "eduPerson".
Proof. vm_compute. reflexivity. Qed.

(* key id, digest name, octets, signature bytes *)
Definition entry := (nat * string * string * string)%type.

Fixpoint lookup (T : list entry) (k : nat) (d m : string) : option string :=
  match T with
  | [] => None
  | (k', d', m', s) :: r =>
      if Nat.eqb k' k && String.eqb d' d && String.eqb m' m then Some s else lookup r k d m
  end.

Definition sign_T (T : list entry) (k : nat) (d m : string) : string :=
  match lookup T k d m with Some s => s | None => EmptyString end.
Definition verify_T (T : list entry) (c : nat) (d m s : string) : bool :=
  match lookup T c d m with Some s0 => String.eqb s s0 | None => false end.
Definition cert_of_T (k : nat) : nat := k.

(* the table is a function and is injective on its entries (sanity of the oracle) *)
Fixpoint table_ok (T : list entry) : bool :=
  match T with
  | [] => true
  | (k, d, m, s) :: r =>
      forallb (fun e => match e with (k', d', m', s') =>
                 Bool.eqb (Nat.eqb k k' && String.eqb d d' && String.eqb m m') (String.eqb s s') end) r
      && negb (is_empty s) && table_ok r
  end.

(* one step in the life of the receivers, as the harness runs it on the real objects:
   CReload  receiver r reloads its metadata (MetadataStore.reload / Entity.reload_metadata, inline or from a file
            that was rewritten); good = false: a configuration that does not load
   CLookup  metadata.certs(...) of receiver r is asked with other arguments, the answer is consumed
   CSend    receiver r itself signs a message for the redirect binding (Entity.apply_binding on the Server, dflt =
            its default algorithm); the URL is then checked by verify_redirect_signature with vc x, as in Unit
   CRecv    a URL that entity ks x signed (as in Stack) for a request with issuer number iss is handed to receiver r *)
Inductive cstep :=
| CReload (r : nat) (good : bool) (pub : list (list (certarg nat)))
| CLookup (r : nat)
| CSend (r : nat) (dflt : string) (x : input nat nat)
| CRecv (r iss : nat) (dflt : string) (x : input nat nat).
Inductive cobs := OReload (ok : bool) | OLookup | OSend (o : output) | ORecv (so : sres) (accepted : bool).

Inductive case :=
(* direct calls: pack.http_redirect_message (via = None) or Entity.apply_binding (via = Some default
   algorithm of the entity), then sigver.verify_redirect_signature *)
| Unit (T : list entry) (via : option string) (x : input nat nat) (o : output)
(* through the stack: Entity.apply_binding, then Server.parse_authn_request(q[SAMLRequest], REDIRECT,
   relay_state=q[RelayState], sigalg=q[SigAlg], signature=q[Signature]) at an IdP whose metadata publishes the
   signing certificates `certs` for the issuer, in this order (CUnreadable = a KeyDescriptor whose octets are no
   X.509 certificate); must = want_authn_requests_signed; observed: request accepted *)
| Stack (T : list entry) (dflt : string) (x : input nat nat) (certs : list (certarg nat)) (must : bool)
        (so : sres) (accepted : bool)
(* a LIFE of long-lived receivers (strengthening round 5): st0 = the receivers as configured (own key, must, per
   issuer number the signing certificates published in order); steps in order, each with what was observed *)
| Life (T : list entry) (st0 : list (receiver nat nat)) (steps : list cstep) (obs : list cobs).

Definition mkx ks typ val rs alg sgn q vc own : input nat nat :=
  Build_input ks typ val rs alg sgn q vc own.

Definition eff_alg (via : option string) (al : option string) : option string :=
  match via with
  | None => al
  | Some dflt => Some match al with Some s => if is_empty s then dflt else s | None => dflt end
  end.

(* the input as the spec sees it: the algorithm the entity asked for *)
Definition spec_input (via : option string) (x : input nat nat) : input nat nat :=
  Build_input (ks x) (typ x) (val x) (rs x) (eff_alg via (alg x)) (sgn x) (q x) (vc x) (own x).

Definition model_sign (T : list entry) (via : option string) (x : input nat nat) : sres :=
  match via with
  | None => http_redirect_message (sign_T T) (ks x) (typ x) (val x) (rs x) (alg x) (sgn x)
  | Some dflt =>
      if dirtyp_b (typ x)
      then apply_binding_redirect (sign_T T) (ks x) (String.eqb (typ x) K_RESP) (val x) (rs x) (alg x) dflt (sgn x)
      else SExc
  end.

Definition model_verify (T : list entry) (x : input nat nat) : vres :=
  verify_redirect_signature_c cert_of_T (verify_T T) (own x) (q x) (vc x).

Definition model_accept (T : list entry) (x : input nat nat) (certs : list (certarg nat)) (must : bool) : bool :=
  match get (q x) K_REQ with
  | None => false       (* not generated: the request itself is always presented *)
  | Some origdoc =>
      loads_redirect_c cert_of_T (verify_T T) (own x) certs must origdoc
                     (get (q x) K_RS) (get (q x) K_ALG) (get (q x) K_SIG)
  end.

(* the step as the model sees it *)
Definition to_lstep (s : cstep) : lstep nat :=
  match s with
  | CReload r good pub => LReload r good pub
  | CLookup r => LOther r
  | CSend r _ _ => LOther r
  | CRecv r iss _ x =>
      LRecv r iss (match get (q x) K_REQ with Some d => d | None => EmptyString end)
            (get (q x) K_RS) (get (q x) K_ALG) (get (q x) K_SIG)
  end.

Definition step_agrees (T : list entry) (s : cstep) (m : lres) (o : cobs) : bool :=
  match s, m, o with
  | CReload _ _ _, RReload ok, OReload ok' => Bool.eqb ok ok'
  | CLookup _, ROther, OLookup => true
  | CSend _ dflt x, ROther, OSend o =>
      sres_eqb (model_sign T (Some dflt) x) (fst o) && vres_eqb (model_verify T x) (snd o)
  | CRecv _ _ dflt x, RRecv acc, ORecv so acc' =>
      (* (the request itself is always presented) *)
      has (q x) K_REQ && sres_eqb (model_sign T (Some dflt) x) so && Bool.eqb acc acc'
  | _, _, _ => false
  end.

Fixpoint life_agrees (T : list entry) (steps : list cstep) (ms : list lres) (os : list cobs) : bool :=
  match steps, ms, os with
  | [], [], [] => true
  | s :: st, m :: mt, o :: ot => step_agrees T s m o && life_agrees T st mt ot
  | _, _, _ => false
  end.

Definition agrees (c : case) : bool :=
  match c with
  | Unit T via x o =>
      table_ok T && sres_eqb (model_sign T via x) (fst o) && vres_eqb (model_verify T x) (snd o)
  | Stack T dflt x certs must so acc =>
      table_ok T && sres_eqb (model_sign T (Some dflt) x) so && Bool.eqb (model_accept T x certs must) acc
  | Life T st0 steps obs =>
      table_ok T && life_agrees T steps (run_life cert_of_T (verify_T T) st0 (map to_lstep steps)) obs
  end.

(* the stack variant of the spec: "verified" = request accepted, "the signer's certificate" = the signer's
   certificate is among those registered for the issuer *)
Definition stack_spec_b (x : input nat nat) (certs : list (certarg nat)) (must : bool) (so : sres) (acc : bool) : bool :=
  (* signing clauses: as in Spec.spec_b, evaluated with a verification result that triggers nothing *)
  spec_b cert_of_T Nat.eqb (Build_input (ks x) (typ x) (val x) (rs x) (alg x) (sgn x) (q x) CAbsent (own x)) (so, VFalse)
  && (negb must || negb (sgn x) ||
      match so with
      | SArgs args =>
          (* the signer's certificate is published (readably) for the issuer; unreadable entries are nobody's *)
          let reg := existsb (fun ca => match ca with CCert n => Nat.eqb (ks x) n | _ => false end) certs in
          (negb (same_on_b keys5 (q x) args) || Bool.eqb acc reg)
          && (negb acc || (reg && same_on_b (keys4 x) (q x) args))
      | _ => true
      end)
  (* (strengthening round 6) "an unsupported SigAlg is never treated as verified" at the receiving entry point:
     where signatures are required, a request is accepted only with a SigAlg of the five allowed ones - also when
     the library refused to sign (so is an exception) and the URL presented was made elsewhere *)
  && (negb must || negb acc || match get (q x) K_ALG with Some a => mem a spec_allowed | None => false end).

(* a life: every reception satisfies the stack spec with the certificates that the receiver's metadata holds NOW
   for the request's issuer (Spec.published_now: the last reload that succeeded, looking back from the reception;
   not computed by the model's state threading); every URL the receiver signed itself satisfies the unit spec *)
Fixpoint life_holds (st0 : list (receiver nat nat)) (before : list (lstep nat)) (steps : list cstep) (os : list cobs)
  : bool :=
  match steps, os with
  | [], _ => true
  | s :: st, o :: ot =>
      match s, o with
      | CRecv r iss dflt x, ORecv so acc =>
          match nth_error st0 r, published_now st0 before r with
          | Some rc, Some pub => stack_spec_b (spec_input (Some dflt) x) (nth iss pub []) (r_must rc) so acc
          | _, _ => false
          end
      | CSend r dflt x, OSend o => spec_b cert_of_T Nat.eqb (spec_input (Some dflt) x) o
      | _, _ => true
      end && life_holds st0 (before ++ [to_lstep s]) st ot
  | _ :: _, [] => false
  end.

Definition holds (c : case) : bool :=
  match c with
  | Unit T via x o => spec_b cert_of_T Nat.eqb (spec_input via x) o
  | Stack T dflt x certs must so acc => stack_spec_b (spec_input (Some dflt) x) certs must so acc
  | Life T st0 steps obs => life_holds st0 [] steps obs
  end.

(* finding class 1 (C15-F1): the presented parameters equal those of the signed URL except that the
   Signature parameter is a different string which the lenient base64 decoder maps to the same bytes *)
Definition f1_shape (x : input nat nat) (so : sres) : bool :=
  match so with
  | SArgs args =>
      same_on_b [typ x; K_RS; K_ALG] (q x) args
      && match get (q x) K_SIG, get args K_SIG with
         | Some sp, Some sp0 =>
             negb (String.eqb sp sp0)
             && match decode_str sp, decode_str sp0 with
                | Some s, Some s0 => String.eqb s s0
                | _, _ => false
                end
         | _, _ => false
         end
  | _ => false
  end.

Definition cls (c : case) : nat :=
  match c with
  | Unit T via x o => if f1_shape x (fst o) && vres_eqb (snd o) VTrue then 1 else 0
  | Stack T dflt x certs must so acc => if f1_shape x so && acc then 1 else 0
  | Life _ _ _ _ => 0
  end.

Definition run := run_cases agrees holds cls.

Definition explain (c : case) :=
  match c with
  | Unit T via x o =>
      (table_ok T, model_sign T via x, model_verify T x, spec_b cert_of_T Nat.eqb (spec_input via x) o,
       match get (q x) K_ALG with Some a => digest_of a | None => None end,
       octets req_order (remove K_SIG (q x)))
  | Stack T dflt x certs must so acc =>
      (table_ok T, model_sign T (Some dflt) x, if model_accept T x certs must then VTrue else VFalse,
       stack_spec_b (spec_input (Some dflt) x) certs must so acc,
       match get (q x) K_ALG with Some a => digest_of a | None => None end,
       octets req_order (remove K_SIG (q x)))
  | Life T st0 steps obs =>
      (* per step: the model's answer; overall: agrees / holds (table_ok first) *)
      (table_ok T, SOther, if life_holds st0 [] steps obs then VTrue else VFalse,
       life_agrees T steps (run_life cert_of_T (verify_T T) st0 (map to_lstep steps)) obs,
       Some (String.concat "" (map (fun m => match m with RReload true => "R" | RReload false => "r" | ROther => "."
                                               | RRecv true => "A" | RRecv false => "x" end)
                            (run_life cert_of_T (verify_T T) st0 (map to_lstep steps)))),
       EmptyString)
  end.
