(* C15/Proofs.v *)
From Coq Require Import String Ascii List Bool Arith Lia.
From Verif Require Import Base.Str Base.Percent Base.Base64 C15.Model C15.Spec.
From VerifGen Require Import C15Tables.
Import ListNotations.
Open Scope string_scope.

(* ------------------------------------------------------------------ the live tables *)

Lemma req_order_eq : req_order = [K_REQ; K_RS; K_ALG].
Proof. reflexivity. Qed.

Lemma resp_order_eq : resp_order = [K_RESP; K_RS; K_ALG].
Proof. reflexivity. Qed.

Lemma allowed_list_eq : map snd sig_allowed_alg = spec_allowed.
Proof. reflexivity. Qed.

Lemma allowed_iff a : allowed a = true <-> In a spec_allowed.
Proof. unfold allowed. rewrite allowed_list_eq. apply mem_In. Qed.

Lemma supported_b_iff a : mem a spec_allowed = true <-> supported a.
Proof. apply mem_In. Qed.

(* the implementation has a signer for the URI (live table SIGNER_ALGS) *)
Definition has_signer (a : string) : Prop := In a (map fst signer_algs).

Lemma get_In_fst (l : query) k : get l k <> None <-> In k (map fst l).
Proof.
  induction l as [|[k' v] r IH]; cbn [get map In fst].
  - split; [congruence|contradiction].
  - destruct (String.eqb k' k) eqn:E.
    + apply String.eqb_eq in E. split; [auto|discriminate].
    + apply String.eqb_neq in E. rewrite IH. split; [auto|intros [H|H]; [contradiction|exact H]].
Qed.

Lemma digest_has_signer a : (exists d, digest_of a = Some d) <-> has_signer a.
Proof.
  unfold digest_of, has_signer. rewrite <- get_In_fst. destruct (get signer_algs a) as [d|].
  - split; [discriminate|]. intros _. exists d. reflexivity.
  - split; [intros [d H]; discriminate|congruence].
Qed.

Lemma allowed_subset_supported_b :
  forallb (fun a => mem a (map fst signer_algs)) (map snd sig_allowed_alg) = true.
Proof. vm_compute. reflexivity. Qed.

(* every allowed algorithm has a signer *)
Lemma allowed_has_signer a : allowed a = true -> has_signer a.
Proof.
  intros H. apply mem_In in H. pose proof allowed_subset_supported_b as Hs.
  rewrite forallb_forall in Hs. apply mem_In. apply Hs. exact H.
Qed.

(* ... and (strengthening round 6) NO other URI has one: the live signer table names the five allowed algorithms
   only.  This is what "an unsupported SigAlg is never treated as verified" rests on in the code: get_signer and
   the `in SIGNER_ALGS` test of verify_redirect_signature consult this table and nothing else.  Re-checked by
   computation whenever gen/C15Tables.v is regenerated from the live module. *)
Lemma signer_subset_allowed_b : forallb (fun a => mem a spec_allowed) (map fst signer_algs) = true.
Proof. vm_compute. reflexivity. Qed.

Lemma signer_algs_allowed a : has_signer a -> In a spec_allowed.
Proof.
  intros H. pose proof signer_subset_allowed_b as Hs. rewrite forallb_forall in Hs. apply mem_In. apply Hs. exact H.
Qed.

Lemma has_signer_iff_supported a : has_signer a <-> supported a.
Proof.
  split; [apply signer_algs_allowed|]. intros H. apply allowed_has_signer. apply allowed_iff. exact H.
Qed.

Lemma digest_supported a : (exists d, digest_of a = Some d) <-> supported a.
Proof. rewrite digest_has_signer. apply has_signer_iff_supported. Qed.

Lemma allowed_supported a : allowed a = true -> supported a.
Proof. intros H. apply allowed_iff. exact H. Qed.

Fixpoint nodup_b (l : list string) : bool :=
  match l with [] => true | x :: r => negb (mem x r) && nodup_b r end.

Lemma nodup_b_NoDup l : nodup_b l = true -> NoDup l.
Proof.
  induction l as [|x r IH]; cbn [nodup_b]; [constructor|].
  intros H. apply andb_true_iff in H as [H1 H2]. constructor; [|apply IH; exact H2].
  intros Hin. apply mem_In in Hin. rewrite Hin in H1. discriminate.
Qed.

(* the table theorem re-checked whenever gen/C15Tables.v is regenerated *)
Lemma tables_ok :
  (forall a, In a (map snd sig_allowed_alg) <-> In a spec_allowed)
  /\ incl (map snd sig_allowed_alg) (map fst signer_algs)
  /\ req_order = [K_REQ; K_RS; K_ALG] /\ resp_order = [K_RESP; K_RS; K_ALG]
  /\ NoDup (map fst signer_algs) /\ NoDup (map snd signer_algs).
Proof.
  split; [intros a; rewrite allowed_list_eq; tauto|].
  split; [intros a Ha; apply mem_In in Ha; apply (allowed_has_signer a); exact Ha|].
  split; [reflexivity|]. split; [reflexivity|].
  split; apply nodup_b_NoDup; vm_compute; reflexivity.
Qed.

(* ------------------------------------------------------------------ strings without '&' *)

Definition not_amp (c : ascii) : bool := negb (Ascii.eqb c "&"%char).
Definition no_amp (s : string) : bool := all_chars not_amp s.

Lemma no_amp_app a b : no_amp (a ++ b) = no_amp a && no_amp b.
Proof. apply all_chars_app. Qed.

Lemma quote_plus_no_amp v : no_amp (quote_plus v) = true.
Proof.
  apply (all_chars_impl plus_alphabet not_amp); [|apply quote_plus_alphabet].
  intros c Hc. destruct (plus_alphabet_excludes c Hc) as [H _].
  unfold not_amp. apply negb_true_iff. apply Ascii.eqb_neq. exact H.
Qed.

Lemma urlencode1_no_amp k v : no_amp (urlencode1 k v) = true.
Proof.
  unfold urlencode1. rewrite !no_amp_app, !quote_plus_no_amp. reflexivity.
Qed.

(* a '&'-free prefix is determined by the string *)
Lemma app_amp_inj a : forall b x y,
  no_amp a = true -> no_amp b = true -> a ++ "&" ++ x = b ++ "&" ++ y -> a = b /\ x = y.
Proof.
  induction a as [|c a IH]; intros [|d b] x y Ha Hb H; cbn [append] in H.
  - injection H as H. auto.
  - injection H as Hc Hr. subst d. cbn in Hb. discriminate.
  - injection H as Hc Hr. subst c. cbn in Ha. discriminate.
  - injection H as Hc Hr. subst d. cbn [no_amp all_chars] in Ha, Hb.
    apply andb_true_iff in Ha as [_ Ha]. apply andb_true_iff in Hb as [_ Hb].
    destruct (IH b x y Ha Hb Hr) as [-> ->]. auto.
Qed.

Lemma no_amp_not_app a : forall b y, no_amp a = true -> a <> b ++ "&" ++ y.
Proof.
  induction a as [|c a IH]; intros [|d b] y Ha H; cbn [append] in H; try discriminate.
  - injection H as Hc Hr. subst c. cbn in Ha. discriminate.
  - injection H as Hc Hr. cbn [no_amp all_chars] in Ha. apply andb_true_iff in Ha as [_ Ha].
    exact (IH b y Ha Hr).
Qed.

Lemma append_inj_l p : forall x y, p ++ x = p ++ y -> x = y.
Proof. induction p as [|c p IH]; intros x y H; cbn [append] in H; [exact H|]. inversion H. auto. Qed.

(* ------------------------------------------------------------------ the signed octet string *)

(* typ=V [&RelayState=R] &SigAlg=A, each value quote_plus-encoded *)
Definition octets_of (t v : string) (r : option string) (a : string) : string :=
  join "&" ([urlencode1 t v] ++ match r with Some x => [urlencode1 K_RS x] | None => [] end
            ++ [urlencode1 K_ALG a])%list.

Lemma urlencode1_key_inj k v v' : urlencode1 k v = urlencode1 k v' -> v = v'.
Proof.
  unfold urlencode1. intros H. apply append_inj_l in H. cbn [append] in H. injection H as H.
  apply quote_plus_injective. exact H.
Qed.

Lemma urlencode1_typ_inj t t' v v' :
  dirtyp t -> dirtyp t' -> urlencode1 t v = urlencode1 t' v' -> t = t' /\ v = v'.
Proof.
  intros [-> | ->] [-> | ->] H.
  - split; [reflexivity|]. exact (urlencode1_key_inj _ _ _ H).
  - exfalso. apply (f_equal (String.get 6)) in H. unfold urlencode1 in H.
    change (quote_plus K_REQ) with K_REQ in H; change (quote_plus K_RESP) with K_RESP in H.
    cbn in H. discriminate.
  - exfalso. apply (f_equal (String.get 6)) in H. unfold urlencode1 in H.
    change (quote_plus K_REQ) with K_REQ in H; change (quote_plus K_RESP) with K_RESP in H.
    cbn in H. discriminate.
  - split; [reflexivity|]. exact (urlencode1_key_inj _ _ _ H).
Qed.

(* the octet string determines the message value, presence and value of RelayState, and SigAlg *)
Lemma octets_injective t v r a t' v' r' a' :
  dirtyp t -> dirtyp t' ->
  octets_of t v r a = octets_of t' v' r' a' -> t = t' /\ v = v' /\ r = r' /\ a = a'.
Proof.
  intros Ht Ht' H. unfold octets_of in H.
  destruct r as [x|], r' as [x'|]; cbn [app join] in H.
  - apply app_amp_inj in H as [H1 H]; try apply urlencode1_no_amp.
    apply app_amp_inj in H as [H2 H3]; try apply urlencode1_no_amp.
    destruct (urlencode1_typ_inj _ _ _ _ Ht Ht' H1) as [-> ->].
    apply urlencode1_key_inj in H2. apply urlencode1_key_inj in H3. subst. auto.
  - apply app_amp_inj in H as [H1 H]; try apply urlencode1_no_amp.
    exfalso. symmetry in H. revert H. apply no_amp_not_app. apply urlencode1_no_amp.
  - apply app_amp_inj in H as [H1 H]; try apply urlencode1_no_amp.
    exfalso. revert H. apply no_amp_not_app. apply urlencode1_no_amp.
  - apply app_amp_inj in H as [H1 H3]; try apply urlencode1_no_amp.
    destruct (urlencode1_typ_inj _ _ _ _ Ht Ht' H1) as [-> ->].
    apply urlencode1_key_inj in H3. subst. auto.
Qed.

(* ------------------------------------------------------------------ dict lemmas *)

Lemma get_remove q k : k <> K_SIG -> get (remove K_SIG q) k = get q k.
Proof.
  intros Hk. induction q as [|[k' v] r IH]; [reflexivity|].
  unfold remove in *. cbn [filter fst get].
  destruct (String.eqb k' K_SIG) eqn:E; cbn [negb].
  - apply String.eqb_eq in E. subst k'.
    destruct (String.eqb K_SIG k) eqn:E2; [apply String.eqb_eq in E2; congruence|]. exact IH.
  - cbn [get]. destruct (String.eqb k' k); [reflexivity|exact IH].
Qed.

Lemma octets_req q v a : get q K_REQ = Some v -> get q K_ALG = Some a ->
  octets req_order (remove K_SIG q) = octets_of K_REQ v (get q K_RS) a.
Proof.
  intros Hv Ha. rewrite req_order_eq. unfold octets, octets_of. cbn [flat_map].
  rewrite !get_remove by discriminate. rewrite Hv, Ha. destruct (get q K_RS); reflexivity.
Qed.

Lemma octets_resp q v a : get q K_RESP = Some v -> get q K_ALG = Some a ->
  octets resp_order (remove K_SIG q) = octets_of K_RESP v (get q K_RS) a.
Proof.
  intros Hv Ha. rewrite resp_order_eq. unfold octets, octets_of. cbn [flat_map].
  rewrite !get_remove by discriminate. rewrite Hv, Ha. destruct (get q K_RS); reflexivity.
Qed.

(* what the verifier takes as the message parameter: SAMLRequest if present, else SAMLResponse *)
Definition vview (q : query) : option (string * string) :=
  match get q K_REQ with
  | Some v => Some (K_REQ, v)
  | None => match get q K_RESP with Some v => Some (K_RESP, v) | None => None end
  end.

Lemma vview_dirtyp q t v : vview q = Some (t, v) -> dirtyp t /\ get q t = Some v.
Proof.
  unfold vview, dirtyp. destruct (get q K_REQ) as [x|] eqn:E1.
  - intros H. inversion H; subst. auto.
  - destruct (get q K_RESP) as [x|] eqn:E2; [|discriminate]. intros H. inversion H; subst. auto.
Qed.

(* the parameters that go into the signed octets (either direction) *)
Definition keys_signed : list string := [K_REQ; K_RESP; K_RS; K_ALG].

Lemma vview_same4 q q' : same_on keys_signed q q' -> vview q = vview q'.
Proof.
  intros H. unfold vview. rewrite (H K_REQ), (H K_RESP) by (cbn; auto 10). reflexivity.
Qed.

Definition rsl (r : string) : list (string * string) := if is_empty r then [] else [(K_RS, r)].
Definition rsopt (r : string) : option string := if is_empty r then None else Some r.

Lemma sign_octets_req v r a :
  octets req_order (((K_REQ, v) :: rsl r) ++ [(K_ALG, a)])%list = octets_of K_REQ v (rsopt r) a.
Proof. rewrite req_order_eq. unfold rsl, rsopt. destruct (is_empty r); reflexivity. Qed.

Lemma sign_octets_resp v r a :
  octets resp_order (((K_RESP, v) :: rsl r) ++ [(K_ALG, a)])%list = octets_of K_RESP v (rsopt r) a.
Proof. rewrite resp_order_eq. unfold rsl, rsopt. destruct (is_empty r); reflexivity. Qed.

Lemma allowed_nonempty a : In a spec_allowed -> is_empty a = false.
Proof. intros H. repeat (destruct H as [<-|H]; [reflexivity|]). contradiction. Qed.

Section Proofs.
  Context {key cert : Type}.
  Variable cert_of : key -> cert.
  Variable sign : key -> string -> string -> string.
  Variable verify : cert -> string -> string -> string -> bool.

  Notation hrm := (http_redirect_message sign).
  Notation vrs := (verify_redirect_signature cert_of verify).
  Notation vrsg := (verify_redirect_signature_gen cert_of verify).

  (* ---------------------------------------------------------------- the two functions, characterised *)

  Definition signed_args (k : key) (t v r a d : string) : query :=
    ((((t, v) :: rsl r) ++ [(K_ALG, a)]) ++ [(K_SIG, encode (sign k d (octets_of t v (rsopt r) a)))])%list.

  Lemma sign_char k t v r a :
    dirtyp t -> In a spec_allowed ->
    exists d, digest_of a = Some d /\ hrm k t v r (Some a) true = SArgs (signed_args k t v r a d).
  Proof.
    intros Ht Ha. pose proof (proj2 (allowed_iff a) Ha) as Hal.
    destruct (proj2 (digest_supported a) (allowed_supported a Hal)) as [d Hd].
    exists d. split; [exact Hd|].
    unfold http_redirect_message, signed_args. rewrite Hal, (allowed_nonempty a Ha), Hd. cbn [negb].
    destruct Ht as [-> | ->]; cbn [order_of_typ String.eqb Ascii.eqb Bool.eqb].
    - pose proof (sign_octets_req v r a) as E. unfold rsl in *. rewrite E. reflexivity.
    - pose proof (sign_octets_resp v r a) as E. unfold rsl in *. rewrite E. reflexivity.
  Qed.

  Lemma vrsg_char strict own q c :
    vrsg strict own q c =
    match get q K_ALG with
    | None => VKeyError
    | Some a =>
        match digest_of a with
        | None => VNone
        | Some d =>
            match vview q with
            | None => VUnsupported
            | Some (t, v) =>
                match get q K_SIG with
                | None => VKeyError
                | Some sp =>
                    match decode_str sp with
                    | None => VValueError
                    | Some s =>
                        if strict && negb (String.eqb (encode s) sp) then VFalse
                        else if verify (match c with Some c' => c' | None => cert_of own end) d
                                  (octets_of t v (get q K_RS) a) s then VTrue else VFalse
                    end
                end
            end
        end
    end.
  Proof.
    unfold verify_redirect_signature_gen, vview, has.
    destruct (get q K_ALG) as [a|] eqn:Ea; [|reflexivity].
    destruct (digest_of a) as [d|]; [|reflexivity].
    destruct (get q K_REQ) as [v|] eqn:Ev.
    - rewrite (octets_req q v a Ev Ea). reflexivity.
    - destruct (get q K_RESP) as [v|] eqn:Ev2; [|reflexivity].
      rewrite (octets_resp q v a Ev2 Ea). reflexivity.
  Qed.

  Lemma vrs_char own q c : vrs own q c = vrsg true own q c.
  Proof. reflexivity. Qed.

  (* the parameters of the URL that signing produces *)
  Lemma signed_gets k t v r a d :
    dirtyp t ->
    let h := signed_args k t v r a d in
    get h t = Some v /\ get h K_RS = rsopt r /\ get h K_ALG = Some a
    /\ get h K_SIG = Some (encode (sign k d (octets_of t v (rsopt r) a)))
    /\ vview h = Some (t, v).
  Proof.
    intros [-> | ->]; unfold signed_args, rsl, rsopt, vview; destruct (is_empty r); cbn; auto.
  Qed.

  Lemma vview_same q h t v :
    dirtyp t -> same_on keys5 q h -> vview h = Some (t, v) -> vview q = Some (t, v).
  Proof.
    intros _ Hs Hv. unfold vview in *.
    rewrite (Hs K_REQ) by (cbn; auto 10). rewrite (Hs K_RESP) by (cbn; auto 10). exact Hv.
  Qed.

  (* ---------------------------------------------------------------- why key_verify must accept ONE octet string
     (necessity of the uniqueness half of Spec.ideal; nothing assumed about sign/verify here): parameters as a
     verifier receives them, with the Signature parameter sp *)
  Definition presented (t v : string) (r : option string) (a sp : string) : query :=
    ((t, v) :: match r with Some x => [(K_RS, x)] | None => [] end ++ [(K_ALG, a); (K_SIG, sp)])%list.

  Lemma presented_gets t v r a sp :
    dirtyp t ->
    let h := presented t v r a sp in
    get h K_ALG = Some a /\ vview h = Some (t, v) /\ get h K_SIG = Some sp /\ get h K_RS = r.
  Proof. intros [-> | ->]; destruct r; cbn; repeat split; reflexivity. Qed.

  Lemma presented_verifies own c t v r a d s :
    dirtyp t -> digest_of a = Some d ->
    vrs own (presented t v r a (encode s)) (Some c)
    = (if verify c d (octets_of t v r a) s then VTrue else VFalse).
  Proof.
    intros Ht Hd. destruct (presented_gets t v r a (encode s) Ht) as [G1 [G2 [G3 G4]]].
    rewrite vrs_char, vrsg_char, G1, Hd, G2, G3, G4, b64_decode_str_encode, String.eqb_refl. reflexivity.
  Qed.

  (* a key_verify that accepts a second octet string for some (certificate, digest, octets) - e.g. the value with
     its leading zero octets dropped, or padded, or s + n - makes the Signature parameter malleable: two URLs that
     differ in nothing but the Signature parameter both verify *)
  Lemma malleable_verify_breaks own c t v r a d s s' :
    dirtyp t -> digest_of a = Some d -> s <> s' ->
    verify c d (octets_of t v r a) s = true -> verify c d (octets_of t v r a) s' = true ->
    exists q q', same_on keys_signed q q' /\ get q K_SIG <> get q' K_SIG
      /\ vrs own q (Some c) = VTrue /\ vrs own q' (Some c) = VTrue.
  Proof.
    intros Ht Hd Hne H1 H2. exists (presented t v r a (encode s)), (presented t v r a (encode s')).
    split; [|split; [|split]].
    - intros k Hk. unfold keys_signed in Hk. cbn [In] in Hk.
      destruct Ht as [-> | ->]; destruct r;
        repeat (destruct Hk as [<-|Hk]; [reflexivity|]); contradiction.
    - destruct (presented_gets t v r a (encode s) Ht) as [_ [_ [G _]]].
      destruct (presented_gets t v r a (encode s') Ht) as [_ [_ [G' _]]].
      rewrite G, G'. intros E. injection E as E. apply encode_injective in E. contradiction.
    - rewrite (presented_verifies _ _ _ _ _ _ _ _ Ht Hd), H1. reflexivity.
    - rewrite (presented_verifies _ _ _ _ _ _ _ _ Ht Hd), H2. reflexivity.
  Qed.

  Hypothesis Hideal : ideal cert_of sign verify.

  (* the honest signature verifies under c exactly when c is the signer's certificate *)
  Lemma verify_own k d m c : verify c d m (sign k d m) = true <-> c = cert_of k.
  Proof.
    rewrite (verify_iff _ _ _ Hideal). split.
    - intros [k' [Hc Hs]]. apply (sign_inj _ _ _ Hideal) in Hs as [-> _]. exact Hc.
    - intros ->. exists k. auto.
  Qed.

  (* C and D1: the URL as produced verifies under the signer's certificate and under no other *)
  Lemma honest_verifies k t v r a d own q c :
    dirtyp t -> digest_of a = Some d ->
    same_on keys5 q (signed_args k t v r a d) ->
    (vrs own q (Some c) = VTrue <-> c = cert_of k).
  Proof.
    intros Ht Hd Hs. destruct (signed_gets k t v r a d Ht) as [G1 [G2 [G3 [G4 G5]]]].
    rewrite vrs_char, vrsg_char.
    rewrite (Hs K_ALG) by (cbn; auto 10). rewrite G3, Hd.
    rewrite (vview_same q _ t v Ht Hs G5).
    rewrite (Hs K_SIG) by (cbn; auto 10). rewrite G4.
    rewrite b64_decode_str_encode, String.eqb_refl. cbn [andb negb].
    rewrite (Hs K_RS) by (cbn; auto 10). rewrite G2.
    destruct (verify c d (octets_of t v (rsopt r) a) (sign k d (octets_of t v (rsopt r) a))) eqn:E.
    - apply verify_own in E. split; auto.
    - split; [discriminate|]. intros Hc. apply (proj2 (verify_own k d (octets_of t v (rsopt r) a) c)) in Hc. congruence.
  Qed.

  (* soundness: acceptance under c means the owner of c signed exactly the octets that the presented
     message value, RelayState and SigAlg determine, with the digest of the presented SigAlg *)
  Lemma accept_sound own q c :
    vrs own q (Some c) = VTrue ->
    exists a d t v sp k, get q K_ALG = Some a /\ digest_of a = Some d /\ vview q = Some (t, v)
      /\ get q K_SIG = Some sp /\ c = cert_of k
      /\ sp = encode (sign k d (octets_of t v (get q K_RS) a)).
  Proof.
    rewrite vrs_char, vrsg_char.
    destruct (get q K_ALG) as [a|] eqn:Ea; [|discriminate].
    destruct (digest_of a) as [d|] eqn:Ed; [|discriminate].
    destruct (vview q) as [[t v]|] eqn:Ev; [|discriminate].
    destruct (get q K_SIG) as [sp|] eqn:Es; [|discriminate].
    destruct (decode_str sp) as [s|] eqn:Edec; [|discriminate].
    destruct (String.eqb (encode s) sp) eqn:Ecan; cbn [andb negb]; [|discriminate].
    destruct (verify c d (octets_of t v (get q K_RS) a) s) eqn:E; [|discriminate].
    intros _. apply (verify_iff _ _ _ Hideal) in E as [k [Hc Hs]].
    apply String.eqb_eq in Ecan.
    exists a, d, t, v, sp, k. subst. repeat split; try reflexivity; assumption.
  Qed.

  (* ---------------------------------------------------------------- the Signature parameter is unique
     (no guard): two parameter sets that agree on message value, RelayState and SigAlg and both verify under the
     same certificate carry the same Signature parameter.  With c15_verify: next to the signed URL's own Signature
     parameter NO other value verifies - not another base64 text, not another octet string for the same integer
     (leading zero octets dropped or added, s + n), nothing. *)
  Lemma verify_unique c d m s s' : verify c d m s = true -> verify c d m s' = true -> s = s'.
  Proof.
    intros H1 H2.
    apply (verify_iff _ _ _ Hideal) in H1 as [k [Hc Hs]]. apply (verify_iff _ _ _ Hideal) in H2 as [k' [Hc' Hs']].
    rewrite Hc in Hc'. apply (cert_inj _ _ _ Hideal) in Hc'. subst. reflexivity.
  Qed.

  Lemma signature_unique own own' q q' c :
    same_on keys_signed q q' ->
    vrs own q (Some c) = VTrue -> vrs own' q' (Some c) = VTrue -> get q K_SIG = get q' K_SIG.
  Proof.
    intros Hs H1 H2.
    destruct (accept_sound own q c H1) as [a [d [t [v [sp [k [Ea [Ed [Evw [Es [Ec Esp]]]]]]]]]]].
    destruct (accept_sound own' q' c H2) as [a' [d' [t' [v' [sp' [k' [Ea' [Ed' [Evw' [Es' [Ec' Esp']]]]]]]]]]].
    rewrite <- (Hs K_ALG) in Ea' by (cbn; auto 10). rewrite Ea in Ea'. injection Ea' as Ha. subst a'.
    rewrite Ed in Ed'. injection Ed' as Hd. subst d'.
    rewrite <- (vview_same4 _ _ Hs), Evw in Evw'. injection Evw' as Ht Hv. subst t' v'.
    rewrite <- (Hs K_RS) in Esp' by (cbn; auto 10).
    rewrite Ec in Ec'. apply (cert_inj _ _ _ Hideal) in Ec'. subst k'.
    rewrite Es, Es', Esp, Esp'. reflexivity.
  Qed.

  (* the adversary model for the tamper clause (unforgeability, one signature known): the Signature parameter
     presented is literally the one of the signed URL, or it is not the base64 text of any signature made
     with the signer's key.  Nothing is assumed about HOW it differs: foreign characters, data after the
     padding, changed unused bits, another encoding of the same bytes are all inside the quantifier *)
  Definition no_other_sig (k : key) (q h : query) : Prop :=
    forall sp, get q K_SIG = Some sp ->
      get h K_SIG = Some sp \/ (forall d m, sp <> encode (sign k d m)).

  (* D2: whatever verifies under the signer's certificate has the four parameters unchanged *)
  Lemma tamper_rejected k t v r a d own q :
    dirtyp t -> digest_of a = Some d ->
    no_other_sig k q (signed_args k t v r a d) ->
    vrs own q (Some (cert_of k)) = VTrue ->
    same_on [t; K_RS; K_ALG; K_SIG] q (signed_args k t v r a d).
  Proof.
    intros Ht Hd Hg Hv. destruct (signed_gets k t v r a d Ht) as [G1 [G2 [G3 [G4 G5]]]].
    destruct (accept_sound own q _ Hv) as [a' [d' [t' [v' [sp [k' [Ea [Ed [Evw [Es [Ec Edec]]]]]]]]]]].
    apply (cert_inj _ _ _ Hideal) in Ec. subst k'.
    destruct (Hg sp Es) as [Hsame|Hno]; [|exfalso; exact (Hno _ _ Edec)].
    rewrite G4 in Hsame. injection Hsame as Hsp. rewrite Edec in Hsp.
    apply encode_injective in Hsp.
    apply (sign_inj _ _ _ Hideal) in Hsp as [_ [_ Hm]].
    destruct (vview_dirtyp q t' v' Evw) as [Ht' Hgv].
    apply octets_injective in Hm as [-> [-> [Hr ->]]]; [|exact Ht|exact Ht'].
    intros x Hx. cbn [In] in Hx. destruct Hx as [<-|[<-|[<-|[<-|[]]]]]; congruence.
  Qed.

  (* signing is refused outside the allow-list, whatever the message type *)
  Lemma refused_outside_allowlist k t v r al :
    ~ alg_allowed al -> (hrm k t v r al true = SExc).
  Proof.
    intros Hn. unfold http_redirect_message.
    destruct (order_of_typ t) as [o|]; [|reflexivity].
    destruct al as [a|]; [|reflexivity].
    destruct (allowed a) eqn:E; [|reflexivity].
    exfalso. apply Hn. exists a. split; [reflexivity|]. apply allowed_iff. exact E.
  Qed.

  (* an unsupported SigAlg is never verified: the function falls off its end (None) *)
  Lemma unsupported_not_verified own q c a :
    get q K_ALG = Some a -> ~ supported a -> vrs own q c = VNone.
  Proof.
    intros Ha Hn. rewrite vrs_char, vrsg_char, Ha. destruct (digest_of a) as [d|] eqn:E; [|reflexivity].
    exfalso. apply Hn. apply digest_supported. exists d. exact E.
  Qed.

  (* ---------------------------------------------------------------- the cert argument in all its forms *)
  Notation vrsc := (verify_redirect_signature_c cert_of verify).

  Lemma unsupported_not_verified_c own q ca a :
    get q K_ALG = Some a -> ~ supported a -> vrsc own q ca = VNone.
  Proof.
    intros Ha Hn. destruct ca as [|c|]; cbn [verify_redirect_signature_c];
      try (apply (unsupported_not_verified _ _ _ _ Ha Hn)).
    rewrite Ha. destruct (digest_of a) as [d|] eqn:E; [|reflexivity].
    exfalso. apply Hn. apply digest_supported. exists d. exact E.
  Qed.

  (* octets that are no certificate verify nothing: whatever is presented, whoever verifies *)
  Lemma unreadable_not_verified own q : vrsc own q CUnreadable <> VTrue.
  Proof.
    cbn [verify_redirect_signature_c]. destruct (get q K_ALG) as [a|]; [|discriminate].
    destruct (digest_of a); [|discriminate]. destruct (has q K_REQ || has q K_RESP); [|discriminate].
    destruct (get q K_SIG); discriminate.
  Qed.

  (* no certificate at all: the verifying entity's own certificate *)
  Lemma absent_is_own own q : vrsc own q CAbsent = vrsc own q (CCert (cert_of own)).
  Proof. reflexivity. Qed.

  (* the outcomes that are exceptions other than ValueError depend on the parameters only *)
  Definition raises (r : vres) : bool :=
    match r with VKeyError | VUnsupported | VOther => true | _ => false end.

  Lemma vview_has q : (has q K_REQ || has q K_RESP) = match vview q with Some _ => true | None => false end.
  Proof. unfold vview, has. destruct (get q K_REQ); [reflexivity|]. destruct (get q K_RESP); reflexivity. Qed.

  Lemma raises_param_only own q ca ca' : raises (vrsc own q ca) = true -> vrsc own q ca' = vrsc own q ca.
  Proof.
    assert (E : forall c, vrsc own q c =
      match get q K_ALG with
      | None => VKeyError
      | Some a => match digest_of a with
                  | None => VNone
                  | Some d => match vview q with
                              | None => VUnsupported
                              | Some (t, v) => match get q K_SIG with
                                               | None => VKeyError
                                               | Some sp => vrsc own q c
                                               end
                              end
                  end
      end).
    { intros c. destruct c as [|c|]; cbn [verify_redirect_signature_c]; rewrite ?vrs_char, ?vrsg_char, ?vview_has;
        destruct (get q K_ALG); try reflexivity; destruct (digest_of _); try reflexivity;
        destruct (vview q) as [[t v]|]; try reflexivity; destruct (get q K_SIG); reflexivity. }
    intros H. rewrite (E ca) in H. rewrite (E ca'), (E ca).
    destruct (get q K_ALG) as [a|] eqn:Ea; [|reflexivity]. destruct (digest_of a) as [d|] eqn:Ed; [|reflexivity].
    destruct (vview q) as [[t v]|] eqn:Ev; [|reflexivity]. destruct (get q K_SIG) as [sp|] eqn:Es; [|reflexivity].
    exfalso. revert H.
    destruct ca as [|c|]; cbn [verify_redirect_signature_c]; rewrite ?vrs_char, ?vrsg_char, ?vview_has, ?Ea, ?Ed, ?Ev, ?Es.
    all: repeat match goal with |- context [match ?x with _ => _ end] => destruct x end; cbn; discriminate.
  Qed.

  (* ---------------------------------------------------------------- the property *)

  Lemma sign_inv k t v r al args :
    hrm k t v r al true = SArgs args ->
    exists a d, al = Some a /\ dirtyp t /\ In a spec_allowed /\ digest_of a = Some d
                /\ args = signed_args k t v r a d.
  Proof.
    unfold http_redirect_message, order_of_typ.
    destruct al as [a|].
    2:{ destruct (String.eqb t K_REQ); [discriminate|]. destruct (String.eqb t K_RESP); [discriminate|].
        destruct (String.eqb t K_ART); discriminate. }
    destruct (allowed a) eqn:Eal; cbn [negb].
    2:{ destruct (String.eqb t K_REQ); [discriminate|]. destruct (String.eqb t K_RESP); [discriminate|].
        destruct (String.eqb t K_ART); discriminate. }
    destruct (is_empty a) eqn:Ee.
    { destruct (String.eqb t K_REQ); [discriminate|]. destruct (String.eqb t K_RESP); [discriminate|].
      destruct (String.eqb t K_ART); discriminate. }
    destruct (digest_of a) as [d|] eqn:Ed.
    2:{ destruct (String.eqb t K_REQ); [discriminate|]. destruct (String.eqb t K_RESP); [discriminate|].
        destruct (String.eqb t K_ART); discriminate. }
    apply allowed_iff in Eal.
    destruct (String.eqb t K_REQ) eqn:E1.
    { apply String.eqb_eq in E1. subst t. intros H. injection H as H. exists a, d.
      repeat split; try assumption; [left; reflexivity|].
      pose proof (sign_octets_req v r a) as E. unfold rsl in E.
      subst args. unfold signed_args, rsl. rewrite <- E. reflexivity. }
    destruct (String.eqb t K_RESP) eqn:E2.
    { apply String.eqb_eq in E2. subst t. intros H. injection H as H. exists a, d.
      repeat split; try assumption; [right; reflexivity|].
      pose proof (sign_octets_resp v r a) as E. unfold rsl in E.
      subst args. unfold signed_args, rsl. rewrite <- E. reflexivity. }
    destruct (String.eqb t K_ART); discriminate.
  Qed.

  Lemma signed_is_honest k t v r a d :
    signed_args k t v r a d
    = ((t, v) :: (if is_empty r then [] else [(K_RS, r)]) ++
       [(K_ALG, a); (K_SIG, encode (sign k d (octets_of t v (rsopt r) a)))])%list.
  Proof. unfold signed_args, rsl. destruct (is_empty r); reflexivity. Qed.

  Notation model := (model cert_of sign verify).
  Notation spec := (spec cert_of).

  (* the adversary presents the signed URL's own Signature parameter or no signature of the signer at all *)
  Definition guard (x : input key cert) : Prop :=
    forall args, fst (model x) = SArgs args -> no_other_sig (ks x) (q x) args.

  Lemma spec_holds x : guard x -> spec x (model x).
  Proof.
    intros Hg. unfold Spec.spec. split; [|split].
    - intros Hsgn. split; [|split].
      + intros Hn args. cbn [fst Spec.model]. rewrite Hsgn, (refused_outside_allowlist _ _ _ _ _ Hn). discriminate.
      + intros Ht a Ha Hin. destruct (sign_char (ks x) (typ x) (val x) (rs x) a Ht Hin) as [d [Hd Hs]].
        exists (signed_args (ks x) (typ x) (val x) (rs x) a d),
               (encode (sign (ks x) d (octets_of (typ x) (val x) (rsopt (rs x)) a))).
        split; [cbn [fst Spec.model]; rewrite Ha, Hsgn; exact Hs|].
        intros k'. rewrite signed_is_honest. reflexivity.
      + intros args c Hso Hvc. pose proof (Hg args Hso) as Hno.
        cbn [fst Spec.model] in Hso. rewrite Hsgn in Hso.
        destruct (sign_inv _ _ _ _ _ _ Hso) as [a [d [Ha [Ht [Hin [Hd ->]]]]]].
        cbn [snd Spec.model]. rewrite Hvc. cbn [verify_redirect_signature_c]. split.
        * intros Hs. apply (honest_verifies _ _ _ _ _ _ _ _ _ Ht Hd Hs).
        * intros -> Hv. unfold keys4. apply (tamper_rejected _ _ _ _ _ _ _ _ Ht Hd Hno Hv).
    - intros a Ha Hn. cbn [snd Spec.model]. rewrite (unsupported_not_verified_c _ _ _ _ Ha Hn). discriminate.
    - intros Hu. cbn [snd Spec.model]. rewrite Hu. apply unreadable_not_verified.
  Qed.

  (* ---------------------------------------------------------------- finding F1: the Signature parameter
     is decoded leniently, so a CHANGED Signature parameter can still verify *)

  Lemma decode_str_bang s : decode_str (String "!"%char s) = decode_str s.
  Proof. reflexivity. Qed.

  Lemma string_cons_neq c s : String c s <> s.
  Proof. intros H. apply (f_equal String.length) in H. cbn in H. lia. Qed.

  Definition SHA256 := "http://www.w3.org/2001/04/xmldsig-more#rsa-sha256".

  Definition f1_witness (k0 : key) : input key cert :=
    {| ks := k0; typ := K_REQ; val := "v"; rs := ""; alg := Some SHA256; sgn := true;
       q := [(K_REQ, "v"); (K_ALG, SHA256);
             (K_SIG, String "!"%char (encode (sign k0 "sha256" (octets_of K_REQ "v" None SHA256))))];
       vc := CCert (cert_of k0); own := k0 |}.

  Notation model_v0 := (model_v0 cert_of sign verify).

  Lemma f1_accepts k0 : snd (model_v0 (f1_witness k0)) = VTrue.
  Proof.
    cbn [snd Spec.model_v0 f1_witness own q vc]. unfold verify_redirect_signature_v0. rewrite vrsg_char.
    change (get _ K_ALG) with (Some SHA256). cbv beta iota.
    change (digest_of SHA256) with (Some "sha256"). cbv beta iota.
    change (vview _) with (Some (K_REQ, "v")). cbv beta iota.
    match goal with |- context [get ?l K_SIG] =>
      change (get l K_SIG) with (Some (String "!"%char (encode (sign k0 "sha256" (octets_of K_REQ "v" None SHA256))))) end.
    cbv beta iota.
    rewrite decode_str_bang, b64_decode_str_encode. cbn [andb].
    match goal with |- context [get ?l K_RS] => change (get l K_RS) with (@None string) end.
    rewrite (proj2 (verify_own k0 "sha256" (octets_of K_REQ "v" None SHA256) (cert_of k0)) eq_refl).
    reflexivity.
  Qed.

  (* the same request is rejected by the code as it is now *)
  Lemma f1_now_rejected k0 : snd (model (f1_witness k0)) = VFalse.
  Proof.
    cbn [snd Spec.model f1_witness own q vc verify_redirect_signature_c]. rewrite vrs_char, vrsg_char.
    change (get _ K_ALG) with (Some SHA256). cbv beta iota.
    change (digest_of SHA256) with (Some "sha256"). cbv beta iota.
    change (vview _) with (Some (K_REQ, "v")). cbv beta iota.
    match goal with |- context [get ?l K_SIG] =>
      change (get l K_SIG) with (Some (String "!"%char (encode (sign k0 "sha256" (octets_of K_REQ "v" None SHA256))))) end.
    cbv beta iota.
    rewrite decode_str_bang, b64_decode_str_encode.
    match goal with |- context [String.eqb ?a ?b] => destruct (String.eqb a b) eqn:E end; [|reflexivity].
    apply String.eqb_eq in E. symmetry in E. exfalso. exact (string_cons_neq _ _ E).
  Qed.

  Lemma f1_refuted (k0 : key) : exists x, ~ spec x (model_v0 x).
  Proof.
    exists (f1_witness k0). intros [H _]. specialize (H eq_refl) as [_ [_ H]].
    assert (Hin : In SHA256 spec_allowed) by (cbn; auto 10).
    destruct (sign_char k0 K_REQ "v" "" SHA256 (or_introl eq_refl) Hin) as [d [Hd Hs]].
    change (digest_of SHA256) with (Some "sha256") in Hd. injection Hd as <-.
    specialize (H _ (cert_of k0) Hs eq_refl) as [_ H].
    specialize (H eq_refl (f1_accepts k0) K_SIG ltac:(cbn; auto 10)).
    cbn in H. injection H as H. exact (string_cons_neq _ _ H).
  Qed.

  (* ---------------------------------------------------------------- Request._loads on the redirect binding *)

  Lemma request_sound own certs origdoc rs sigalg signature :
    loads_redirect cert_of verify own certs true origdoc rs sigalg signature = true ->
    exists a sp d k, sigalg = Some a /\ signature = Some sp /\ In (cert_of k) certs /\ digest_of a = Some d
      /\ sp = encode (sign k d (octets_of K_REQ origdoc rs a)).
  Proof.
    unfold loads_redirect, do_redirect_sig_check.
    destruct sigalg as [a|]; [|discriminate]. destruct signature as [sp|]; [|discriminate].
    intros H. apply existsb_exists in H as [c [Hc Hv]].
    assert (Hv' : forall r, vres_eqb r VTrue = true -> r = VTrue) by (intros []; cbn; congruence).
    apply Hv' in Hv. apply accept_sound in Hv as [a' [d [t [v [sp' [k [Ea [Ed [Evw [Es [Ec Edec]]]]]]]]]]].
    cbn in Ea. injection Ea as <-. cbn in Evw. injection Evw as <- <-. cbn in Es. injection Es as <-.
    exists a, sp, d, k. subst c. repeat split; try assumption.
    rewrite Edec. destruct rs; reflexivity.
  Qed.

  (* ---------------------------------------------------------------- the loop of _do_redirect_sig_check as
     coded, over published certificates of every form: unreadable ones contribute nothing, an absent one
     (never produced by MetaData.certs) stands for the verifier's own certificate *)
  Definition readable (own : key) (certs : list (certarg cert)) : list cert :=
    flat_map (fun ca => match ca with CAbsent => [cert_of own] | CCert c => [c] | CUnreadable => [] end) certs.

  Lemma raises_none_true own q ca l :
    raises (vrsc own q ca) = true ->
    existsb (fun c => vres_eqb (vrs own q (Some c)) VTrue) l = false.
  Proof.
    intros H. induction l as [|c l IH]; [reflexivity|]. cbn [existsb]. rewrite IH, orb_false_r.
    pose proof (raises_param_only own q ca (CCert c) H) as E. cbn [verify_redirect_signature_c] in E.
    rewrite E. destruct (vrsc own q ca); cbn in *; congruence.
  Qed.

  Lemma check_c_existsb own certs q :
    do_redirect_sig_check_c cert_of verify own certs q = Some true
    <-> do_redirect_sig_check cert_of verify own (readable own certs) q = true.
  Proof.
    unfold do_redirect_sig_check. induction certs as [|ca r IH].
    - cbn. split; discriminate.
    - cbn [do_redirect_sig_check_c readable flat_map]. rewrite existsb_app.
      fold (readable own r).
      destruct (raises (vrsc own q ca)) eqn:Er.
      + (* KeyError / Unsupported: propagates; no certificate would have verified *)
        rewrite (raises_none_true own q ca _ Er), (raises_none_true own q ca _ Er).
        destruct (vrsc own q ca); cbn in Er; try discriminate; split; discriminate.
      + destruct ca as [|c|]; cbn [verify_redirect_signature_c existsb orb] in *.
        * destruct (vrs own q None) eqn:Ev; cbn in Er; try discriminate;
            change (vrs own q (Some (cert_of own))) with (vrs own q None); rewrite Ev; cbn [vres_eqb orb];
            try exact IH; split; reflexivity.
        * destruct (vrs own q (Some c)) eqn:Ev; cbn in Er; try discriminate; cbn [vres_eqb orb];
            try exact IH; split; reflexivity.
        * pose proof (unreadable_not_verified own q) as Hn. cbn [verify_redirect_signature_c] in Hn.
          match goal with |- match ?e with _ => _ end = _ <-> _ => destruct e eqn:Ev end;
            cbn in Er; try discriminate; try exact IH; try contradiction.
  Qed.

  Lemma loads_c_readable own certs must origdoc rs sigalg signature :
    loads_redirect_c cert_of verify own certs must origdoc rs sigalg signature
    = loads_redirect cert_of verify own (readable own certs) must origdoc rs sigalg signature.
  Proof.
    unfold loads_redirect_c, loads_redirect. destruct must; [|reflexivity].
    destruct sigalg as [a|]; [|reflexivity]. destruct signature as [sp|]; [|reflexivity].
    match goal with |- context [do_redirect_sig_check_c _ _ _ _ ?q] => pose proof (check_c_existsb own certs q) as E end.
    destruct (do_redirect_sig_check_c _ _ _ _ _) as [[|]|];
      destruct (do_redirect_sig_check _ _ _ _ _); try reflexivity; exfalso;
      try (now (assert (X : Some true = Some true) by reflexivity; apply E in X; discriminate));
      try (now (assert (X : true = true) by reflexivity; apply E in X; discriminate)).
  Qed.

  Lemma in_readable own c certs :
    In c (readable own certs) -> In (CCert c) certs \/ (c = cert_of own /\ In CAbsent certs).
  Proof.
    induction certs as [|ca r IH]; cbn [readable flat_map]; [intros []|].
    rewrite in_app_iff. intros [H|H].
    - destruct ca as [|c'|]; cbn in H; try contradiction; destruct H as [<-|[]].
      + right. split; [reflexivity|left; reflexivity].
      + left. left. reflexivity.
    - destruct (IH H) as [H'|[E H']]; [left; right; exact H'|right; split; [exact E|right; exact H']].
  Qed.

  (* acceptance means: the owner of a READABLE published certificate signed (an unreadable one stands for
     nobody; in particular it never brings the verifier's own key into play) *)
  Lemma request_sound_c own certs origdoc rs sigalg signature :
    (forall ca, In ca certs -> ca <> CAbsent) ->
    loads_redirect_c cert_of verify own certs true origdoc rs sigalg signature = true ->
    exists a sp d k, sigalg = Some a /\ signature = Some sp /\ In (CCert (cert_of k)) certs /\ digest_of a = Some d
      /\ sp = encode (sign k d (octets_of K_REQ origdoc rs a)).
  Proof.
    intros Hna H. rewrite loads_c_readable in H.
    destruct (request_sound _ _ _ _ _ _ H) as [a [sp [d [k [E1 [E2 [Hin [Hd Hs]]]]]]]].
    exists a, sp, d, k. repeat split; try assumption.
    destruct (in_readable _ _ _ Hin) as [H'|[_ H']]; [exact H'|]. exfalso. exact (Hna _ H' eq_refl).
  Qed.

  (* ---------------------------------------------------------------- the allow-list on the VERIFYING side
     (strengthening round 6).  Whatever the certificate argument, whoever signed and however genuine the signature
     is for the algorithm named: nothing verifies, and no request is accepted, under a SigAlg outside the five
     allowed ones.  No assumption on the signature scheme is needed. *)
  Lemma verified_alg_allowed own q ca :
    vrsc own q ca = VTrue -> exists a, get q K_ALG = Some a /\ In a spec_allowed.
  Proof.
    intros H. destruct (get q K_ALG) as [a|] eqn:Ea.
    - exists a. split; [reflexivity|]. destruct (mem a spec_allowed) eqn:Em; [apply mem_In; exact Em|].
      exfalso. assert (Hn : ~ supported a) by (intros Hs; apply mem_In in Hs; congruence).
      rewrite (unsupported_not_verified_c own q ca a Ea Hn) in H. discriminate.
    - exfalso. destruct ca as [|c|]; cbn [verify_redirect_signature_c] in H;
        rewrite ?vrs_char, ?vrsg_char, Ea in H; discriminate.
  Qed.

  Lemma check_c_alg_allowed own certs q :
    do_redirect_sig_check_c cert_of verify own certs q = Some true ->
    exists a, get q K_ALG = Some a /\ In a spec_allowed.
  Proof.
    induction certs as [|ca r IH]; cbn [do_redirect_sig_check_c]; [discriminate|].
    destruct (vrsc own q ca) eqn:E; try discriminate; try exact IH.
    intros _. exact (verified_alg_allowed own q ca E).
  Qed.

  Lemma request_alg_allowed own certs origdoc rs sigalg signature :
    loads_redirect_c cert_of verify own certs true origdoc rs sigalg signature = true ->
    exists a, sigalg = Some a /\ In a spec_allowed.
  Proof.
    unfold loads_redirect_c. destruct sigalg as [a|]; [|discriminate]. destruct signature as [sp|]; [|discriminate].
    destruct (do_redirect_sig_check_c _ _ _ _ _) as [[|]|] eqn:E; try discriminate. intros _.
    destruct (check_c_alg_allowed _ _ _ E) as [a' [Ha Hin]]. cbn in Ha. injection Ha as <-.
    exists a. split; [reflexivity|exact Hin].
  Qed.

  (* ---------------------------------------------------------------- the receiving entry point binds PRESENCE
     (strengthening round 4).  Server.parse_authn_request / Entity.parse_logout_request hand relay_state, sigalg,
     signature to Request._loads unchanged (Entity._parse_request), and _loads tests `relay_state is not None`:
     rs = None (parameter absent), Some "" (present, empty) and Some r are three different things. *)

  (* the Signature parameter of a signed URL is accepted only together with that URL's own message value, SigAlg
     and RelayState - presence included: no RelayState parameter may be added to a URL signed without one (not
     even an empty one), none may be dropped or emptied *)
  Lemma request_binds k v r al args own certs origdoc rs sigalg :
    hrm k K_REQ v r al true = SArgs args ->
    (forall ca, In ca certs -> ca <> CAbsent) ->
    loads_redirect_c cert_of verify own certs true origdoc rs sigalg (get args K_SIG) = true ->
    origdoc = v /\ rs = rsopt r /\ sigalg = al.
  Proof.
    intros Hs Hna H.
    destruct (sign_inv _ _ _ _ _ _ Hs) as [a [d [-> [Ht [_ [Hd ->]]]]]].
    destruct (signed_gets k K_REQ v r a d Ht) as [_ [_ [_ [G4 _]]]]. cbv zeta in G4. rewrite G4 in H.
    destruct (request_sound_c _ _ _ _ _ _ Hna H) as [a' [sp [d' [k' [-> [Esp [_ [_ Es]]]]]]]].
    injection Esp as Esp. rewrite <- Esp in Es. apply encode_injective in Es.
    destruct (sign_inj _ _ _ Hideal _ _ _ _ _ _ Es) as [_ [_ Eo]].
    destruct (octets_injective _ _ _ _ _ _ _ _ Ht Ht Eo) as [_ [Ev [Er Ea]]].
    subst. auto.
  Qed.

  Lemma rsopt_not_empty r : rsopt r <> Some "".
  Proof. unfold rsopt. destruct (is_empty r) eqn:E; [discriminate|]. intros H. injection H as ->. discriminate. Qed.

  (* ... in particular: with a signature the signer made, a present-but-empty RelayState is never accepted
     (the signer never emits one) *)
  Lemma empty_relay_state_refused k v r al args own certs origdoc sigalg :
    hrm k K_REQ v r al true = SArgs args ->
    (forall ca, In ca certs -> ca <> CAbsent) ->
    loads_redirect_c cert_of verify own certs true origdoc (Some "") sigalg (get args K_SIG) = false.
  Proof.
    intros Hs Hna. destruct (loads_redirect_c _ _ _ _ _ _ _ _ _) eqn:E; [|reflexivity].
    destruct (request_binds _ _ _ _ _ _ _ _ _ _ Hs Hna E) as [_ [Er _]].
    exfalso. exact (rsopt_not_empty r (eq_sym Er)).
  Qed.

  Lemma readable_in own c certs : In (CCert c) certs -> In c (readable own certs).
  Proof.
    induction certs as [|ca l IH]; [intros []|]. cbn [readable flat_map]. rewrite in_app_iff.
    intros [->|H]; [left; left; reflexivity|right; exact (IH H)].
  Qed.

  (* completeness at the request level: the URL as produced, handed over parameter by parameter (an absent
     RelayState as None), is accepted as soon as the signer's certificate is published readably for the issuer -
     whatever else is published next to it *)
  Lemma request_complete k v r a own certs :
    In a spec_allowed -> In (CCert (cert_of k)) certs ->
    exists args, hrm k K_REQ v r (Some a) true = SArgs args
      /\ get args K_RS = rsopt r
      /\ loads_redirect_c cert_of verify own certs true v (get args K_RS) (get args K_ALG) (get args K_SIG) = true.
  Proof.
    intros Ha Hin. assert (Ht : dirtyp K_REQ) by (left; reflexivity).
    destruct (sign_char k K_REQ v r a Ht Ha) as [d [Hd Hs]].
    exists (signed_args k K_REQ v r a d). split; [exact Hs|].
    destruct (signed_gets k K_REQ v r a d Ht) as [G1 [G2 [G3 [G4 G5]]]]. cbv zeta in *.
    split; [exact G2|].
    rewrite loads_c_readable. unfold loads_redirect, do_redirect_sig_check. rewrite G3, G4, G2.
    apply existsb_exists. exists (cert_of k). split; [apply readable_in; exact Hin|].
    match goal with |- vres_eqb ?e VTrue = true => assert (E : e = VTrue); [|rewrite E; reflexivity] end.
    match goal with |- vrs own ?q _ = _ => assert (Hq : same_on keys5 q (signed_args k K_REQ v r a d)) end.
    { intros x Hx. cbn in Hx.
      destruct Hx as [<-|[<-|[<-|[<-|[<-|[]]]]]]; unfold signed_args, rsl, rsopt; destruct (is_empty r); reflexivity. }
    apply (proj2 (honest_verifies k K_REQ v r a d own _ (cert_of k) Ht Hd Hq)). reflexivity.
  Qed.

  (* what a receiver does that tests the TRUTH of relay_state instead of `is not None` (or normalises "" to None on
     the way to _loads) *)
  Definition truthy (rs : option string) : option string :=
    match rs with Some r => rsopt r | None => None end.

  (* necessity of the `is not None` test: such a receiver accepts, for every message and allowed algorithm, the URL
     that was signed WITHOUT RelayState after `RelayState=` (present, empty) was added to it *)
  Lemma truthy_accepts_added_empty k v a own certs :
    In a spec_allowed -> In (CCert (cert_of k)) certs ->
    exists args, hrm k K_REQ v "" (Some a) true = SArgs args /\ get args K_RS = None
      /\ loads_redirect_c cert_of verify own certs true v (truthy (Some "")) (get args K_ALG) (get args K_SIG) = true.
  Proof.
    intros Ha Hin. destruct (request_complete k v "" a own certs Ha Hin) as [args [Hs [G2 H]]].
    exists args. split; [exact Hs|]. split; [exact G2|]. rewrite G2 in H. exact H.
  Qed.

  (* ---------------------------------------------------------------- long-lived receivers (strengthening round 5):
     receptions, metadata reloads (also failing ones), look-ups and sending in any order, on any number of
     receivers.  What a reception answers is what a receiver FRESHLY set up with the metadata of now answers:
     Spec.published_now (the last reload that succeeded, found by looking back from the reception) - nothing that
     happened before that reload, and nothing that happened since, plays a part. *)
  Notation rlife := (run_life cert_of verify).
  Notation lstp := (life_step cert_of verify).
  Notation loads := (loads_redirect_c cert_of verify).

  Fixpoint state_after (st : list (receiver key cert)) (steps : list (lstep cert)) : list (receiver key cert) :=
    match steps with
    | [] => st
    | s :: t => state_after (fst (lstp st s)) t
    end.

  Lemma run_life_nth before : forall st s after,
    nth_error (rlife st (before ++ s :: after)) (length before) = Some (snd (lstp (state_after st before) s)).
  Proof.
    induction before as [|b before IH]; intros st s after; [reflexivity|].
    cbn [app run_life length nth_error state_after]. apply IH.
  Qed.

  Lemma run_life_length : forall steps st, length (rlife st steps) = length steps.
  Proof. induction steps as [|s t IH]; intros st; [reflexivity|]. cbn [run_life length]. rewrite IH. reflexivity. Qed.

  Lemma upd_rcv_nth (pub : list (list (certarg cert))) : forall r (st : list (receiver key cert)) r',
    nth_error (upd_rcv r pub st) r'
    = if Nat.eqb r r' then option_map (fun rc : receiver key cert => mkrcv (r_own rc) (r_must rc) pub) (nth_error st r')
      else nth_error st r'.
  Proof.
    induction r as [|r IH]; intros [|rc st] [|r']; cbn [upd_rcv nth_error Nat.eqb option_map]; try reflexivity.
    - destruct (Nat.eqb r r'); reflexivity.
    - apply IH.
  Qed.

  Lemma last_good_reload_app (r : nat) (a b : list (lstep cert)) :
    last_good_reload r (a ++ b) = match last_good_reload r a with Some p => Some p | None => last_good_reload r b end.
  Proof.
    induction a as [|s a IH]; [reflexivity|]. cbn [app last_good_reload].
    destruct s as [r' [|] pub| |]; try exact IH. destruct (Nat.eqb r' r); [reflexivity|exact IH].
  Qed.

  (* the state after any steps: own key and must as configured, the metadata of the last reload that succeeded *)
  Lemma state_after_nth before : forall st r,
    nth_error (state_after st before) r
    = match nth_error st r with
      | None => None
      | Some rc => Some (mkrcv (r_own rc) (r_must rc)
                           (match last_good_reload r (rev before) with Some p => p | None => r_pub rc end))
      end.
  Proof.
    induction before as [|s before IH]; intros st r.
    - cbn. destruct (nth_error st r) as [[o m p]|]; reflexivity.
    - cbn [state_after rev]. rewrite IH, last_good_reload_app.
      destruct s as [r' good pub|r'|r' iss d rs sa sg]; cbn [life_step fst last_good_reload].
      + destruct good.
        * rewrite upd_rcv_nth. destruct (Nat.eqb r' r).
          -- destruct (nth_error st r) as [rc|]; cbn [option_map]; [|reflexivity].
             cbn [r_own r_must r_pub]. destruct (last_good_reload r (rev before)); reflexivity.
          -- destruct (nth_error st r) as [rc|]; [|reflexivity].
             destruct (last_good_reload r (rev before)); reflexivity.
        * destruct (nth_error st r) as [rc|]; [|reflexivity].
          destruct (last_good_reload r (rev before)); reflexivity.
      + destruct (nth_error st r) as [rc|]; [|reflexivity]. destruct (last_good_reload r (rev before)); reflexivity.
      + destruct (nth_error st r) as [rc|]; [|reflexivity]. destruct (last_good_reload r (rev before)); reflexivity.
  Qed.

  (* a reception in the middle of any life = the same reception at a fresh receiver with the metadata of now *)
  Lemma life_fresh st0 before after r iss origdoc rs sigalg signature rc pub :
    nth_error st0 r = Some rc -> published_now st0 before r = Some pub ->
    nth_error (rlife st0 (before ++ LRecv r iss origdoc rs sigalg signature :: after)) (length before)
    = Some (RRecv (loads (r_own rc) (nth iss pub []) (r_must rc) origdoc rs sigalg signature)).
  Proof.
    intros Hr Hp. rewrite run_life_nth. cbn [life_step snd]. rewrite state_after_nth, Hr.
    cbn [r_own r_must r_pub]. unfold published_now in Hp. rewrite Hr in Hp.
    destruct (last_good_reload r (rev before)); cbn [option_map] in Hp; injection Hp as <-; reflexivity.
  Qed.

  (* ... hence, with ideal signatures: a request is accepted only when the owner of a certificate that the metadata
     holds NOW for its issuer signed exactly what was handed over (a withdrawn certificate verifies nothing) ... *)
  Lemma life_sound st0 before after r iss origdoc rs sigalg signature rc pub :
    nth_error st0 r = Some rc -> published_now st0 before r = Some pub -> r_must rc = true ->
    (forall ca, In ca (nth iss pub []) -> ca <> CAbsent) ->
    nth_error (rlife st0 (before ++ LRecv r iss origdoc rs sigalg signature :: after)) (length before)
      = Some (RRecv true) ->
    exists a sp d k, sigalg = Some a /\ signature = Some sp /\ In (CCert (cert_of k)) (nth iss pub [])
      /\ digest_of a = Some d /\ sp = encode (sign k d (octets_of K_REQ origdoc rs a)).
  Proof.
    intros Hr Hp Hm Hna H. rewrite (life_fresh _ _ _ _ _ _ _ _ _ _ _ Hr Hp), Hm in H.
    injection H as H. exact (request_sound_c _ _ _ _ _ _ Hna H).
  Qed.

  (* ... and the URL an entity signed, handed over as produced, is accepted at every point of every life at which
     the metadata holds that entity's certificate for the issuer (the certificate published by the last reload) *)
  Lemma life_complete st0 before after r iss rc pub k v rl a :
    nth_error st0 r = Some rc -> published_now st0 before r = Some pub -> r_must rc = true ->
    In a spec_allowed -> In (CCert (cert_of k)) (nth iss pub []) ->
    exists args, hrm k K_REQ v rl (Some a) true = SArgs args
      /\ nth_error (rlife st0 (before ++ LRecv r iss v (get args K_RS) (get args K_ALG) (get args K_SIG) :: after))
                   (length before) = Some (RRecv true).
  Proof.
    intros Hr Hp Hm Ha Hin.
    destruct (request_complete k v rl a (r_own rc) _ Ha Hin) as [args [Hs [_ H]]].
    exists args. split; [exact Hs|]. rewrite (life_fresh _ _ _ _ _ _ _ _ _ _ _ Hr Hp), Hm, H. reflexivity.
  Qed.

  (* what the seeded memo breaks: a certificate that the last reload no longer publishes accepts nothing, even if
     it was published (and used) before.  Stated on the smallest life: reception, roll-over, reception *)
  Lemma withdrawn_refused own pub0 pub1 iss k d0 rs0 sa0 sg0 origdoc rs sigalg signature :
    (forall ca, In ca (nth iss pub1 []) -> ca <> CAbsent) ->
    ~ In (CCert (cert_of k)) (nth iss pub1 []) ->
    (forall a d, sigalg = Some a -> digest_of a = Some d ->
       signature = Some (encode (sign k d (octets_of K_REQ origdoc rs a)))) ->
    nth_error (rlife [mkrcv own true pub0]
                 [LRecv 0 iss d0 rs0 sa0 sg0; LReload 0 true pub1; LRecv 0 iss origdoc rs sigalg signature]) 2
    = Some (RRecv false).
  Proof.
    intros Hna Hnot Hsig.
    pose proof (life_fresh [mkrcv own true pub0] [LRecv 0 iss d0 rs0 sa0 sg0; LReload 0 true pub1] []
                  0 iss origdoc rs sigalg signature (mkrcv own true pub0) pub1 eq_refl eq_refl) as E.
    cbn [app length] in E. rewrite E. cbn [r_own r_must].
    destruct (loads own (nth iss pub1 []) true origdoc rs sigalg signature) eqn:El; [|reflexivity].
    exfalso. destruct (request_sound_c _ _ _ _ _ _ Hna El) as [a [sp [d [k' [Ea [Esp [Hin [Hd Hs]]]]]]]].
    specialize (Hsig a d Ea Hd). rewrite Esp in Hsig. injection Hsig as Hsig. rewrite Hs in Hsig.
    apply encode_injective in Hsig. destruct (sign_inj _ _ _ Hideal _ _ _ _ _ _ Hsig) as [-> _].
    exact (Hnot Hin).
  Qed.
End Proofs.

(* ------------------------------------------------------------------ spec_b is the stated spec *)

Lemma opt_str_eqb_iff (a b : option string) : opt_eqb String.eqb a b = true <-> a = b.
Proof.
  destruct a as [x|], b as [y|]; cbn; try (split; [discriminate|discriminate]); try tauto.
  rewrite String.eqb_eq. split; [intros ->; reflexivity|intros H; inversion H; reflexivity].
Qed.

Lemma same_on_b_iff keys a b : same_on_b keys a b = true <-> same_on keys a b.
Proof.
  unfold same_on_b, same_on. rewrite forallb_forall. split.
  - intros H k Hk. apply opt_str_eqb_iff. apply H; exact Hk.
  - intros H k Hk. apply opt_str_eqb_iff. apply H; exact Hk.
Qed.

Lemma dict_eqb_iff a b : dict_eqb a b = true <-> dict_eq a b.
Proof.
  unfold dict_eqb, dict_eq. rewrite forallb_forall. split.
  - intros H k. destruct (get a k) as [x|] eqn:Ea.
    + rewrite <- Ea. apply opt_str_eqb_iff. apply H. apply in_or_app. left.
      apply get_In_fst. congruence.
    + destruct (get b k) as [y|] eqn:Eb; [|reflexivity].
      rewrite <- Ea, <- Eb. apply opt_str_eqb_iff. apply H. apply in_or_app. right.
      apply get_In_fst. congruence.
  - intros H k _. apply opt_str_eqb_iff. apply H.
Qed.

Lemma dirtyp_b_iff t : dirtyp_b t = true <-> dirtyp t.
Proof. unfold dirtyp_b, dirtyp. rewrite orb_true_iff, !String.eqb_eq. tauto. Qed.

Lemma alg_allowed_b_iff al : alg_allowed_b al = true <-> alg_allowed al.
Proof.
  unfold alg_allowed_b, alg_allowed. destruct al as [a|].
  - rewrite mem_In. split; [intros H; exists a; auto|intros [a' [E H]]; inversion E; subst; exact H].
  - split; [discriminate|intros [a [E _]]; discriminate].
Qed.

Lemma vres_true_iff r : vres_eqb r VTrue = true <-> r = VTrue.
Proof. destruct r; cbn; split; congruence. Qed.

Lemma and_iff2 (A B C D : Prop) : (A <-> B) -> (C <-> D) -> (A /\ C <-> B /\ D).
Proof. tauto. Qed.

Section Reflect.
  Context {key cert : Type}.
  Variable cert_of : key -> cert.
  Variable cert_eqb : cert -> cert -> bool.
  Hypothesis cert_eqb_iff : forall c c', cert_eqb c c' = true <-> c = c'.

  Lemma honest_get_sig (x : input key cert) a sg : dirtyp (typ x) -> get (honest_args x a sg) K_SIG = Some sg.
  Proof.
    intros Ht. unfold honest_args. destruct Ht as [E|E]; rewrite E; destruct (is_empty (rs x)); reflexivity.
  Qed.

  Lemma spec_b_iff (x : input key cert) o : spec_b cert_of cert_eqb x o = true <-> spec cert_of x o.
  Proof.
    unfold spec_b, spec. rewrite andb_true_iff, andb_true_iff, and_assoc. apply and_iff2; [|apply and_iff2].
    - (* the signing part *)
      destruct (sgn x); cbn [negb orb].
      2:{ split; [intros _ H; discriminate|reflexivity]. }
      rewrite !andb_true_iff. split.
      + intros [[HA HB] HCD] _. split; [|split].
        * intros Hn args E. rewrite E in HA. cbn in HA. rewrite orb_false_r in HA.
          apply alg_allowed_b_iff in HA. contradiction.
        * intros Ht a Ha Hin. apply dirtyp_b_iff in Ht. rewrite Ht, Ha in HB. cbn [negb orb] in HB.
          apply mem_In in Hin. rewrite Hin in HB. cbn [negb orb] in HB.
          destruct (fst o) as [args| | |]; try discriminate.
          destruct (get args K_SIG) as [sg|]; [|discriminate].
          exists args, sg. split; [reflexivity|]. apply dict_eqb_iff. exact HB.
        * intros args c E Hc. rewrite E, Hc in HCD. apply andb_true_iff in HCD as [H1 H2]. split.
          -- intros Hs. apply same_on_b_iff in Hs. rewrite Hs in H1. cbn [negb orb] in H1.
             apply Bool.eqb_prop in H1. rewrite <- vres_true_iff, <- cert_eqb_iff, H1. tauto.
          -- intros Hc' Hv. apply cert_eqb_iff in Hc'. apply vres_true_iff in Hv.
             rewrite Hc', Hv in H2. cbn [negb orb] in H2. apply same_on_b_iff. exact H2.
      + intros H. destruct (H eq_refl) as [HA [HB HCD]]. split; [split|].
        * destruct (alg_allowed_b (alg x)) eqn:E; [reflexivity|]. cbn [orb].
          destruct (fst o) as [args| | |] eqn:Eo; try reflexivity. exfalso.
          apply (HA (fun Hal => eq_true_false_abs _ (proj2 (alg_allowed_b_iff _) Hal) E) args eq_refl).
        * destruct (dirtyp_b (typ x)) eqn:Et; [|reflexivity]. cbn [negb orb].
          destruct (alg x) as [a|] eqn:Ea; [|reflexivity].
          destruct (mem a spec_allowed) eqn:Em; [|reflexivity]. cbn [negb orb].
          apply dirtyp_b_iff in Et. apply mem_In in Em.
          destruct (HB Et a eq_refl Em) as [args [sg [Eo Hd]]]. rewrite Eo.
          rewrite (Hd K_SIG), (honest_get_sig x a sg Et). apply dict_eqb_iff. exact Hd.
        * destruct (fst o) as [args| | |] eqn:Eo; try reflexivity.
          destruct (vc x) as [|c|] eqn:Ec; [reflexivity| |reflexivity].
          destruct (HCD args c eq_refl eq_refl) as [H1 H2]. apply andb_true_iff. split.
          -- destruct (same_on_b keys5 (q x) args) eqn:Es; [|reflexivity]. cbn [negb orb].
             apply same_on_b_iff in Es. specialize (H1 Es).
             apply Bool.eqb_true_iff. apply eq_iff_eq_true. rewrite vres_true_iff, cert_eqb_iff. exact H1.
          -- destruct (cert_eqb c (cert_of (ks x))) eqn:Ece; [|reflexivity]. cbn [negb orb].
             destruct (vres_eqb (snd o) VTrue) eqn:Ev; [|reflexivity]. cbn [negb orb].
             apply same_on_b_iff. apply H2; [apply cert_eqb_iff; exact Ece|apply vres_true_iff; exact Ev].
    - (* unsupported SigAlg *)
      split.
      + intros H a Ha Hn Hv. rewrite Ha in H. apply orb_true_iff in H as [H|H].
        * apply Hn. apply mem_In. exact H.
        * apply vres_true_iff in Hv. rewrite Hv in H. discriminate.
      + intros H. destruct (get (q x) K_ALG) as [a|] eqn:Ea; [|reflexivity].
        destruct (mem a spec_allowed) eqn:Em; [reflexivity|]. cbn [orb].
        destruct (vres_eqb (snd o) VTrue) eqn:Ev; [|reflexivity]. exfalso.
        apply (H a eq_refl); [|apply vres_true_iff; exact Ev].
        intros Hs. apply mem_In in Hs. congruence.
    - (* an unreadable certificate *)
      split.
      + intros H Hu Hv. rewrite Hu in H. apply vres_true_iff in Hv. rewrite Hv in H. discriminate.
      + intros H. destruct (vc x); try reflexivity.
        destruct (vres_eqb (snd o) VTrue) eqn:Ev; [|reflexivity]. exfalso.
        apply (H eq_refl). apply vres_true_iff. exact Ev.
  Qed.
End Reflect.

(* ------------------------------------------------------------------ the hypotheses are satisfiable:
   a term algebra (signature = unambiguous encoding of key, digest and octets) *)

Fixpoint unary (n : nat) : string := match n with 0 => "" | S m => String "1"%char (unary m) end.

Definition ta_sign (k : nat) (d m : string) : string :=
  unary k ++ "|" ++ unary (String.length d) ++ "|" ++ d ++ m.
Definition ta_verify (c : nat) (d m s : string) : bool := String.eqb s (ta_sign c d m).
Definition ta_cert_of (k : nat) : nat := k.

Lemma unary_bar_inj n : forall n' x y, unary n ++ "|" ++ x = unary n' ++ "|" ++ y -> n = n' /\ x = y.
Proof.
  induction n as [|n IH]; intros [|n'] x y H; cbn [unary append] in H.
  - injection H as H. auto.
  - discriminate.
  - discriminate.
  - injection H as H. destruct (IH _ _ _ H) as [-> ->]. auto.
Qed.

Lemma app_len_inj d : forall d' m m', String.length d = String.length d' -> d ++ m = d' ++ m' -> d = d' /\ m = m'.
Proof.
  induction d as [|c d IH]; intros [|c' d'] m m' Hl H; cbn in Hl; try discriminate.
  - auto.
  - cbn [append] in H. injection H as Hc H. injection Hl as Hl. destruct (IH _ _ _ Hl H) as [-> ->]. subst. auto.
Qed.

Lemma ta_ideal : ideal ta_cert_of ta_sign ta_verify.
Proof.
  split.
  - intros c d m s. unfold ta_verify, ta_cert_of. rewrite String.eqb_eq. split.
    + intros ->. exists c. auto.
    + intros [k [-> ->]]. reflexivity.
  - unfold ta_cert_of. auto.
  - intros k d m k' d' m' H. unfold ta_sign in H.
    apply unary_bar_inj in H as [-> H]. apply unary_bar_inj in H as [Hl H].
    assert (Hl' : String.length d = String.length d').
    { clear H. revert Hl. generalize (String.length d) (String.length d'). intros a. induction a as [|a IH]; intros [|b] H; cbn in H; try discriminate; [reflexivity|].
      injection H as H. f_equal. apply IH. exact H. }
    destruct (app_len_inj _ _ _ _ Hl' H) as [-> ->]. auto.
Qed.

(* non-vacuity: with the term algebra, a signed URL comes out, verifies under the signer's certificate,
   fails under another one and after a one-character change of the message value *)
Definition ex_args : query :=
  match http_redirect_message ta_sign 1 K_REQ "fZJ+/w==" "a b&c=d" (Some "http://www.w3.org/2001/04/xmldsig-more#rsa-sha256") true with
  | SArgs a => a | _ => [] end.

Example ex_signed_and_verified :
  get ex_args K_RS = Some "a b&c=d"
  /\ verify_redirect_signature ta_cert_of ta_verify 7 ex_args (Some 1) = VTrue
  /\ verify_redirect_signature ta_cert_of ta_verify 7 ex_args (Some 2) = VFalse
  /\ verify_redirect_signature ta_cert_of ta_verify 7 ((K_REQ, "fZJ+/W==") :: List.tl ex_args) (Some 1) = VFalse.
Proof. vm_compute. auto. Qed.

(* ------------------------------------------------------------------ the named statements *)
Section Named.
  Context {key cert : Type}.
  Variable cert_of : key -> cert.
  Variable sign : key -> string -> string -> string.
  Variable verify : cert -> string -> string -> string -> bool.
  Hypothesis Hideal : ideal cert_of sign verify.

  Lemma verify_thm k t v r a :
    dirtyp t -> In a spec_allowed ->
    exists args, http_redirect_message sign k t v r (Some a) true = SArgs args
      /\ get args t = Some v /\ get args K_RS = (if is_empty r then None else Some r) /\ get args K_ALG = Some a
      /\ forall own q c, same_on keys5 q args ->
           (verify_redirect_signature cert_of verify own q (Some c) = VTrue <-> c = cert_of k).
  Proof.
    intros Ht Ha. destruct (sign_char sign k t v r a Ht Ha) as [d [Hd Hs]].
    exists (signed_args sign k t v r a d). split; [exact Hs|].
    destruct (signed_gets sign k t v r a d Ht) as [G1 [G2 [G3 _]]].
    split; [exact G1|]. split; [exact G2|]. split; [exact G3|].
    intros own q c Hq. apply (honest_verifies cert_of sign verify Hideal _ _ _ _ _ _ _ _ _ Ht Hd Hq).
  Qed.

  Lemma tamper_thm k t v r al args own q :
    http_redirect_message sign k t v r al true = SArgs args ->
    no_other_sig sign k q args ->
    verify_redirect_signature cert_of verify own q (Some (cert_of k)) = VTrue ->
    same_on [t; K_RS; K_ALG; K_SIG] q args.
  Proof.
    intros Hs Hno Hv. destruct (sign_inv sign _ _ _ _ _ _ Hs) as [a [d [_ [Ht [_ [Hd ->]]]]]].
    apply (tamper_rejected cert_of sign verify Hideal _ _ _ _ _ _ _ _ Ht Hd Hno Hv).
  Qed.
End Named.

(* octets_injective, stated on the model's own octet-string function *)
Definition order_for (t : string) : list string := if String.eqb t K_REQ then req_order else resp_order.
Definition args_of (t v : string) (r : option string) (a : string) : query :=
  ((t, v) :: match r with Some x => [(K_RS, x)] | None => [] end ++ [(K_ALG, a)])%list.

Lemma octets_of_model t v r a : dirtyp t -> octets (order_for t) (args_of t v r a) = octets_of t v r a.
Proof. intros [-> | ->]; destruct r; reflexivity. Qed.

Lemma octets_injective_model t v r a t' v' r' a' :
  dirtyp t -> dirtyp t' ->
  octets (order_for t) (args_of t v r a) = octets (order_for t') (args_of t' v' r' a') ->
  t = t' /\ v = v' /\ r = r' /\ a = a'.
Proof.
  intros Ht Ht'. rewrite (octets_of_model _ _ _ _ Ht), (octets_of_model _ _ _ _ Ht').
  apply octets_injective; assumption.
Qed.
