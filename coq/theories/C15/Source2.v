(* C15/Source2.v — the anchored decision code, translated from the CURRENT source text by translator v2
   (gen/C15Src2.v, gen/C15Src2v.v, rewritten on every run), proved equal to the hand-written model for ALL inputs.
   External calls (RSA, X.509 parsing, base64, urlencode, deflate, metadata) are Section variables; what is assumed
   about them are Section hypotheses (each Section has an Example showing them satisfiable). *)
Set Default Timeout 20.
From Coq Require Import String Ascii List Bool ZArith Lia.
From Verif Require Import Base.Str Base.Percent Base.Base64 Base.Py Base.Py2 C15.Model C15.Spec C15.Proofs.
From VerifGen Require Import C15Tables C15Src2 C15Src2v C15Src2p.
Import ListNotations.
Open Scope string_scope.

(* ------------------------------------------------------------------ encodings *)
(* a dict of str -> str (the parsed query / saml_msg / args) *)
Definition qfields (q : query) : list (string * pyval) := map (fun kv => (fst kv, PStr (snd kv))) q.
Definition enc_q (q : query) : pyval := PObj (qfields q).
(* Python dict: no "__class__" trouble in the embedding (a dict whose first key is "__class__" would be an object) *)
Definition dict_ok (q : query) : Prop := forallb (fun kv => dict_key_ok (fst kv)) q = true.

Lemma dict_ok_is_dict q : dict_ok q -> is_obj (qfields q) = false.
Proof.
  unfold dict_ok. destruct q as [|[k v] r]; [reflexivity|]. cbn [forallb fst qfields map is_obj].
  unfold dict_key_ok. intros H. apply andb_true_iff in H as [H _]. apply negb_true_iff in H. exact H.
Qed.

(* del d[k] on the encoding: the first entry with that key goes *)
Fixpoint del1 (k : string) (q : query) : query :=
  match q with
  | [] => []
  | (k', v) :: r => if String.eqb k k' then r else (k', v) :: del1 k r
  end.
Lemma del_assoc_qfields k q : del_assoc k (qfields q) = qfields (del1 k q).
Proof.
  induction q as [|[k' v] r IH]; [reflexivity|]. cbn [qfields map fst snd del_assoc del1].
  destruct (String.eqb k k'); [reflexivity|]. cbn [qfields map fst snd]. f_equal. exact IH.
Qed.
Lemma dict_ok_del1 k q : dict_ok q -> dict_ok (del1 k q).
Proof.
  unfold dict_ok. induction q as [|[k' v] r IH]; [reflexivity|]. cbn [forallb fst del1]. intros H.
  apply andb_true_iff in H as [H1 H2]. destruct (String.eqb k k'); [exact H2|].
  cbn [forallb fst]. rewrite H1. exact (IH H2).
Qed.
Lemma get_del1_other k k' q : k <> k' -> get (del1 k q) k' = get q k'.
Proof.
  intros Hne. induction q as [|[k0 v] r IH]; [reflexivity|]. cbn [del1 get].
  destruct (String.eqb k k0) eqn:E.
  - apply String.eqb_eq in E. subst k0. apply String.eqb_neq in Hne. rewrite Hne. reflexivity.
  - cbn [get]. rewrite IH. reflexivity.
Qed.

Lemma strs_of_map l : strs_of (map PStr l) = Some l.
Proof. induction l as [|a r IH]; [reflexivity|]. cbn [map strs_of]. rewrite IH. reflexivity. Qed.

Lemma assoc_qfields q k : assoc_py k (qfields q) = option_map PStr (get q k).
Proof.
  induction q as [|[k' v] r IH]; [reflexivity|]. cbn [qfields map fst snd assoc_py get].
  rewrite (String.eqb_sym k k'). destruct (String.eqb k' k); [reflexivity|exact IH].
Qed.

(* the shared signer objects of SIGNER_ALGS (no key), and a signer handed out by get_signer *)
Definition enc_signer (d : string) (k : pyval) : pyval :=
  PObj [("__class__", PStr "RSASigner"); ("digest", PStr d); ("key", k)].
Definition signer_algs_py : pyval := PObj (map (fun p => (fst p, enc_signer (snd p) PNone)) signer_algs).
Definition req_order_py : pyval := PList (map PStr req_order).
Definition resp_order_py : pyval := PList (map PStr resp_order).
Definition sig_allowed_alg_py : pyval := PList (map (fun p => PList [PStr (fst p); PStr (snd p)]) sig_allowed_alg).

Lemma assoc_signer_algs a :
  assoc_py a (map (fun p => (fst p, enc_signer (snd p) PNone)) signer_algs)
  = option_map (fun d => enc_signer d PNone) (digest_of a).
Proof.
  unfold digest_of. generalize signer_algs. intros l.
  induction l as [|[k' v] r IH]; [reflexivity|]. cbn [map fst snd assoc_py get].
  rewrite (String.eqb_sym a k'). destruct (String.eqb k' a); [reflexivity|exact IH].
Qed.

Lemma signer_algs_is_dict : is_obj (map (fun p => (fst p, enc_signer (snd p) PNone)) signer_algs) = false.
Proof. reflexivity. Qed.

(* results of verify_redirect_signature, read back from the embedding.  ValueError and its subclasses raised by
   the externals (UnicodeEncodeError: str.encode("ascii"); Error: binascii.Error) are one outcome *)
Definition value_errors : list string := ["ValueError"; "UnicodeEncodeError"; "Error"].
Definition vres_of (v : pyval) : vres :=
  match v with
  | PBool true => VTrue
  | PBool false => VFalse
  | PNone => VNone
  | PExc n => if String.eqb n "KeyError" then VKeyError
              else if String.eqb n "Unsupported" then VUnsupported
              else if mem n value_errors then VValueError else VOther
  | _ => VOther
  end.

(* ================================================================== RSACrypto.get_signer, RSASigner.verify / sign *)
Section Signers.
  (* a key object (private or public): any good, truthy value *)
  Definition keyval (k : pyval) : Prop := is_bad k = false /\ py_truthy k = true.

  Definition enc_crypto (own : pyval) : pyval := PObj [("__class__", PStr "RSACrypto"); ("key", own)].

  (* sigkey: None or a key object *)
  Definition sigkey_ok (sk : pyval) : Prop := sk = PNone \/ keyval sk.
  Definition or_key (sk own : pyval) : pyval := if py_truthy sk then sk else own.

  (* SIGNER_ALGS[sigalg] -> None on KeyError; else a NEW signer with the digest of the shared one and the key
     `sigkey or self.key` (model: digest_of; "cert absent: the backend's own key") *)
  Theorem src2_get_signer_is_model : forall own alg sk, is_bad own = false -> sigkey_ok sk ->
    src2_get_signer signer_algs_py (enc_crypto own) (PStr alg) sk
    = match digest_of alg with Some d => enc_signer d (or_key sk own) | None => PNone end.
  Proof.
    intros own alg sk Hown Hsk. unfold src2_get_signer, signer_algs_py. cbv zeta.
    rewrite (p2_getitem_dict _ alg signer_algs_is_dict), assoc_signer_algs.
    destruct (digest_of alg) as [d|]; cbn [option_map].
    - rewrite py_bindh_good by reflexivity.
      change (p2_attr (enc_signer d PNone) "digest") with (PStr d). cbn [py_bind].
      change (p2_attr (enc_crypto own) "key") with own.
      assert (Hb : is_bad sk = false) by (destruct Hsk as [->|[H _]]; [reflexivity|exact H]).
      rewrite (p2_or_good _ _ Hb). unfold or_key.
      destruct (py_truthy sk); [rewrite py_bind_good by exact Hb|rewrite py_bind_good by exact Hown]; reflexivity.
    - rewrite py_bindh_exc. reflexivity.
  Qed.

  (* key_verify(key or self.key, sig, msg, self.digest): argument order and fallback *)
  Theorem src2_signer_verify_is_model : forall kv d k0 m s k,
    is_bad k0 = false -> is_bad m = false -> is_bad s = false -> is_bad k = false ->
    src2_signer_verify kv (enc_signer d k0) m s k = kv (or_key k k0) s m (PStr d).
  Proof.
    intros kv d k0 m s k H0 Hm Hs Hk. unfold src2_signer_verify.
    change (p2_attr (enc_signer d k0) "key") with k0. change (p2_attr (enc_signer d k0) "digest") with (PStr d).
    rewrite (p2_or_good _ _ Hk). unfold or_key.
    destruct (py_truthy k); [rewrite py_bind_good by exact Hk|rewrite py_bind_good by exact H0];
      rewrite (py_bind_good s) by exact Hs; rewrite (py_bind_good m) by exact Hm; reflexivity.
  Qed.

  Theorem src2_signer_sign_is_model : forall ks d k0 m k,
    is_bad k0 = false -> is_bad m = false -> is_bad k = false ->
    src2_signer_sign ks (enc_signer d k0) m k = ks (or_key k k0) m (PStr d).
  Proof.
    intros ks d k0 m k H0 Hm Hk. unfold src2_signer_sign.
    change (p2_attr (enc_signer d k0) "key") with k0. change (p2_attr (enc_signer d k0) "digest") with (PStr d).
    rewrite (p2_or_good _ _ Hk). unfold or_key.
    destruct (py_truthy k); [rewrite py_bind_good by exact Hk|rewrite py_bind_good by exact H0];
      rewrite (py_bind_good m) by exact Hm; reflexivity.
  Qed.
End Signers.

(* ================================================================== verify_redirect_signature *)
Lemma plus_alphabet_ascii c : plus_alphabet c = true -> Base64.is_ascii_char c = true.
Proof.
  assert (H : forall c, implb (plus_alphabet c) (Base64.is_ascii_char c) = true).
  { apply (Percent.all_ascii (fun c => implb (plus_alphabet c) (Base64.is_ascii_char c))). vm_compute. reflexivity. }
  intros Hc. specialize (H c). rewrite Hc in H. exact H.
Qed.

Lemma quote_plus_ascii s : all_chars Base64.is_ascii_char (quote_plus s) = true.
Proof. apply (all_chars_impl plus_alphabet _ _ plus_alphabet_ascii), quote_plus_alphabet. Qed.

Lemma urlencode1_ascii k v : all_chars Base64.is_ascii_char (urlencode1 k v) = true.
Proof. unfold urlencode1. rewrite !all_chars_app, !quote_plus_ascii. reflexivity. Qed.

Lemma join_amp_ascii l : (forall s, In s l -> all_chars Base64.is_ascii_char s = true) ->
  all_chars Base64.is_ascii_char (join "&" l) = true.
Proof.
  induction l as [|a r IH]; intros H; [reflexivity|].
  destruct r as [|b r']; cbn [join].
  - apply H. left. reflexivity.
  - rewrite !all_chars_app, (H a (or_introl eq_refl)). cbn [andb all_chars]. apply IH.
    intros s Hs. apply H. right. exact Hs.
Qed.

Lemma octets_ascii order args : all_chars Base64.is_ascii_char (octets order args) = true.
Proof.
  unfold octets. apply join_amp_ascii. intros s Hs. apply in_flat_map in Hs as [k [_ Hk]].
  destruct (get args k); [|contradiction]. destruct Hk as [<-|[]]. apply urlencode1_ascii.
Qed.

(* octets depend on the values under the names of the order table only *)
Lemma octets_ext order a b : (forall k, In k order -> get a k = get b k) -> octets order a = octets order b.
Proof.
  intros H. unfold octets. f_equal. induction order as [|k r IH]; [reflexivity|]. cbn [flat_map].
  rewrite (H k (or_introl eq_refl)), IH; [reflexivity|]. intros k' Hk'. apply H. right. exact Hk'.
Qed.

Section Octets.
  Variable urlencode_ext : pyval -> pyval.
  (* urllib.parse.urlencode on a one-entry dict of str *)
  Hypothesis urlencode_spec : forall k v, urlencode_ext (PObj [(k, PStr v)]) = PStr (urlencode1 k v).

  (* "&".join([urlencode({k: args[k]}) for k in order if k in args]) *)
  Lemma comp_octets order args : dict_ok args -> forallb dict_key_ok order = true ->
    p2_join (PStr "&")
      (p2_listcomp (PList (map PStr order)) (fun v_k => p2_in v_k (enc_q args))
         (fun v_k => py_bind (p2_setitem (PObj []) v_k (p2_getitem (enc_q args) v_k)) (fun a => urlencode_ext a)))
    = PStr (octets order args).
  Proof.
    intros Hd Ho. pose proof (dict_ok_is_dict _ Hd) as Hobj. rewrite p2_listcomp_list.
    assert (E : listcomp_go (map PStr order) (fun v_k => p2_in v_k (enc_q args))
                  (fun v_k => py_bind (p2_setitem (PObj []) v_k (p2_getitem (enc_q args) v_k)) (fun a => urlencode_ext a))
                = PList (map PStr (flat_map (fun k => match get args k with Some v => [urlencode1 k v] | None => [] end) order))).
    { induction order as [|k r IH]; [reflexivity|]. cbn [forallb] in Ho. apply andb_true_iff in Ho as [Hk Hr].
      cbn [map listcomp_go flat_map]. unfold enc_q at 1. rewrite (p2_in_dict _ k Hobj), assoc_qfields, p2_branch_bool.
      destruct (get args k) as [v|] eqn:Eg; cbn [option_map app].
      - unfold enc_q at 1. rewrite (p2_getitem_dict _ k Hobj), assoc_qfields, Eg. cbn [option_map].
        unfold dict_key_ok in Hk. apply negb_true_iff, String.eqb_neq in Hk.
        rewrite (p2_setitem_dict [] k (PStr v) eq_refl Hk eq_refl). cbn [set_assoc py_bind].
        rewrite urlencode_spec. cbn [py_bind]. rewrite (IH Hr). reflexivity.
      - exact (IH Hr). }
    rewrite E. unfold p2_join. rewrite s2_good by reflexivity. rewrite strs_of_map. reflexivity.
  Qed.

End Octets.

Section Verify.
  Context {key cert : Type}.
  Variable cert_of : key -> cert.
  Variable verify : cert -> string -> string -> string -> bool.
  (* encodings of the verifier's private key and of the public key extracted from a certificate *)
  Variable enc_key : key -> pyval.
  Variable enc_pub : cert -> pyval.
  Hypothesis enc_key_val : forall k, keyval (enc_key k).
  Hypothesis enc_pub_val : forall c, keyval (enc_pub c).
  (* externals *)
  Variable urlencode_ext pem_format_ext cert_key_ext encode_ascii_ext b64decode_ext b64encode_ext : pyval -> pyval.
  Variable key_verify_ext : pyval -> pyval -> pyval -> pyval -> pyval.
  (* urllib.parse.urlencode on a one-entry dict of str *)
  Hypothesis urlencode_spec : forall k v, urlencode_ext (PObj [(k, PStr v)]) = PStr (urlencode1 k v).
  (* str.encode("ascii"): bytes are written as PStr *)
  Hypothesis encode_ascii_spec : forall s,
    encode_ascii_ext (PStr s) = if all_chars Base64.is_ascii_char s then PStr s else PExc "UnicodeEncodeError".
  (* base64.b64decode(bytes) in its default mode (binascii.Error is a ValueError), base64.b64encode *)
  Hypothesis b64decode_spec : forall s,
    b64decode_ext (PStr s) = match decode s with Some b => PStr b | None => PExc "Error" end.
  Hypothesis b64encode_spec : forall b, b64encode_ext (PStr b) = PStr (encode b).
  (* asymmetric.key_verify: with a public key; a private key is turned into its public key first *)
  Hypothesis key_verify_pub : forall c d m s,
    key_verify_ext (enc_pub c) (PStr s) (PStr m) (PStr d) = PBool (verify c d m s).
  Hypothesis key_verify_priv : forall k d m s,
    key_verify_ext (enc_key k) (PStr s) (PStr m) (PStr d) = PBool (verify (cert_of k) d m s).

  (* the cert argument: what the caller passes for each form the model distinguishes *)
  Definition cert_repr (ca : certarg cert) (cv : pyval) : Prop :=
    match ca with
    | CAbsent => cv = PNone \/ cv = PStr ""
    | CCert c => exists s, cv = PStr s /\ is_empty s = false /\ is_bad (pem_format_ext (PStr s)) = false
                           /\ cert_key_ext (pem_format_ext (PStr s)) = enc_pub c
    | CUnreadable => exists s n, cv = PStr s /\ is_empty s = false /\ In n value_errors
                                 /\ (pem_format_ext (PStr s) = PExc n
                                     \/ (is_bad (pem_format_ext (PStr s)) = false /\ cert_key_ext (pem_format_ext (PStr s)) = PExc n))
    end.

  Notation src2_vrs := (src2_verify_redirect_signature signer_algs_py req_order_py resp_order_py urlencode_ext
                          pem_format_ext cert_key_ext encode_ascii_ext b64decode_ext b64encode_ext key_verify_ext).

  Lemma in_value_errors n : In n value_errors -> vres_of (PExc n) = VValueError.
  Proof. intros [<-|[<-|[<-|[]]]]; reflexivity. Qed.

  (* the part after the key has been determined: Signature parameter -> bytes -> canonical? -> key_verify *)
  Ltac sigtail Hkb Hkt key_lemma :=
    rewrite (py_bind_good (PStr _)) by reflexivity;
    match goal with |- context [p2_isinstance (PStr ?sp) ["str"] []] =>
      change (p2_isinstance (PStr sp) ["str"] []) with (PBool true) end;
    rewrite p2_branch_bool; rewrite (py_bind_good (PStr _)) by reflexivity;
    rewrite encode_ascii_spec; unfold decode_str;
    match goal with |- context [all_chars Base64.is_ascii_char ?sp] =>
      destruct (all_chars Base64.is_ascii_char sp); [|reflexivity] end;
    rewrite (py_bind_good (PStr _)) by reflexivity; rewrite (py_bind_good (PStr _)) by reflexivity;
    rewrite b64decode_spec;
    match goal with |- context [decode ?sp] => destruct (decode sp) as [sv|]; [|reflexivity] end;
    rewrite (py_bind_good (PStr _)) by reflexivity; rewrite (py_bind_good (PStr _)) by reflexivity;
    rewrite b64encode_spec, p2_ne_str, p2_branch_bool;
    match goal with |- context [String.eqb ?x ?y] => destruct (String.eqb x y); cbn [negb]; [|reflexivity] end;
    rewrite !(py_bind_good (PStr _)) by reflexivity;
    try (rewrite (py_bind_good _) by (apply enc_pub_val));
    rewrite src2_signer_verify_is_model by (try reflexivity; try exact Hkb; try apply enc_pub_val);
    unfold or_key; cbn [py_truthy]; try (rewrite (proj2 (enc_pub_val _)));
    rewrite key_lemma; unfold p2_bool; rewrite s1_good by reflexivity; cbn [py_truthy];
    match goal with |- context [verify ?c ?d ?m ?s] => destruct (verify c d m s); reflexivity end.

  Theorem src2_verify_redirect_signature_is_model : forall own q ca cv,
    dict_ok q -> cert_repr ca cv ->
    vres_of (src2_vrs (enc_q q) (enc_crypto (enc_key own)) cv PNone)
    = verify_redirect_signature_c cert_of verify own q ca.
  Proof.
    intros own q ca cv Hq Hc. pose proof (dict_ok_is_dict _ Hq) as Hobj.
    destruct (enc_key_val own) as [Hkb Hkt].
    (* the model side, in the order of the code *)
    assert (Em : verify_redirect_signature_c cert_of verify own q ca =
      match get q K_ALG with
      | None => VKeyError
      | Some a => match digest_of a with
                  | None => VNone
                  | Some d =>
                    match (if has q K_REQ then Some req_order else if has q K_RESP then Some resp_order else None) with
                    | None => VUnsupported
                    | Some order =>
                      match get q K_SIG with
                      | None => VKeyError
                      | Some sp =>
                        match ca with
                        | CUnreadable => VValueError
                        | _ => match decode_str sp with
                               | None => VValueError
                               | Some s => if negb (String.eqb (encode s) sp) then VFalse
                                           else if verify (match ca with CCert c => c | _ => cert_of own end) d
                                                     (octets order (remove K_SIG q)) s then VTrue else VFalse
                               end
                        end
                      end
                    end
                  end
      end).
    { destruct ca as [|c|]; cbn [verify_redirect_signature_c]; unfold verify_redirect_signature, verify_redirect_signature_gen;
        destruct (get q K_ALG); try reflexivity; destruct (digest_of _); try reflexivity;
        destruct (has q K_REQ); cbn [orb]; try (destruct (get q K_SIG); reflexivity);
        destruct (has q K_RESP); try reflexivity; destruct (get q K_SIG); reflexivity. }
    rewrite Em. clear Em.
    unfold src2_verify_redirect_signature. cbv zeta.
    unfold enc_q. rewrite !(p2_getitem_dict _ _ Hobj), !assoc_qfields.
    destruct (get q K_ALG) as [alg|] eqn:Ealg; cbn [option_map].
    2:{ reflexivity. }
    rewrite (py_bind_good (PStr alg)) by reflexivity. cbn [py_bind].
    rewrite (src2_get_signer_is_model (enc_key own) alg PNone Hkb (or_introl eq_refl)).
    unfold signer_algs_py at 1. rewrite (p2_in_dict _ alg signer_algs_is_dict), assoc_signer_algs.
    destruct (digest_of alg) as [d|] eqn:Ed; cbn [option_map].
    2:{ reflexivity. }
    rewrite py_bindh_good by reflexivity. rewrite p2_branch_bool.
    rewrite !(p2_in_dict _ _ Hobj), !assoc_qfields.
    assert (Hreq : forallb dict_key_ok req_order = true /\ ~ In K_SIG req_order).
    { rewrite req_order_eq. split; [reflexivity|]. cbn. intros [H|[H|[H|[]]]]; discriminate. }
    assert (Hresp : forallb dict_key_ok resp_order = true /\ ~ In K_SIG resp_order).
    { rewrite resp_order_eq. split; [reflexivity|]. cbn. intros [H|[H|[H|[]]]]; discriminate. }
    unfold has.
    destruct (get q K_REQ) as [vreq|] eqn:Ereq; cbn [option_map].
    - rewrite p2_branch_bool. unfold req_order_py. destruct Hreq as [Ho Hns]. revert Ho Hns.
      generalize req_order. intros order Ho Hns.
      rewrite py_bind_good by reflexivity.
      change (p2_copy (PObj (qfields q))) with (s1 (fun d => match d with PList _ => d | PObj f => if is_obj f then PErr else d | _ => PErr end) (PObj (qfields q))).
      rewrite s1_good by reflexivity. rewrite Hobj. rewrite py_bind_good by reflexivity.
      destruct (get q K_SIG) as [sp|] eqn:Esig.
      2:{ rewrite (p2_delitem_missing _ _ Hobj) by (rewrite assoc_qfields, Esig; reflexivity). reflexivity. }
      rewrite (p2_delitem_dict _ _ (PStr sp) Hobj) by (rewrite assoc_qfields, Esig; reflexivity).
      rewrite del_assoc_qfields. rewrite py_bind_good by reflexivity.
      fold (enc_q (del1 K_SIG q)).
      rewrite (comp_octets urlencode_ext urlencode_spec order (del1 K_SIG q) (dict_ok_del1 _ _ Hq) Ho).
      rewrite (octets_ext order (del1 K_SIG q) (remove K_SIG q)).
      2:{ intros k Hk. assert (Hne : K_SIG <> k) by (intros <-; exact (Hns Hk)).
          rewrite (get_del1_other _ _ _ Hne), get_remove by congruence. reflexivity. }
      rewrite (py_bind_good (PStr _)) by reflexivity. rewrite encode_ascii_spec, octets_ascii.
      rewrite py_bind_good by reflexivity. cbn [option_map].
      destruct ca as [|c|]; cbn [cert_repr] in Hc.
      + (* absent: None or "" *)
        destruct Hc as [-> | ->]; cbn [p2_branch py_truthy is_empty negb]; try (rewrite (py_bind_good PNone) by reflexivity);
          sigtail Hkb Hkt key_verify_priv.
      + destruct Hc as (s & -> & Hne & Hpg & Hck). cbn [p2_branch py_truthy]. rewrite Hne. cbn [negb].
        rewrite (py_bind_good (PStr s)) by reflexivity. rewrite (py_bind_good _ _ Hpg), Hck.
        rewrite (py_bind_good _ _ (proj1 (enc_pub_val c))).
        sigtail Hkb Hkt key_verify_pub.
      + destruct Hc as (s & n & -> & Hne & Hin & Hx). cbn [p2_branch py_truthy]. rewrite Hne. cbn [negb].
        rewrite (py_bind_good (PStr s)) by reflexivity.
        destruct Hx as [Hx | [Hpg Hx]].
        * rewrite Hx. cbn [py_bind]. apply in_value_errors, Hin.
        * rewrite (py_bind_good _ _ Hpg), Hx. cbn [py_bind]. apply in_value_errors, Hin.
    - rewrite p2_branch_bool.
      destruct (get q K_RESP) as [vresp|] eqn:Eresp; cbn [option_map]; rewrite p2_branch_bool; [|reflexivity].
      unfold resp_order_py. destruct Hresp as [Ho Hns]. revert Ho Hns.
      generalize resp_order. intros order Ho Hns.
      rewrite py_bind_good by reflexivity.
      change (p2_copy (PObj (qfields q))) with (s1 (fun d => match d with PList _ => d | PObj f => if is_obj f then PErr else d | _ => PErr end) (PObj (qfields q))).
      rewrite s1_good by reflexivity. rewrite Hobj. rewrite py_bind_good by reflexivity.
      destruct (get q K_SIG) as [sp|] eqn:Esig.
      2:{ rewrite (p2_delitem_missing _ _ Hobj) by (rewrite assoc_qfields, Esig; reflexivity). reflexivity. }
      rewrite (p2_delitem_dict _ _ (PStr sp) Hobj) by (rewrite assoc_qfields, Esig; reflexivity).
      rewrite del_assoc_qfields. rewrite py_bind_good by reflexivity.
      fold (enc_q (del1 K_SIG q)).
      rewrite (comp_octets urlencode_ext urlencode_spec order (del1 K_SIG q) (dict_ok_del1 _ _ Hq) Ho).
      rewrite (octets_ext order (del1 K_SIG q) (remove K_SIG q)).
      2:{ intros k Hk. assert (Hne : K_SIG <> k) by (intros <-; exact (Hns Hk)).
          rewrite (get_del1_other _ _ _ Hne), get_remove by congruence. reflexivity. }
      rewrite (py_bind_good (PStr _)) by reflexivity. rewrite encode_ascii_spec, octets_ascii.
      rewrite py_bind_good by reflexivity. cbn [option_map].
      destruct ca as [|c|]; cbn [cert_repr] in Hc.
      + (* absent: None or "" *)
        destruct Hc as [-> | ->]; cbn [p2_branch py_truthy is_empty negb]; try (rewrite (py_bind_good PNone) by reflexivity);
          sigtail Hkb Hkt key_verify_priv.
      + destruct Hc as (s & -> & Hne & Hpg & Hck). cbn [p2_branch py_truthy]. rewrite Hne. cbn [negb].
        rewrite (py_bind_good (PStr s)) by reflexivity. rewrite (py_bind_good _ _ Hpg), Hck.
        rewrite (py_bind_good _ _ (proj1 (enc_pub_val c))).
        sigtail Hkb Hkt key_verify_pub.
      + destruct Hc as (s & n & -> & Hne & Hin & Hx). cbn [p2_branch py_truthy]. rewrite Hne. cbn [negb].
        rewrite (py_bind_good (PStr s)) by reflexivity.
        destruct Hx as [Hx | [Hpg Hx]].
        * rewrite Hx. cbn [py_bind]. apply in_value_errors, Hin.
        * rewrite (py_bind_good _ _ Hpg), Hx. cbn [py_bind]. apply in_value_errors, Hin.
  Qed.
End Verify.

(* the hypotheses of Section Verify are satisfiable: keys are numbers, signatures are checked by any verify *)
Example verify_hypotheses_satisfiable : forall verify : nat -> string -> string -> string -> bool,
  exists (enc_key enc_pub : nat -> pyval) (urlencode_ext encode_ascii_ext b64decode_ext b64encode_ext : pyval -> pyval)
         (key_verify_ext : pyval -> pyval -> pyval -> pyval -> pyval),
    (forall k, keyval (enc_key k)) /\ (forall c, keyval (enc_pub c))
    /\ (forall k v, urlencode_ext (PObj [(k, PStr v)]) = PStr (urlencode1 k v))
    /\ (forall s, encode_ascii_ext (PStr s) = if all_chars Base64.is_ascii_char s then PStr s else PExc "UnicodeEncodeError")
    /\ (forall s, b64decode_ext (PStr s) = match decode s with Some b => PStr b | None => PExc "Error" end)
    /\ (forall b, b64encode_ext (PStr b) = PStr (encode b))
    /\ (forall c d m s, key_verify_ext (enc_pub c) (PStr s) (PStr m) (PStr d) = PBool (verify c d m s))
    /\ (forall k d m s, key_verify_ext (enc_key k) (PStr s) (PStr m) (PStr d) = PBool (verify k d m s)).
Proof.
  intros verify.
  exists (fun k => PObj [("__class__", PStr "RSAPrivateKey"); ("n", PInt (Z.of_nat k))]),
         (fun c => PObj [("__class__", PStr "RSAPublicKey"); ("n", PInt (Z.of_nat c))]),
         (fun v => match v with PObj [(k, PStr x)] => PStr (urlencode1 k x) | _ => PErr end),
         (fun v => match v with PStr s => if all_chars Base64.is_ascii_char s then PStr s else PExc "UnicodeEncodeError" | _ => PErr end),
         (fun v => match v with PStr s => match decode s with Some b => PStr b | None => PExc "Error" end | _ => PErr end),
         (fun v => match v with PStr b => PStr (encode b) | _ => PErr end),
         (fun k s m d => match k, s, m, d with
                         | PObj [_; (_, PInt n)], PStr s', PStr m', PStr d' => PBool (verify (Z.to_nat n) d' m' s')
                         | _, _, _, _ => PErr end).
  repeat split; intros; cbn; rewrite ?Nat2Z.id; reflexivity.
Qed.

(* ... and every form of the cert argument has a representation *)
Example cert_repr_inhabited :
  let enc_pub := fun c : nat => PObj [("__class__", PStr "RSAPublicKey"); ("n", PInt (Z.of_nat c))] in
  exists pem_format_ext cert_key_ext : pyval -> pyval,
    cert_repr enc_pub pem_format_ext cert_key_ext CAbsent PNone
    /\ cert_repr enc_pub pem_format_ext cert_key_ext CAbsent (PStr "")
    /\ cert_repr enc_pub pem_format_ext cert_key_ext (CCert 7) (PStr "MIIC")
    /\ cert_repr enc_pub pem_format_ext cert_key_ext CUnreadable (PStr "!!!!")
    /\ cert_repr enc_pub pem_format_ext cert_key_ext CUnreadable (PStr "é").
Proof.
  intros enc_pub.
  exists (fun v => match v with PStr s => if all_chars Base64.is_ascii_char s then PStr s else PExc "UnicodeEncodeError" | _ => PErr end),
         (fun v => match v with PStr "MIIC" => enc_pub 7 | _ => PExc "ValueError" end).
  repeat split; cbn [cert_repr]; auto.
  - exists "MIIC". repeat split; reflexivity.
  - exists "!!!!", "ValueError". repeat split; try reflexivity; [cbn; auto|right; split; reflexivity].
  - exists "é", "UnicodeEncodeError". repeat split; try reflexivity; [cbn; auto|left; reflexivity].
Qed.

(* ================================================================== Request._do_redirect_sig_check *)
Definition check_of (v : pyval) : option (option bool) :=
  match v with PBool b => Some (Some b) | PExc _ => Some None | _ => None end.

Section Check.
  Context {key cert : Type}.
  Variable cert_of : key -> cert.
  Variable verify : cert -> string -> string -> string -> bool.
  Variable own : key.
  Variable q : query.
  Variable certs : list (certarg cert).
  (* externals: self.sender(), self.sec.metadata.certs(issuer, "any", "signing"), verify_redirect_signature *)
  Variable sender_ext : pyval -> pyval.
  Variable certs_ext : pyval -> pyval -> pyval.
  Variable vrs_ext : pyval -> pyval -> pyval -> pyval.
  Variable cert_text : certarg cert -> pyval.
  Variable backend msg : pyval.
  Definition enc_request : pyval :=
    PObj [("__class__", PStr "Request"); ("sec", PObj [("__class__", PStr "SecurityContext"); ("sec_backend", backend)])].
  Hypothesis backend_good : is_bad backend = false.
  Hypothesis msg_good : is_bad msg = false.
  Hypothesis cert_text_good : forall ca, is_bad (cert_text ca) = false.
  Hypothesis sender_good : is_bad (sender_ext enc_request) = false.
  (* MetaData.certs answers (key name, certificate text) pairs, in the order of the metadata *)
  Hypothesis certs_spec :
    certs_ext enc_request (sender_ext enc_request) = PList (map (fun ca => PList [PNone; cert_text ca]) certs).
  (* verify_redirect_signature on the published texts behaves as the model says (Section Verify proves this of its
     translation, for every representation of the certificate) *)
  Hypothesis vrs_spec : forall ca, In ca certs ->
    vres_of (vrs_ext msg backend (cert_text ca)) = verify_redirect_signature_c cert_of verify own q ca.

  Lemma vrsc_not_other ca : verify_redirect_signature_c cert_of verify own q ca <> VOther.
  Proof.
    destruct ca as [|c|]; cbn [verify_redirect_signature_c];
      unfold verify_redirect_signature, verify_redirect_signature_gen;
      repeat match goal with |- context [match ?x with _ => _ end] => destruct x end; discriminate.
  Qed.

  Theorem src2_do_redirect_sig_check_is_model :
    check_of (src2_do_redirect_sig_check sender_ext certs_ext vrs_ext enc_request msg)
    = Some (do_redirect_sig_check_c cert_of verify own certs q).
  Proof.
    unfold src2_do_redirect_sig_check. cbv zeta.
    rewrite (py_bind_good _ _ sender_good). rewrite (py_bind_good _ _ sender_good). rewrite certs_spec.
    rewrite (py_bind_good (PList _)) by reflexivity. rewrite p2_iter_check_list.
    rewrite (py_bind_good (PList _)) by reflexivity. rewrite py_iter2_list.
    match goal with |- context [pyfor2 _ _ ?b] => set (body := b) end.
    assert (L : forall cs, incl cs certs ->
              match do_redirect_sig_check_c cert_of verify own cs q with
              | Some true => pyfor2 (map (fun ca => PList [PNone; cert_text ca]) cs) [PBool false; PErr] body
                             = BrkS [PBool true; PErr]
              | Some false => pyfor2 (map (fun ca => PList [PNone; cert_text ca]) cs) [PBool false; PErr] body
                              = NextS [PBool false; PErr]
              | None => exists n, pyfor2 (map (fun ca => PList [PNone; cert_text ca]) cs) [PBool false; PErr] body
                                  = ExcS n [PBool false; PErr]
              end).
    { induction cs as [|ca r IH]; intros Hin; [reflexivity|].
      assert (Hr : incl r certs) by (intros x Hx; apply Hin; right; exact Hx).
      specialize (IH Hr). pose proof (vrs_spec ca (Hin ca (or_introl eq_refl))) as Hv.
      pose proof (vrsc_not_other ca) as Hno.
      assert (Hb : body [PBool false; PErr] (PList [PNone; cert_text ca]) =
                   match verify_redirect_signature_c cert_of verify own q ca with
                   | VTrue => BrkS [PBool true; PErr]
                   | VFalse | VNone | VValueError => NextS [PBool false; PErr]
                   | VKeyError => ExcS "KeyError" [PBool false; PErr]
                   | VUnsupported => ExcS "Unsupported" [PBool false; PErr]
                   | VOther => RetS PErr
                   end).
      { unfold body. rewrite p2_unpack_list by reflexivity.
        rewrite (py_bind_good _ _ msg_good).
        change (p2_attr (p2_attr enc_request "sec") "sec_backend") with backend.
        rewrite (py_bind_good _ _ backend_good), (py_bind_good _ _ (cert_text_good ca)).
        destruct (verify_redirect_signature_c cert_of verify own q ca) eqn:Em; try contradiction;
          destruct (vrs_ext msg backend (cert_text ca)) as [| [|] | | | | | n |] eqn:Ev; cbn [vres_of] in Hv; try discriminate;
          try (revert Hv; destruct (String.eqb n "KeyError") eqn:E1; [|destruct (String.eqb n "Unsupported") eqn:E2;
                 [|destruct (mem n value_errors) eqn:E3]]; intros Hv; try discriminate);
          cbn [p2_branch py_truthy]; try reflexivity.
        - apply String.eqb_eq in E1. subst n. reflexivity.
        - apply String.eqb_eq in E2. subst n. reflexivity.
        - assert (Hm : exc_matches n ["ValueError"; "Error"; "UnicodeDecodeError"; "UnicodeEncodeError"; "UnicodeError"] = true).
          { apply mem_In in E3. destruct E3 as [<-|[<-|[<-|[]]]]; reflexivity. }
          rewrite Hm. reflexivity. }
      cbn [map pyfor2 do_redirect_sig_check_c]. rewrite Hb.
      destruct (verify_redirect_signature_c cert_of verify own q ca); try contradiction; try exact IH; try reflexivity.
      - exists "KeyError". reflexivity.
      - exists "Unsupported". reflexivity. }
    specialize (L certs (incl_refl _)).
    destruct (do_redirect_sig_check_c cert_of verify own certs q) as [[|]|]; [rewrite L|rewrite L|destruct L as [n ->]]; reflexivity.
  Qed.
End Check.

Example check_hypotheses_satisfiable :
  forall (cert_of : nat -> nat) verify (own : nat) q (certs : list (certarg nat)),
  exists sender_ext certs_ext vrs_ext cert_text backend msg,
    is_bad backend = false /\ is_bad msg = false /\ (forall ca, is_bad (cert_text ca) = false)
    /\ is_bad (sender_ext (enc_request backend)) = false
    /\ certs_ext (enc_request backend) (sender_ext (enc_request backend))
       = PList (map (fun ca => PList [PNone; cert_text ca]) certs)
    /\ (forall ca, In ca certs ->
          vres_of (vrs_ext msg backend (cert_text ca)) = verify_redirect_signature_c cert_of verify own q ca).
Proof.
  intros cert_of verify own q certs.
  set (cert_text := fun ca : certarg nat => match ca with CAbsent => PNone | CCert c => PInt (Z.of_nat c) | CUnreadable => PStr "x" end).
  set (back := fun v => match v with PNone => CAbsent | PInt z => CCert (Z.to_nat z) | _ => CUnreadable end).
  set (enc_vres := fun r => match r with VTrue => PBool true | VFalse => PBool false | VNone => PNone
                                    | VKeyError => PExc "KeyError" | VUnsupported => PExc "Unsupported"
                                    | VValueError => PExc "ValueError" | VOther => PErr end).
  exists (fun _ => PStr "issuer"), (fun _ _ => PList (map (fun ca => PList [PNone; cert_text ca]) certs)),
         (fun _ _ v => enc_vres (verify_redirect_signature_c cert_of verify own q (back v))), cert_text, PNone, PNone.
  repeat split; try reflexivity; try (intros []; reflexivity).
  intros ca _. assert (E : back (cert_text ca) = ca) by (destruct ca as [|c|]; unfold back, cert_text; [reflexivity|rewrite Nat2Z.id; reflexivity|reflexivity]).
  rewrite E. destruct (verify_redirect_signature_c cert_of verify own q ca); reflexivity.
Qed.

(* ================================================================== pack.http_redirect_message, sign=True *)
Definition urlencode (l : query) : string := join "&" (map (fun kv => urlencode1 (fst kv) (snd kv)) l).

Lemma list_has_strs s l : list_has (PStr s) (map PStr l) = Some (mem s l).
Proof.
  induction l as [|x r IH]; [reflexivity|]. cbn [map list_has mem].
  change (pv_eq (PStr s) (PStr x)) with (Some (String.eqb s x)). destruct (String.eqb s x); [reflexivity|exact IH].
Qed.
Lemma list_has_none l : list_has PNone (map PStr l) = Some false.
Proof. induction l as [|x r IH]; [reflexivity|]. cbn [map list_has]. exact IH. Qed.

Section Sign.
  Context {key : Type}.
  Variable sign : key -> string -> string -> string.
  Variable enc_key : key -> pyval.
  Hypothesis enc_key_val : forall k, keyval (enc_key k).
  Variable deflate : string -> string.                 (* s_utils.deflate_and_base64_encode on str *)
  Variable add_query : string -> string -> string.     (* pack.add_query: belongs to C14 *)
  Variable urlencode_ext deflate_b64_ext encode_ascii_ext b64encode_ext : pyval -> pyval.
  Variable add_query_ext : pyval -> pyval -> pyval.
  Variable key_sign_ext : pyval -> pyval -> pyval -> pyval.
  Hypothesis urlencode_spec : forall l, urlencode_ext (enc_q l) = PStr (urlencode l).
  Hypothesis deflate_spec : forall m, deflate_b64_ext (PStr m) = PStr (deflate m).
  Hypothesis add_query_spec : forall loc s, add_query_ext (PStr loc) (PStr s) = PStr (add_query loc s).
  Hypothesis encode_ascii_spec : forall s,
    encode_ascii_ext (PStr s) = if all_chars Base64.is_ascii_char s then PStr s else PExc "UnicodeEncodeError".
  Hypothesis b64encode_spec : forall b, b64encode_ext (PStr b) = PStr (encode b).
  (* asymmetric.key_sign(key, octets, digest) *)
  Hypothesis key_sign_spec : forall k d m, key_sign_ext (enc_key k) (PStr m) (PStr d) = PStr (sign k d m).

  Definition enc_optstr (o : option string) : pyval := match o with Some s => PStr s | None => PNone end.
  (* the dict http_redirect_message returns, or the exception it raises; STypeError (SAMLart + sign: "for k in None")
     is a type error of the embedding and outside the theorem *)
  Definition enc_sres (loc : string) (r : sres) : pyval :=
    match r with
    | SArgs args => PObj [("headers", PList [PList [PStr "Location"; PStr (add_query loc (urlencode args))]]);
                          ("data", PList []); ("status", PInt 303)]
    | SExc => PExc "Exception"
    | _ => PErr
    end.

  Lemma urlencode1_spec k v : urlencode_ext (PObj [(k, PStr v)]) = PStr (urlencode1 k v).
  Proof. exact (urlencode_spec [(k, v)]). Qed.

  Notation src2_hrm := (src2_http_redirect_message signer_algs_py req_order_py resp_order_py sig_allowed_alg_py
                          urlencode_ext deflate_b64_ext add_query_ext encode_ascii_ext b64encode_ext key_sign_ext).

  Lemma not_in_allowed_some a :
    p2_not_in (PStr a) (PList (map PStr (map snd sig_allowed_alg))) = PBool (negb (allowed a)).
  Proof. unfold p2_not_in, p2_in. rewrite s2_good by reflexivity. rewrite list_has_strs. reflexivity. Qed.
  Lemma not_in_allowed_none : p2_not_in PNone (PList (map PStr (map snd sig_allowed_alg))) = PBool true.
  Proof. unfold p2_not_in, p2_in. rewrite s2_good by reflexivity. rewrite list_has_none. reflexivity. Qed.

  Lemma order_keys_ok : forallb dict_key_ok req_order = true /\ forallb dict_key_ok resp_order = true.
  Proof. rewrite req_order_eq, resp_order_eq. split; reflexivity. Qed.

  Ltac simp := cbn [p2_branch py_truthy py_bind p2_setitem s3 is_obj dict_key_ok set_assoc String.eqb Ascii.eqb Bool.eqb
                    negb p2_and p2_ifexp py_cond p2_str s1 p2_fconcat enc_optstr p2_not].

  (* everything after `args` is complete: allow-list test, signer, octets, Signature, URL *)
  Ltac hrm_some a k Hkb order_ok :=
    rewrite not_in_allowed_some; rewrite p2_branch_bool;
    destruct (allowed a); cbn [negb]; [|simp; reflexivity];
    simp; destruct (is_empty a); cbn [negb]; [simp; reflexivity|];
    rewrite (src2_get_signer_is_model (enc_key k) a PNone Hkb (or_introl eq_refl));
    destruct (digest_of a); [|simp; reflexivity];
    unfold or_key; cbn [py_truthy];
    rewrite (py_bind_good (enc_signer _ _)) by reflexivity;
    match goal with |- context [p2_not (enc_signer ?d ?kk)] => change (p2_not (enc_signer d kk)) with (PBool false) end;
    rewrite p2_branch_bool; simp;
    repeat match goal with
    | |- context [PObj [(?k1, PStr ?v1); (?k2, PStr ?v2); (?k3, PStr ?v3)]] =>
        change (PObj [(k1, PStr v1); (k2, PStr v2); (k3, PStr v3)]) with (enc_q [(k1, v1); (k2, v2); (k3, v3)])
    | |- context [PObj [(?k1, PStr ?v1); (?k2, PStr ?v2)]] =>
        change (PObj [(k1, PStr v1); (k2, PStr v2)]) with (enc_q [(k1, v1); (k2, v2)])
    end;
    rewrite (comp_octets urlencode_ext urlencode1_spec) by (exact order_ok || reflexivity);
    rewrite (py_bind_good (PStr _)) by reflexivity;
    rewrite encode_ascii_spec, octets_ascii;
    rewrite (py_bind_good (PStr _)) by reflexivity; rewrite (py_bind_good (PStr _)) by reflexivity;
    rewrite src2_signer_sign_is_model by (try reflexivity; exact Hkb);
    unfold or_key; cbn [py_truthy]; rewrite key_sign_spec;
    rewrite (py_bind_good (PStr _)) by reflexivity; rewrite b64encode_spec;
    rewrite (py_bind_good (PStr _)) by reflexivity;
    cbn [py_bind app];
    match goal with
    | |- context [urlencode_ext (PObj [(?k1, PStr ?v1); (?k2, PStr ?v2); (?k3, PStr ?v3); (?k4, PStr ?v4)])] =>
        change (PObj [(k1, PStr v1); (k2, PStr v2); (k3, PStr v3); (k4, PStr v4)])
          with (enc_q [(k1, v1); (k2, v2); (k3, v3); (k4, v4)])
    | |- context [urlencode_ext (PObj [(?k1, PStr ?v1); (?k2, PStr ?v2); (?k3, PStr ?v3)])] =>
        change (PObj [(k1, PStr v1); (k2, PStr v2); (k3, PStr v3)]) with (enc_q [(k1, v1); (k2, v2); (k3, v3)])
    end;
    rewrite urlencode_spec; cbn [py_bind]; rewrite add_query_spec; reflexivity.

  Ltac hrm_tail k Hkb order_ok :=
    match goal with |- context [p2_listcomp sig_allowed_alg_py ?c ?f] =>
      replace (p2_listcomp sig_allowed_alg_py c f) with (PList (map PStr (map snd sig_allowed_alg)))
        by (vm_compute; reflexivity) end;
    match goal with |- context [enc_optstr ?alg] => destruct alg as [a0|] end;
    [|cbn [enc_optstr]; rewrite not_in_allowed_none; reflexivity];
    cbn [enc_optstr];
    match goal with |- context [p2_not_in (PStr ?a) _] => hrm_some a k Hkb order_ok end.

  Theorem src2_http_redirect_message_is_model : forall k msg loc rs typ alg,
    String.eqb typ K_ART = false ->
    src2_hrm (PStr msg) (PStr loc) (PStr rs) (PStr typ) (enc_optstr alg) (PBool true) (enc_crypto (enc_key k))
    = enc_sres loc (http_redirect_message sign k typ (deflate msg) rs alg true).
  Proof.
    intros k msg loc rs typ alg Hart. destruct (enc_key_val k) as [Hkb Hkt].
    destruct order_keys_ok as [Oreq Oresp].
    unfold src2_http_redirect_message. cbv zeta.
    change (p2_isinstance (PStr msg) ["str"] []) with (PBool true). rewrite p2_not_bool, p2_branch_bool. cbn [negb].
    change (p2_mklist [PStr "SAMLRequest"; PStr "SAMLResponse"]) with (PList (map PStr ["SAMLRequest"; "SAMLResponse"])).
    unfold p2_in at 1. rewrite s2_good by reflexivity. rewrite list_has_strs. cbn [mem]. rewrite !p2_eq_str.
    unfold http_redirect_message, order_of_typ. rewrite Hart.
    destruct (String.eqb typ K_REQ) eqn:E1.
    - apply String.eqb_eq in E1. subst typ. cbn [orb]. rewrite !p2_branch_bool. unfold req_order_py.
      rewrite (py_bind_good (PList _)) by reflexivity. rewrite (py_bind_good (PStr msg)) by reflexivity.
      rewrite deflate_spec. simp. destruct (is_empty rs); cbn [negb]; simp.
      + hrm_tail k Hkb Oreq.
      + hrm_tail k Hkb Oreq.
    - destruct (String.eqb typ K_RESP) eqn:E2.
      + apply String.eqb_eq in E2. subst typ. cbn [orb]. rewrite !p2_branch_bool. unfold resp_order_py.
        rewrite (py_bind_good (PList _)) by reflexivity. rewrite (py_bind_good (PStr msg)) by reflexivity.
        rewrite deflate_spec. simp. destruct (is_empty rs); cbn [negb]; simp.
        * hrm_tail k Hkb Oresp.
        * hrm_tail k Hkb Oresp.
      + cbn [orb]. rewrite !p2_branch_bool. simp. reflexivity.
  Qed.
End Sign.

Example sign_hypotheses_satisfiable : forall (sign : nat -> string -> string -> string) (deflate : string -> string)
    (add_query : string -> string -> string),
  exists (enc_key : nat -> pyval) (urlencode_ext deflate_b64_ext encode_ascii_ext b64encode_ext : pyval -> pyval)
         (add_query_ext : pyval -> pyval -> pyval) (key_sign_ext : pyval -> pyval -> pyval -> pyval),
    (forall k, keyval (enc_key k))
    /\ (forall l, urlencode_ext (enc_q l) = PStr (urlencode l))
    /\ (forall m, deflate_b64_ext (PStr m) = PStr (deflate m))
    /\ (forall loc s, add_query_ext (PStr loc) (PStr s) = PStr (add_query loc s))
    /\ (forall s, encode_ascii_ext (PStr s) = if all_chars Base64.is_ascii_char s then PStr s else PExc "UnicodeEncodeError")
    /\ (forall b, b64encode_ext (PStr b) = PStr (encode b))
    /\ (forall k d m, key_sign_ext (enc_key k) (PStr m) (PStr d) = PStr (sign k d m)).
Proof.
  intros sign deflate add_query.
  exists (fun k => PObj [("__class__", PStr "RSAPrivateKey"); ("n", PInt (Z.of_nat k))]),
         (fun v => match v with
                   | PObj f => PStr (urlencode (map (fun kv => (fst kv, match snd kv with PStr s => s | _ => EmptyString end)) f))
                   | _ => PErr end),
         (fun v => match v with PStr m => PStr (deflate m) | _ => PErr end),
         (fun v => match v with PStr s => if all_chars Base64.is_ascii_char s then PStr s else PExc "UnicodeEncodeError" | _ => PErr end),
         (fun v => match v with PStr b => PStr (encode b) | _ => PErr end),
         (fun a b => match a, b with PStr l, PStr s => PStr (add_query l s) | _, _ => PErr end),
         (fun k m d => match k, m, d with
                       | PObj [_; (_, PInt n)], PStr m', PStr d' => PStr (sign (Z.to_nat n) d' m')
                       | _, _, _ => PErr end).
  repeat split; try reflexivity.
  - intros l. unfold enc_q, qfields. rewrite map_map. cbn [fst snd]. f_equal. f_equal.
    induction l as [|[k v] r IH]; [reflexivity|]. cbn [map fst snd]. rewrite IH. reflexivity.
  - intros k d m. cbn. rewrite Nat2Z.id. reflexivity.
Qed.

(* ================================================================== the receiving entry points (strengthening round 6)
   Server.parse_authn_request and Entity.parse_logout_request - what the web layer calls with the SAMLRequest,
   RelayState, SigAlg and Signature values it RECEIVED - and Request.loads are pass-throughs: every value goes on to
   Entity._parse_request / Request._loads exactly as it was handed over, for ANY callee.  (The value that is verified
   must be the value that was received: a 'repair' of the base64 text, a second decoding, trimmed white space at an
   entry point makes the URL with the changed value verify.  Entity._parse_request between them is not translated;
   its hand-over is exercised by the correspondence cases `stack-reencode` / `stack-presence`.) *)
Section EntryPoints.
  Variable parse_request_ext : pyval -> pyval -> pyval -> pyval -> pyval -> pyval -> pyval -> pyval -> pyval.
  Variable loads_ext : pyval -> pyval -> pyval -> pyval -> pyval -> pyval -> pyval -> pyval -> pyval -> pyval.

  Theorem src2_parse_authn_request_hands_over : forall self enc binding rs sigalg sg,
    is_bad enc = false -> is_bad binding = false -> is_bad rs = false -> is_bad sigalg = false -> is_bad sg = false ->
    src2_parse_authn_request parse_request_ext self enc binding rs sigalg sg
    = parse_request_ext self enc (PStr "class AuthnRequest") (PStr "single_sign_on_service") binding rs sigalg sg.
  Proof.
    intros self enc binding rs sigalg sg H1 H2 H3 H4 H5. unfold src2_parse_authn_request.
    rewrite (py_bind_good enc) by exact H1. rewrite (py_bind_good binding) by exact H2.
    rewrite (py_bind_good rs) by exact H3. rewrite (py_bind_good sigalg) by exact H4.
    rewrite (py_bind_good sg) by exact H5. reflexivity.
  Qed.

  Theorem src2_parse_logout_request_hands_over : forall self enc binding rs sigalg sg,
    is_bad enc = false -> is_bad binding = false -> is_bad rs = false -> is_bad sigalg = false -> is_bad sg = false ->
    src2_parse_logout_request parse_request_ext self enc binding rs sigalg sg
    = parse_request_ext self enc (PStr "class LogoutRequest") (PStr "single_logout_service") binding rs sigalg sg.
  Proof.
    intros self enc binding rs sigalg sg H1 H2 H3 H4 H5. unfold src2_parse_logout_request.
    rewrite (py_bind_good enc) by exact H1. rewrite (py_bind_good binding) by exact H2.
    rewrite (py_bind_good rs) by exact H3. rewrite (py_bind_good sigalg) by exact H4.
    rewrite (py_bind_good sg) by exact H5. reflexivity.
  Qed.

  Theorem src2_request_loads_hands_over : forall self xmldata binding origdoc must ovc rs sigalg sg,
    is_bad xmldata = false -> is_bad binding = false -> is_bad origdoc = false -> is_bad must = false ->
    is_bad ovc = false -> is_bad rs = false -> is_bad sigalg = false -> is_bad sg = false ->
    src2_request_loads loads_ext self xmldata binding origdoc must ovc rs sigalg sg
    = loads_ext self xmldata binding origdoc must ovc rs sigalg sg.
  Proof.
    intros self xmldata binding origdoc must ovc rs sigalg sg H1 H2 H3 H4 H5 H6 H7 H8. unfold src2_request_loads.
    rewrite (py_bind_good xmldata) by exact H1. rewrite (py_bind_good binding) by exact H2.
    rewrite (py_bind_good origdoc) by exact H3. rewrite (py_bind_good must) by exact H4.
    rewrite (py_bind_good ovc) by exact H5. rewrite (py_bind_good rs) by exact H6.
    rewrite (py_bind_good sigalg) by exact H7. rewrite (py_bind_good sg) by exact H8. reflexivity.
  Qed.
End EntryPoints.

(* ================================================================== Entity._parse_request (strengthening round 6)
   The function between the entry points and Request.loads, translated from the current source text (gen/C15Src2p.v).
   For ALL configuration look-ups, request constructors, unravel functions and request objects - nothing is assumed
   about any of them - and all arguments: either an exception (or a poisoned value) leaves the function, or its result
   is what it makes (pr_tail: None when the request does not verify, else the request) of the answer of
       _request.loads(<some xmlstr>, binding, origdoc=enc_request, must=.., only_valid_cert=..,
                      relay_state=relay_state, sigalg=sigalg, signature=signature)
   with the FOUR RECEIVED VALUES enc_request, relay_state, sigalg, signature AS THEY WERE HANDED OVER - on every path
   (receiver addresses found at once or in the loop over aa / aq / pdp, any accepted_time_diff, any form of
   want_authn_requests_only_with_valid_cert).  A hand-over of `relay_state or None`, of a value decoded once more,
   repaired or trimmed breaks this theorem (seeds C15-7, C15-a and their neighbourhood). *)
Section ParseRequest.
  Variable endpoint_ext : pyval -> pyval -> pyval -> pyval -> pyval.
  Variable mkreq_ext : pyval -> pyval -> pyval -> pyval -> pyval -> pyval.
  Variable unravel_ext : pyval -> pyval -> pyval -> pyval -> pyval.
  Variable cfg_getattr_ext : pyval -> pyval -> pyval -> pyval.
  Variable loads_ext : pyval -> pyval -> pyval -> pyval -> pyval -> pyval -> pyval -> pyval -> pyval -> pyval.
  Variable verify_ext : pyval -> pyval.
  Variables enc binding rs sigalg sg : pyval.

  (* what _parse_request does with the answer of _request.loads(...) *)
  Definition pr_tail (r : pyval) : pyval :=
    let k := fun (_ : unit) =>
      match p2_branch (p2_not r) with BTrue => PNone | BFalse => r | BExc n => PExc n | BErr => PErr end in
    match p2_branch r with
    | BTrue => match p2_branch (p2_not (verify_ext r)) with
               | BTrue => PNone | BFalse => k tt | BExc n => PExc n | BErr => PErr end
    | BFalse => k tt
    | BExc n => PExc n
    | BErr => PErr
    end.

  Definition handed_over (r : pyval) : Prop :=
    is_bad r = true
    \/ exists rq xml must ovc, r = pr_tail (loads_ext rq xml binding enc must ovc rs sigalg sg).

  Lemma ho_bad r : is_bad r = true -> handed_over r.
  Proof. intros H. left. exact H. Qed.

  Lemma ho_bind e k : (forall v, handed_over (k v)) -> handed_over (py_bind e k).
  Proof. intros H. destruct e; cbn [py_bind]; try apply H; apply ho_bad; reflexivity. Qed.

  Lemma ho_bindh h e k : (forall n, handed_over (h n)) -> (forall v, handed_over (k v)) -> handed_over (py_bindh h e k).
  Proof. intros Hh H. destruct e; cbn [py_bindh p2_bind]; try apply H; try apply Hh; apply ho_bad; reflexivity. Qed.

  Lemma ho_branch c a b : handed_over a -> handed_over b ->
    handed_over (match p2_branch c with BTrue => a | BFalse => b | BExc n => PExc n | BErr => PErr end).
  Proof. intros Ha Hb. destruct (p2_branch c); try assumption; apply ho_bad; reflexivity. Qed.

  Lemma ho_branch_h c a b (h : string -> pyval) : handed_over a -> handed_over b -> (forall n, handed_over (h n)) ->
    handed_over (match p2_branch c with BTrue => a | BFalse => b | BExc n => h n | BErr => PErr end).
  Proof. intros Ha Hb Hh. destruct (p2_branch c); try assumption; [apply Hh|apply ho_bad; reflexivity]. Qed.

  Lemma ho_let {A : Type} (P : A -> Prop) (v : A) (b : A -> pyval) :
    P v -> (forall k, P k -> handed_over (b k)) -> handed_over (let k := v in b k).
  Proof. intros Hv H. cbv zeta. apply H. exact Hv. Qed.

  (* a loop whose body returns (RetS) poisoned values only *)
  Lemma pyfor2_rets body : (forall st x r, body st x = RetS r -> is_bad r = true) ->
    forall xs st r, pyfor2 xs st body = RetS r -> is_bad r = true.
  Proof.
    intros Hb xs. induction xs as [|x t IH]; intros st r; cbn [pyfor2]; [discriminate|].
    destruct (body st x) eqn:E; try discriminate; [apply IH|]. intros H. injection H as <-. exact (Hb _ _ _ E).
  Qed.

  Lemma bind_cases e k : (is_bad e = true /\ py_bind e k = e) \/ (is_bad e = false /\ py_bind e k = k e).
  Proof. destruct e; cbn; auto. Qed.

  Lemma ho_loads e k :
    (is_bad e = true \/ exists rq xml must ovc, e = loads_ext rq xml binding enc must ovc rs sigalg sg) ->
    (forall r, k r = pr_tail r) -> handed_over (py_bind e k).
  Proof.
    intros He Hk. destruct (bind_cases e k) as [[Hb ->]|[Hg ->]]; [left; exact Hb|].
    destruct He as [Hb|[rq [xml [must [ovc ->]]]]]; [congruence|].
    right. exists rq, xml, must, ovc. apply Hk.
  Qed.

  Variables self request_cls service : pyval.

  Ltac chain :=
    repeat (cbv beta; lazymatch goal with
            | |- is_bad (py_bind ?e ?k) = true \/ _ =>
                destruct (bind_cases e k) as [[?Hb ->]|[?Hg ->]]; [left; assumption|]
            end);
    cbv beta; right; do 4 eexists; reflexivity.

  Ltac step :=
    cbv beta;
    lazymatch goal with
    | |- handed_over (let k := ?v in @?b k) =>
        let T := type of v in
        lazymatch T with
        | pyval -> pyval => apply (ho_let (fun k : pyval -> pyval => forall x, handed_over (k x)) v b); [intros ?x|intros ?k ?Hk]
        | unit -> pyval => apply (ho_let (fun k : unit -> pyval => handed_over (k tt)) v b); [|intros ?k ?Hk]
        | string -> pyval -> pyval =>
            apply (ho_let (fun k : string -> pyval -> pyval => forall n x, handed_over (k n x)) v b); [intros ?n ?x|intros ?k ?Hk]
        | pyval => apply (ho_let (fun _ : pyval => True) v b); [exact I|intros ?x _]
        end
    | |- handed_over (py_bind ?e ?k) =>
        lazymatch e with
        | context [loads_ext] => apply ho_loads; [chain|intros ?r; reflexivity]
        | _ => apply ho_bind; intros ?v
        end
    | |- handed_over (py_bindh _ _ _) => apply ho_bindh; [intros ?n|intros ?v]
    | |- handed_over (match p2_branch _ with _ => _ end) => first [apply ho_branch|apply ho_branch_h; [| |intros ?n]]
    | |- handed_over (match pyfor2 ?xs ?st0 ?body with _ => _ end) =>
        let E := fresh "E" in
        assert (Hbody : forall s1 x1 r1, body s1 x1 = RetS r1 -> is_bad r1 = true);
        [ intros [|?a [|?b ?t]] ?x ?r; cbv beta zeta; try (intros H; injection H as <-; reflexivity);
          match goal with |- py_bindS _ ?e _ = _ -> _ => destruct e end; cbn [py_bindS p2_bind];
          try discriminate; try (intros H; injection H as <-; reflexivity);
          match goal with |- match p2_branch ?c with _ => _ end = _ -> _ => destruct (p2_branch c) end;
          try discriminate; intros H; injection H as <-; reflexivity
        | destruct (pyfor2 xs st0 body) as [[|?a [|?b ?t]]|[|?a [|?b ?t]]|?r|?n [|?a [|?b ?t]]] eqn:E;
          try (apply ho_bad; reflexivity); try (apply ho_bad; exact (pyfor2_rets _ Hbody _ _ _ E)) ]
    | |- handed_over (if exc_matches ?n ?l then _ else _) => destruct (exc_matches n l)
    | |- handed_over (PExc _) => apply ho_bad; reflexivity
    | |- handed_over PErr => apply ho_bad; reflexivity
    | H : forall x, handed_over (?k x) |- handed_over (?k _) => apply H
    | H : forall n x, handed_over (?k n x) |- handed_over (?k _ _) => apply H
    | H : handed_over (?k tt) |- handed_over (?k tt) => exact H
    end.

  Theorem src2_parse_request_hands_over :
    handed_over (src2_parse_request endpoint_ext mkreq_ext unravel_ext cfg_getattr_ext loads_ext verify_ext
                                    self enc request_cls service binding rs sigalg sg).
  Proof.
    cbv beta delta [src2_parse_request].
    repeat step.
  Qed.
End ParseRequest.

(* non-vacuity: with externals that answer, the function reaches _request.loads and returns its answer; an "echo"
   callee shows the four received values as they arrive there *)
Definition ex_self : pyval :=
  PObj [("__class__", PStr "Server"); ("entity_type", PStr "idp"); ("sec", PStr "sec");
        ("config", PObj [("__class__", PStr "IdPConfig"); ("accepted_time_diff", PInt 60); ("attribute_converters", PList [])])].
Definition ex_cls : pyval := PObj [("__class__", PStr "type"); ("msgtype", PStr "request")].
Definition echo (rq xml b o m ovc r a s : pyval) : pyval := PList [o; r; a; s].

Example parse_request_reaches_loads :
  src2_parse_request (fun _ _ _ t => match t with PStr "aq" => PList [PStr "https://idp.example.org/sso"] | _ => PList [] end)
                     (fun _ _ _ _ _ => PStr "request object") (fun _ _ _ _ => PStr "<xml/>")
                     (fun _ n _ => match n with PStr "want_authn_requests_signed" => PBool true | _ => PStr " Yes " end)
                     echo (fun _ => PBool true)
                     ex_self (PStr "fZ+J/A==") ex_cls (PStr "single_sign_on_service") (PStr "redirect")
                     (PStr " a+b%2B ") PNone (PStr "")
  = PList [PStr "fZ+J/A=="; PStr " a+b%2B "; PNone; PStr ""].
Proof. vm_compute. reflexivity. Qed.
