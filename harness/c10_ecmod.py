"""A deployment-defined entity-category module for the C10 correspondence (Policy.compile imports
entity-category modules by name: `importlib.import_module(cat)`).  It exercises what the bundled
modules do not: tuple keys together with ONLY_REQUIRED, and NO_AGGREGATION categories."""

A = "http://ec.example.org/a"
B = "http://ec.example.org/b"
C = "http://ec.example.org/c"
N = "http://ec.example.org/no-aggregation"

RELEASE = {
    "": ["uid"],
    A: ["mail", "givenName"],
    (A, B): ["sn", "title"],
    C: ["eduPersonPrincipalName", "displayName", "mail"],
    N: ["eduPersonScopedAffiliation", "mail"],
    (N, C): ["o", "cn"],
    B: ["Foo"],
}

ONLY_REQUIRED = {C: True, (N, C): True}

NO_AGGREGATION = {N: True, (N, C): True}
