"""Source-to-Gallina translator, second generation (fail-closed).  Operations: coq/theories/Base/Py2.v.

translate(path, qualname, spec) reads the CURRENT source text, finds the function (or method) by name and
turns its body into a Gallina definition over the value universe `pyval` of coq/theories/Base/Py.v.  Every
AST node outside the supported subset raises Untranslatable; regenerate() then writes a poisoned
definition (PErr-valued), so every theorem about it stops checking.  v1 (harness/py2coq.py) is untouched.

What v2 adds over v1 (reference: notes/translator_v2.md)
  * exceptions propagate: every operation is strict in PExc/PErr, statements are sequenced with py_bind,
    conditions are tested once with p2_branch (py_cond of the work order, branches kept lazy);
  * try / except / else by handler passing (no finally); exception classes are matched BY NAME through
    spec["exc_parents"] (merged over the built-in hierarchy below); PErr is never caught;
  * state: every assigned name is pre-bound to PErr; the rest of a block after a compound statement is
    bound once (`let k_3 := fun v_a v_b => ...`) when it is reached from more than one place; loops carry
    the names their body assigns in a list (pyfor2 / NextS / BrkS / RetS / ExcS);
  * mutation through methods / item and attribute assignment = rebinding of the receiver NAME;
  * many more expressions (see the reference).

spec: {"name": Coq name, "params": [python parameter names in order, *args / **kwargs included],
       "extra_params": [(coq name, coq type)], "calls": {"dotted.name": lambda args[, kwargs]: "coq term"},
       "globals": {"NAME": "coq term"}, "ignore_calls": [...], "classes": {"ClassName": ["ClassName", "Sub"]},
       "exc_parents": {"Mine": ["Exception"]}, "attr_errors": bool, "returns_state": ["self"],
       "lenient_raise_args": bool}

TRUSTED BASE (not modelled, see the reference): aliasing of mutable values (two names for one list or
dict; a mutation is seen only through the name it was made through), set iteration order, Unicode case
mapping and non-ASCII whitespace, the int/float distinction (no floats), laziness of generators (they
are consumed eagerly, inside any()/all() with the right short-circuit), the list/tuple distinction,
arguments of ignored (logging) calls are not evaluated, exception ARGUMENTS are evaluated but dropped
(an exception is its class name), exception values bound by `as e` can only be re-raised.
"""
import ast
import inspect
import string as _string
import textwrap


class Untranslatable(Exception):
    pass


# built-in exception hierarchy (name -> proper ancestors below BaseException); spec["exc_parents"] is merged over it
DEFAULT_EXC_PARENTS = {
    "Exception": [],
    "ArithmeticError": ["Exception"], "ZeroDivisionError": ["ArithmeticError", "Exception"],
    "OverflowError": ["ArithmeticError", "Exception"],
    "AssertionError": ["Exception"], "AttributeError": ["Exception"],
    "LookupError": ["Exception"], "KeyError": ["LookupError", "Exception"], "IndexError": ["LookupError", "Exception"],
    "NameError": ["Exception"], "UnboundLocalError": ["NameError", "Exception"],
    "OSError": ["Exception"], "IOError": ["OSError", "Exception"],
    "RuntimeError": ["Exception"], "NotImplementedError": ["RuntimeError", "Exception"],
    "StopIteration": ["Exception"], "TypeError": ["Exception"],
    "ValueError": ["Exception"], "UnicodeError": ["ValueError", "Exception"],
    "UnicodeDecodeError": ["UnicodeError", "ValueError", "Exception"],
    "UnicodeEncodeError": ["UnicodeError", "ValueError", "Exception"],
}
CATCH_ALL = ("Exception", "BaseException")
KINDS = {"str": "str", "int": "int", "bool": "bool", "list": "list", "tuple": "tuple", "dict": "dict"}


def _dotted(node):
    if isinstance(node, ast.Name):
        return node.id
    if isinstance(node, ast.Attribute):
        b = _dotted(node.value)
        return None if b is None else b + "." + node.attr
    return None


def cstr(s):
    """Coq string literal of the UTF-8 bytes of s."""
    b = s.encode("utf-8")
    if all(0x20 <= c <= 0x7E for c in b):
        return '"' + b.decode("ascii").replace('"', '""') + '"'
    return "(sb [" + ";".join(str(c) for c in b) + "]%N)"


def ident(name):
    if not (name.isascii() and name.isidentifier()):
        raise Untranslatable("identifier %r" % name)
    return "v_" + name


def clist(terms):
    return "[" + "; ".join(terms) + "]"


CONST_PREFIXES = ("PNone", "(PBool ", "(PInt ", "(PStr ")


def is_const(term):
    return term == "PNone" or term in ("(PList [])", "(PObj [])") or \
        (term.startswith(CONST_PREFIXES) and term.count("(") == term.count(")") and "v_" not in term and "a_" not in term)


def _names_in_target(t):
    """Python names (re)bound by an assignment target / a mutated place."""
    if isinstance(t, ast.Name):
        return [t.id]
    if isinstance(t, (ast.Tuple, ast.List)):
        out = []
        for x in t.elts:
            out += _names_in_target(x)
        return out
    if isinstance(t, ast.Attribute):
        return _names_in_target(t.value) if isinstance(t.value, ast.Name) else []
    if isinstance(t, ast.Subscript):
        return _names_in_target(t.value)
    return []


MUTATORS = ("append", "extend", "update", "pop", "setdefault")


def _mutating_call(v):
    """x.append(..) / x.attr.append(..) -> the receiver node, else None."""
    if isinstance(v, ast.Call) and isinstance(v.func, ast.Attribute) and v.func.attr in MUTATORS:
        r = v.func.value
        if isinstance(r, ast.Name) or (isinstance(r, ast.Attribute) and isinstance(r.value, ast.Name)):
            return r
    return None


def _setattr_call(v):
    """setattr(x, name, value) with x a plain name -> the name node, else None."""
    if isinstance(v, ast.Call) and isinstance(v.func, ast.Name) and v.func.id == "setattr" and len(v.args) == 3 \
            and not v.keywords and isinstance(v.args[0], ast.Name):
        return v.args[0]
    return None


class Ctx:
    """Where a statement is translated: mode 'fun' (the block's value is the function result) or 'loop'
    (it is a ctl2); handler: Coq term of an exception name -> Coq term to continue with."""

    def __init__(self, mode, handler, top, loop_state=None, cur_exc=None):
        self.mode, self.handler, self.top, self.loop_state, self.cur_exc = mode, handler, top, loop_state, cur_exc

    def with_(self, **kw):
        c = Ctx(self.mode, self.handler, self.top, self.loop_state, self.cur_exc)
        for k, v in kw.items():
            setattr(c, k, v)
        return c

    @property
    def err(self):
        return "PErr" if self.mode == "fun" else "(RetS PErr)"


class Tr:
    def __init__(self, spec, fn=None):
        self.spec = spec
        self.calls = spec.get("calls", {})
        self.globals = spec.get("globals", {})
        self.classes = spec.get("classes", {})
        self.ignore = set(spec.get("ignore_calls", ["logger.debug", "logger.info", "logger.warning", "logger.error",
                                                    "logger.exception", "logger.critical"]))
        self.attr_errors = bool(spec.get("attr_errors", False))
        self.state = list(spec.get("returns_state", []))
        self.exc_parents = dict(DEFAULT_EXC_PARENTS)
        self.exc_parents.update(spec.get("exc_parents", {}))
        self.n = 0
        self.scope = set()          # python names that are local (parameters, assigned names)
        self.comp_scope = []        # comprehension variables in force
        self.exc_bound = []         # names bound by `except ... as e` in force (only `raise e` may use them)
        self.exc_bound_vars = []    # (python name, Coq variable holding the exception name)
        self.fn = fn
        self.dead = set()

    def names(self, stmts):
        """assigned(stmts) without the loop variables that are never mentioned outside their loop body: those
        are bound by the loop's own function and need neither a slot in a carried state nor a pre-binding."""
        return [n for n in assigned(stmts) if n not in self.dead]

    def fresh(self, prefix):
        self.n += 1
        return "%s_%d" % (prefix, self.n)

    # ------------------------------------------------------------------ expressions
    def e(self, node):
        if isinstance(node, ast.Name):
            if node.id in self.exc_bound:
                raise Untranslatable("use of the exception value %s (only `raise %s` is modelled)" % (node.id, node.id))
            if node.id in self.comp_scope or node.id in self.scope:
                return ident(node.id)
            if node.id in self.globals:
                return self.globals[node.id]
            if node.id in self.calls and not callable(self.calls[node.id]):
                return self.calls[node.id]
            raise Untranslatable("global name %s (give it in spec['globals'])" % node.id)
        if isinstance(node, ast.Constant):
            return self.const(node.value)
        if isinstance(node, (ast.List, ast.Tuple)):
            if any(isinstance(x, ast.Starred) for x in node.elts):
                raise Untranslatable("starred element")
            if not node.elts:
                return "(PList [])"
            return "(p2_mklist %s)" % clist([self.e(x) for x in node.elts])
        if isinstance(node, ast.Set):
            return "(p2_mkset %s)" % clist([self.e(x) for x in node.elts])
        if isinstance(node, ast.Dict):
            return self.dict_display(node)
        if isinstance(node, ast.Attribute):
            d = _dotted(node)
            if d in self.calls and not callable(self.calls[d]):
                return self.calls[d]
            if d in self.globals:
                return self.globals[d]
            return self.attr(self.e(node.value), node.attr)
        if isinstance(node, ast.BoolOp):
            op = "p2_or" if isinstance(node.op, ast.Or) else "p2_and"
            vals = [self.e(v) for v in node.values]
            out = vals[-1]
            for v in reversed(vals[:-1]):
                out = "(%s %s %s)" % (op, v, out)
            return out
        if isinstance(node, ast.UnaryOp):
            if isinstance(node.op, ast.Not):
                return "(p2_not %s)" % self.e(node.operand)
            if isinstance(node.op, ast.USub):
                if isinstance(node.operand, ast.Constant) and type(node.operand.value) is int:
                    return self.const(-node.operand.value)
                return "(p2_neg %s)" % self.e(node.operand)
            raise Untranslatable("unary operator %s" % type(node.op).__name__)
        if isinstance(node, ast.BinOp):
            return self.binop(node.op, self.e(node.left), self.e(node.right))
        if isinstance(node, ast.IfExp):
            return "(p2_ifexp %s %s %s)" % (self.e(node.test), self.e(node.body), self.e(node.orelse))
        if isinstance(node, ast.Compare):
            return self.compare(node)
        if isinstance(node, ast.JoinedStr):
            parts = []
            for v in node.values:
                if isinstance(v, ast.Constant) and isinstance(v.value, str):
                    parts.append("PStr %s" % cstr(v.value))
                elif isinstance(v, ast.FormattedValue) and v.conversion in (-1, 115) and v.format_spec is None:
                    parts.append("p2_str %s" % self.e(v.value))
                else:
                    raise Untranslatable("f-string part with a conversion or a format spec")
            return "(p2_fconcat %s)" % clist(parts)
        if isinstance(node, ast.Call):
            return self.call(node)
        if isinstance(node, ast.Subscript):
            if isinstance(node.slice, ast.Slice):
                sl = node.slice
                if sl.step is not None:
                    raise Untranslatable("slice with a step")
                return "(p2_slice %s %s %s)" % (self.e(node.value), "PNone" if sl.lower is None else self.e(sl.lower),
                                                "PNone" if sl.upper is None else self.e(sl.upper))
            return "(p2_getitem %s %s)" % (self.e(node.value), self.e(node.slice))
        if isinstance(node, ast.ListComp):
            return self.comprehension("p2_listcomp", node.generators, [node.elt])
        if isinstance(node, ast.DictComp):
            return self.comprehension("p2_dictcomp", node.generators, [node.key, node.value])
        raise Untranslatable("expression %s" % type(node).__name__)

    def const(self, v):
        if v is None:
            return "PNone"
        if isinstance(v, bool):
            return "(PBool %s)" % ("true" if v else "false")
        if isinstance(v, int):
            return "(PInt (%d)%%Z)" % v
        if isinstance(v, str):
            return "(PStr %s)" % cstr(v)
        raise Untranslatable("constant %r" % (v,))

    def attr(self, recv, name):
        if name.startswith("__"):
            raise Untranslatable("attribute %s" % name)
        return "(%s %s %s)" % ("p2_attr_x" if self.attr_errors else "p2_attr", recv, cstr(name))

    def binop(self, op, l, r):
        if "%" in self.calls and isinstance(op, ast.Mod):
            return self.strict_call(self.calls["%"], [l, r])
        table = {ast.Add: "p2_add", ast.Sub: "p2_sub", ast.Mult: "p2_mul"}
        for k, f in table.items():
            if isinstance(op, k):
                return "(%s %s %s)" % (f, l, r)
        raise Untranslatable("binary operator %s" % type(op).__name__)

    def dict_display(self, node):
        if not node.keys:
            return "(PObj [])"
        if any(k is None for k in node.keys):
            raise Untranslatable("** in a dict display")
        ks = [k.value if isinstance(k, ast.Constant) and isinstance(k.value, str) else None for k in node.keys]
        if all(k is not None and k != "__class__" for k in ks) and len(set(ks)) == len(ks):
            return "(p2_mkdict %s)" % clist(["(%s, %s)" % (cstr(k), self.e(v)) for k, v in zip(ks, node.values)])
        out = "(PObj [])"
        for k, v in zip(node.keys, node.values):
            out = "(p2_setitem %s %s %s)" % (out, self.e(k), self.e(v))
        return out

    def compare1(self, op, l, r, rnode):
        """One comparison on Coq terms l, r."""
        if isinstance(op, (ast.Is, ast.IsNot)):
            if not (isinstance(rnode, ast.Constant) and (rnode.value is None or isinstance(rnode.value, bool))):
                raise Untranslatable("`is` with something other than None / True / False")
            if rnode.value is None:
                return "(%s %s)" % ("p2_is_none" if isinstance(op, ast.Is) else "p2_is_not_none", l)
            t = "(p2_is_bool %s %s)" % ("true" if rnode.value else "false", l)
            return t if isinstance(op, ast.Is) else "(p2_not %s)" % t
        table = {ast.Eq: "p2_eq", ast.NotEq: "p2_ne", ast.Gt: "p2_gt", ast.Lt: "p2_lt", ast.GtE: "p2_ge",
                 ast.LtE: "p2_le", ast.In: "p2_in", ast.NotIn: "p2_not_in"}
        for k, f in table.items():
            if isinstance(op, k):
                return "(%s %s %s)" % (f, l, r)
        raise Untranslatable("comparison operator %s" % type(op).__name__)

    def compare(self, node):
        if len(node.ops) == 1:
            r = node.comparators[0]
            rt = "PNone" if isinstance(node.ops[0], (ast.Is, ast.IsNot)) else self.e(r)
            return self.compare1(node.ops[0], self.e(node.left), rt, r)
        # a < b < c: operands are evaluated once, left to right, and only as far as needed
        operands = [node.left] + list(node.comparators)
        if any(isinstance(o, (ast.Is, ast.IsNot)) for o in node.ops):
            raise Untranslatable("`is` in a chained comparison")
        names = [self.fresh("a") for _ in operands]

        def chain(i):
            # names[i] is bound; compare it with operand i+1
            test = self.compare1(node.ops[i], names[i], names[i + 1], operands[i + 1])
            if i + 2 == len(operands):
                inner = test
            else:
                inner = "(p2_and %s %s)" % (test, chain(i + 1))
            return "(py_bind %s (fun %s => %s))" % (self.e(operands[i + 1]), names[i + 1], inner)
        return "(py_bind %s (fun %s => %s))" % (self.e(operands[0]), names[0], chain(0))

    def lam(self, target, body_of):
        """(fun x => body) for a comprehension target: a name or a flat tuple of names."""
        if isinstance(target, ast.Name):
            self.comp_scope.append(target.id)
            try:
                return "(fun %s => %s)" % (ident(target.id), body_of())
            finally:
                self.comp_scope.pop()
        if isinstance(target, (ast.Tuple, ast.List)) and all(isinstance(x, ast.Name) for x in target.elts):
            names = [x.id for x in target.elts]
            x = self.fresh("x")
            self.comp_scope.extend(names)
            try:
                return "(fun %s => match p2_unpack %d %s with PList %s => %s | PExc n_ => PExc n_ | _ => PErr end)" % (
                    x, len(names), x, clist([ident(n) for n in names]), body_of())
            finally:
                del self.comp_scope[-len(names):]
        raise Untranslatable("comprehension target")

    def comprehension(self, fname, generators, elts):
        if len(generators) != 1:
            raise Untranslatable("comprehension with several `for`")
        g = generators[0]
        if g.is_async:
            raise Untranslatable("async comprehension")
        it = self.e(g.iter)
        if g.ifs:
            def cond_body():
                ts = [self.e(c) for c in g.ifs]
                out = ts[-1]
                for t in reversed(ts[:-1]):
                    out = "(p2_and %s %s)" % (t, out)
                return out
            cond = self.lam(g.target, cond_body)
        else:
            cond = "ktrue"
        fs = [self.lam(g.target, (lambda x=x: self.e(x))) for x in elts]
        return "(%s %s %s %s)" % (fname, it, cond, " ".join(fs))

    def iterable_arg(self, a):
        """Argument of list()/set()/sorted()/join(): a generator expression is consumed completely, so it
        is the list comprehension."""
        if isinstance(a, ast.GeneratorExp):
            return self.comprehension("p2_listcomp", a.generators, [a.elt])
        return self.e(a)

    def strict_call(self, build, arg_terms, kw_terms=None):
        """External callable: arguments evaluated left to right, the first PExc/PErr is the result."""
        names, wraps = [], []
        for t in arg_terms:
            if is_const(t):
                names.append(t)
            else:
                a = self.fresh("a")
                names.append(a)
                wraps.append((t, a))
        kws = {}
        for k, t in (kw_terms or {}).items():
            if is_const(t):
                kws[k] = t
            else:
                a = self.fresh("a")
                kws[k] = a
                wraps.append((t, a))
        out = build(names, kws) if kw_terms is not None else build(names)
        for t, a in reversed(wraps):
            out = "(py_bind %s (fun %s => %s))" % (t, a, out)
        return out

    def call(self, node):
        d = _dotted(node.func)
        if any(isinstance(a, ast.Starred) for a in node.args) or any(k.arg is None for k in node.keywords):
            raise Untranslatable("* / ** in a call")
        if d is not None and d in self.calls:
            f = self.calls[d]
            if not callable(f):
                if node.args or node.keywords:
                    raise Untranslatable("call of the constant %s" % d)
                return f
            two = len(inspect.signature(f).parameters) >= 2
            if node.keywords and not two:
                raise Untranslatable("keyword arguments in a call of %s" % d)
            args = [self.e(a) for a in node.args]
            if two:
                return self.strict_call(f, args, {k.arg: self.e(k.value) for k in node.keywords})
            return self.strict_call(f, args)
        if node.keywords:
            raise Untranslatable("keyword arguments (allowed only for spec['calls'])")
        if isinstance(node.func, ast.Name) and node.func.id not in self.scope and node.func.id not in self.comp_scope:
            return self.builtin(node.func.id, node.args)
        if isinstance(node.func, ast.Attribute):
            return self.method(node.func.value, node.func.attr, node.args)
        raise Untranslatable("call of %s" % (d or ast.dump(node.func)[:60]))

    def builtin(self, name, args):
        n = len(args)
        one = {"len": "p2_len", "str": "p2_str", "int": "p2_int", "bool": "p2_bool"}
        if name in one and n == 1:
            return "(%s %s)" % (one[name], self.e(args[0]))
        if name == "str" and n == 0:
            return '(PStr "")'
        if name in ("list", "tuple", "set", "sorted") and n == 1:
            f = {"list": "p2_list", "tuple": "p2_list", "set": "p2_set", "sorted": "p2_sorted"}[name]
            return "(%s %s)" % (f, self.iterable_arg(args[0]))
        if name in ("list", "tuple", "set") and n == 0:
            return "(PList [])"
        if name == "dict" and n == 0:
            return "(PObj [])"
        if name == "dict" and n == 1:
            return "(p2_dict_copy %s)" % self.e(args[0])
        if name in ("any", "all") and n == 1:
            a = args[0]
            if isinstance(a, ast.GeneratorExp):
                return self.comprehension("p2_" + name, a.generators, [a.elt])
            return "(p2_%s %s ktrue kid)" % (name, self.e(a))
        if name == "isinstance" and n == 2:
            return self.isinstance_(self.e(args[0]), args[1])
        if name == "getattr" and n in (2, 3) and not isinstance(args[1], ast.Constant):
            if n == 2:
                return "(p2_getattr_dyn %s %s %s)" % ("true" if self.attr_errors else "false", self.e(args[0]), self.e(args[1]))
            return "(p2_getattr3_dyn %s %s %s)" % (self.e(args[0]), self.e(args[1]), self.e(args[2]))
        if name == "hasattr" and n == 2 and not isinstance(args[1], ast.Constant):
            return "(p2_hasattr_dyn %s %s)" % (self.e(args[0]), self.e(args[1]))
        if name in ("hasattr", "getattr") and n >= 2:
            if not (isinstance(args[1], ast.Constant) and isinstance(args[1].value, str)) or args[1].value.startswith("__"):
                raise Untranslatable("%s with a computed or special attribute name" % name)
            a = cstr(args[1].value)
            if name == "hasattr" and n == 2:
                return "(p2_hasattr %s %s)" % (self.e(args[0]), a)
            if name == "getattr" and n == 2:
                return self.attr(self.e(args[0]), args[1].value)
            if name == "getattr" and n == 3:
                return "(p2_getattr3 %s %s %s)" % (self.e(args[0]), a, self.e(args[2]))
        raise Untranslatable("call of %s with %d argument(s)" % (name, n))

    def isinstance_(self, x, tnode):
        ts = list(tnode.elts) if isinstance(tnode, ast.Tuple) else [tnode]
        kinds, classes = [], []
        for t in ts:
            d = _dotted(t)
            if d is None:
                raise Untranslatable("isinstance with a computed class")
            if d in KINDS and d not in self.scope:
                kinds.append(KINDS[d])
            elif d in self.classes or d.split(".")[-1] in self.classes:
                classes += list(self.classes.get(d, self.classes.get(d.split(".")[-1])))
            else:
                raise Untranslatable("isinstance with class %s (give it in spec['classes'])" % d)
        return "(p2_isinstance %s %s %s)" % (x, clist([cstr(k) for k in kinds]), clist([cstr(c) for c in classes]))

    def method(self, recv_node, m, args):
        n = len(args)
        if m in MUTATORS:
            raise Untranslatable("mutating call .%s() inside an expression" % m)
        if m == "format":
            return self.format_(recv_node, args)
        if m == "join" and n == 1:
            return "(p2_join %s %s)" % (self.e(recv_node), self.iterable_arg(args[0]))
        recv = self.e(recv_node)
        a = [self.e(x) for x in args]
        zero = {"lower": "p2_lower", "upper": "p2_upper", "strip": "p2_strip", "lstrip": "p2_lstrip",
                "rstrip": "p2_rstrip", "split": "p2_split_ws", "keys": "p2_keys", "values": "p2_values",
                "items": "p2_items", "copy": "p2_copy"}
        one = {"strip": "p2_strip_chars", "lstrip": "p2_lstrip_chars", "rstrip": "p2_rstrip_chars",
               "split": "p2_split", "find": "p2_find", "startswith": "p2_startswith", "endswith": "p2_endswith",
               "partition": "p2_partition", "get": "p2_get"}
        two = {"replace": "p2_replace", "get": "p2_get3"}
        for k, table in ((0, zero), (1, one), (2, two)):
            if n == k and m in table:
                return "(%s)" % " ".join([table[m], recv] + a)
        raise Untranslatable("method .%s() with %d argument(s)" % (m, n))

    def format_(self, recv_node, args):
        if not (isinstance(recv_node, ast.Constant) and isinstance(recv_node.value, str)):
            raise Untranslatable("format() on a computed str")
        terms = [self.e(x) for x in args]
        names = [t if is_const(t) else self.fresh("a") for t in terms]
        parts, auto = [], 0
        try:
            fields = list(_string.Formatter().parse(recv_node.value))
        except ValueError as ex:
            raise Untranslatable("format string: %s" % ex)
        for lit, field, fspec, conv in fields:
            if lit:
                parts.append("PStr %s" % cstr(lit))
            if field is None:
                continue
            if fspec or conv not in (None, "s"):
                raise Untranslatable("format field with a spec or a conversion")
            if field == "":
                i, auto = auto, auto + 1
            elif field.isdigit():
                i = int(field)
            else:
                raise Untranslatable("named format field")
            if i >= len(names):
                raise Untranslatable("format field without an argument")
            parts.append("p2_str %s" % names[i])
        out = "(p2_fconcat %s)" % clist(parts)
        for t, a in reversed(list(zip(terms, names))):     # every argument is evaluated, used or not
            if t != a:
                out = "(py_bind %s (fun %s => %s))" % (t, a, out)
        return out

    # ------------------------------------------------------------------ statements: helpers
    def final(self, t):
        """The function result for the (good or exception) value t."""
        return t if not self.state else "(PList %s)" % clist([t] + [ident(s) for s in self.state])

    def retv(self, ctx, t):
        return self.final(t) if ctx.mode == "fun" else "(RetS %s)" % self.final(t)

    def hfun(self, ctx):
        n = self.fresh("n")
        return "(fun %s => %s)" % (n, ctx.handler(n))

    def bind(self, ctx, e, var, body):
        """var := e; body -- an exception value of e goes to the handler in force, PErr ends the function."""
        if is_const(e):
            return "(let %s := %s in\n %s)" % (var, e, body)
        if ctx.top:
            return "(py_bind %s (fun %s =>\n %s))" % (e, var, body)
        return "(%s %s %s (fun %s =>\n %s))" % ("py_bindh" if ctx.mode == "fun" else "py_bindS", self.hfun(ctx), e, var, body)

    def cond(self, ctx, c, a, b):
        n = self.fresh("n")
        return "(match p2_branch %s with\n | BTrue => %s\n | BFalse => %s\n | BExc %s => %s\n | BErr => %s\n end)" % (
            c, a, b, n, ctx.handler(n), ctx.err)

    def unpack(self, ctx, t, names, body):
        n = self.fresh("n")
        return "(match p2_unpack %d %s with\n | PList %s => %s\n | PExc %s => %s\n | _ => %s\n end)" % (
            len(names), t, clist([ident(x) for x in names]), body, n, ctx.handler(n), ctx.err)

    def with_after(self, rest, k, ctx, names, build):
        """build(after) translates a compound statement, `after` standing at its fall-through points.  The
        rest of the block is translated ONCE: inline when it is reached from at most one place, otherwise
        bound as a continuation whose arguments are the names the compound statement may have rebound."""
        if not rest:
            return build(k)
        rest_t = self.block(rest, k, ctx)
        self.n += 1
        mark = "\x00K%d\x00" % self.n
        body = build(mark)
        if body.count(mark) <= 1 or (len(rest_t) <= 40 and "\n" not in rest_t):
            return body.replace(mark, rest_t)
        kname = "k_%d" % self.n
        params = [ident(x) for x in names]
        if params:
            fun, call = "fun %s" % " ".join(params), "(%s %s)" % (kname, " ".join(params))
        else:
            fun, call = "fun (_ : unit)", "(%s tt)" % kname
        return "(let %s := %s =>\n %s in\n %s)" % (kname, fun, textwrap.indent(rest_t, " "), body.replace(mark, call))

    def local(self, name):
        if name not in self.scope:
            raise Untranslatable("assignment through the non-local name %s" % name)
        return ident(name)

    def place(self, node):
        """A mutable place: a local name or name.attr."""
        if isinstance(node, ast.Name):
            return ("name", node.id, None)
        if isinstance(node, ast.Attribute) and isinstance(node.value, ast.Name):
            if node.attr.startswith("__"):
                raise Untranslatable("attribute %s" % node.attr)
            return ("attr", node.value.id, node.attr)
        raise Untranslatable("receiver of a mutation is neither a name nor name.attr")

    def write_place(self, ctx, node, newval_of, cont):
        """place := newval_of(current value of the place); cont() -- as a rebinding of the base NAME."""
        kind, base, attr = self.place(node)
        v = self.local(base)
        if base in self.exc_bound:
            raise Untranslatable("mutation of an exception value")
        if kind == "name":
            return self.bind(ctx, newval_of(v), v, cont())
        return self.bind(ctx, "(p2_setattr %s %s %s)" % (v, cstr(attr), newval_of(self.attr(v, attr))), v, cont())

    def tmp(self, ctx, term, cont):
        """Evaluate term once: cont(name or constant)."""
        if is_const(term):
            return cont(term)
        a = self.fresh("a")
        return self.bind(ctx, term, a, cont(a))

    def mutate(self, ctx, call, result_var, cont):
        """x.append(y) and friends as statements (or `v = d.pop(k)`): rebinding of the receiver name."""
        m, recv, args = call.func.attr, call.func.value, call.args
        if call.keywords or any(isinstance(a, ast.Starred) for a in args):
            raise Untranslatable("keyword / starred arguments of .%s()" % m)
        n = len(args)
        if m in ("append", "extend", "update") and n == 1:
            if result_var is not None:
                raise Untranslatable("value of .%s()" % m)
            arg = self.iterable_arg(args[0]) if m == "extend" else self.e(args[0])
            return self.write_place(ctx, recv, lambda cur: "(p2_%s %s %s)" % (m, cur, arg), cont)
        if m == "pop" and n in (1, 2):
            def after_key(kt):
                kind, base, attr = self.place(recv)
                cur = self.local(base) if kind == "name" else self.attr(self.local(base), attr)
                val = "(p2_pop_val1 %s %s)" % (cur, kt) if n == 1 else "(p2_pop_val %s %s %s)" % (cur, kt, self.e(args[1]))
                return self.bind(ctx, val, result_var or "_", self.write_place(
                    ctx, recv, lambda c: "(p2_pop_rest %s %s)" % (c, kt), cont))
            return self.tmp(ctx, self.e(args[0]), after_key)
        if m == "setdefault" and n in (1, 2):
            def after_kd(kt, dt):
                kind, base, attr = self.place(recv)
                cur = self.local(base) if kind == "name" else self.attr(self.local(base), attr)
                return self.bind(ctx, "(p2_setdefault_val %s %s %s)" % (cur, kt, dt), result_var or "_", self.write_place(
                    ctx, recv, lambda c: "(p2_setdefault_dict %s %s %s)" % (c, kt, dt), cont))
            return self.tmp(ctx, self.e(args[0]), lambda kt: self.tmp(
                ctx, self.e(args[1]) if n == 2 else "PNone", lambda dt: after_kd(kt, dt)))
        raise Untranslatable("mutating call .%s() with %d argument(s)" % (m, n))

    def assign_one(self, ctx, t, val, cont):
        """target t := val (a name bound to a good value, or a constant); cont()."""
        if isinstance(t, ast.Name):
            return "(let %s := %s in\n %s)" % (self.local(t.id), val, cont())
        if isinstance(t, (ast.Tuple, ast.List)):
            if not all(isinstance(x, ast.Name) for x in t.elts):
                raise Untranslatable("nested / starred assignment target")
            return self.unpack(ctx, val, [self.local(x.id)[2:] for x in t.elts], cont())
        if isinstance(t, ast.Attribute):
            kind, base, attr = self.place(t)
            v = self.local(base)
            return self.bind(ctx, "(p2_setattr %s %s %s)" % (v, cstr(attr), val), v, cont())
        if isinstance(t, ast.Subscript):
            if isinstance(t.slice, (ast.Slice, ast.Tuple)):
                raise Untranslatable("slice assignment")
            return self.tmp(ctx, self.e(t.slice), lambda kt: self.write_place(
                ctx, t.value, lambda cur: "(p2_setitem %s %s %s)" % (cur, kt, val), cont))
        raise Untranslatable("assignment target %s" % type(t).__name__)

    def assign_all(self, ctx, targets, val, cont):
        if not targets:
            return cont()
        return self.assign_one(ctx, targets[0], val, lambda: self.assign_all(ctx, targets[1:], val, cont))

    def own_mutation(self, v):
        """The receiver when v is a container mutation that the spec does not claim as an external call."""
        r = _mutating_call(v)
        if r is not None and _dotted(v.func) not in self.calls and _dotted(v.func) not in self.ignore:
            return r
        return None

    # ------------------------------------------------------------------ statements
    def block(self, stmts, k, ctx):
        """k: (small) Coq term for 'the block fell through its end'."""
        if not stmts:
            return k
        s, rest = stmts[0], stmts[1:]

        def go():
            return self.block(rest, k, ctx)
        if isinstance(s, ast.Expr):
            v = s.value
            if isinstance(v, ast.Constant) and isinstance(v.value, str):
                return go()                                # docstring
            if isinstance(v, ast.Call) and _dotted(v.func) in self.ignore:
                return go()                                # logging: no effect on the result (arguments not evaluated)
            if isinstance(v, ast.Call) and self.own_mutation(v) is not None:
                return self.mutate(ctx, v, None, go)
            if _setattr_call(v) is not None and "setattr" not in self.calls:
                # setattr(x, name, value): value semantics, the NAME x is rebound
                return self.tmp(ctx, self.e(v.args[1]), lambda nt: self.tmp(ctx, self.e(v.args[2]), lambda vt: self.write_place(
                    ctx, v.args[0], lambda cur: "(p2_setattr_dyn %s %s %s)" % (cur, nt, vt), go)))
            if isinstance(v, ast.Call):
                return self.bind(ctx, self.e(v), "_", go())
            raise Untranslatable("expression statement")
        if isinstance(s, ast.Pass):
            return go()
        if isinstance(s, ast.Return):
            v = "PNone" if s.value is None else self.e(s.value)
            if is_const(v) or ctx.top:
                return self.retv(ctx, v)                   # top level without state: an exception value IS the result
            r = self.fresh("r")
            return self.bind(ctx, v, r, self.retv(ctx, r))
        if isinstance(s, ast.Raise):
            return self.raise_(s, ctx)
        if isinstance(s, ast.Break):
            if ctx.mode != "loop":
                raise Untranslatable("break outside a loop")
            return "(BrkS %s)" % ctx.loop_state
        if isinstance(s, ast.Continue):
            if ctx.mode != "loop":
                raise Untranslatable("continue outside a loop")
            return "(NextS %s)" % ctx.loop_state
        if isinstance(s, ast.Assert):
            return self.cond(ctx, self.e(s.test), go(), ctx.handler(cstr("AssertionError")))
        if isinstance(s, ast.Assign) or (isinstance(s, ast.AnnAssign) and s.value is not None):
            targets = s.targets if isinstance(s, ast.Assign) else [s.target]
            v = s.value
            if isinstance(v, ast.Call) and self.own_mutation(v) is not None:
                a = self.fresh("a")
                return self.mutate(ctx, v, a, lambda: self.assign_all(ctx, targets, a, go))
            vt = self.e(v)
            if len(targets) == 1 and isinstance(targets[0], ast.Name):
                return self.bind(ctx, vt, self.local(targets[0].id), go())
            return self.tmp(ctx, vt, lambda a: self.assign_all(ctx, targets, a, go))
        if isinstance(s, ast.AnnAssign):
            return go()
        if isinstance(s, ast.AugAssign):
            t = s.target
            val = self.e(s.value)
            if isinstance(t, ast.Name):
                if t.id in self.exc_bound:
                    raise Untranslatable("use of an exception value")
                return self.bind(ctx, self.binop(s.op, self.local(t.id), val), self.local(t.id), go())
            if isinstance(t, ast.Attribute):
                return self.write_place(ctx, t, lambda cur: self.binop(s.op, cur, val), go)
            if isinstance(t, ast.Subscript) and not isinstance(t.slice, (ast.Slice, ast.Tuple)):
                return self.tmp(ctx, self.e(t.slice), lambda kt: self.write_place(
                    ctx, t.value, lambda cur: "(p2_setitem %s %s %s)" % (
                        cur, kt, self.binop(s.op, "(p2_getitem %s %s)" % (cur, kt), val)), go))
            raise Untranslatable("augmented assignment target")
        if isinstance(s, ast.Delete):
            def dels(ts):
                if not ts:
                    return go()
                t = ts[0]
                if isinstance(t, ast.Name):
                    return "(let %s := PErr in\n %s)" % (self.local(t.id), dels(ts[1:]))
                if isinstance(t, ast.Subscript) and not isinstance(t.slice, (ast.Slice, ast.Tuple)):
                    return self.tmp(ctx, self.e(t.slice), lambda kt: self.write_place(
                        ctx, t.value, lambda cur: "(p2_delitem %s %s)" % (cur, kt), lambda: dels(ts[1:])))
                raise Untranslatable("del target")
            return dels(s.targets)
        if isinstance(s, ast.If):
            return self.with_after(rest, k, ctx, self.names([s]), lambda after: self.cond(
                ctx, self.e(s.test), self.block(s.body, after, ctx), self.block(s.orelse, after, ctx)))
        if isinstance(s, ast.For):
            return self.with_after(rest, k, ctx, self.names([s]), lambda after: self.for_(s, after, ctx))
        if isinstance(s, ast.While):
            return self.with_after(rest, k, ctx, self.names([s]), lambda after: self.while_(s, after, ctx))
        if isinstance(s, ast.Try):
            return self.with_after(rest, k, ctx, self.names([s]), lambda after: self.try_(s, after, ctx))
        raise Untranslatable("statement %s" % type(s).__name__)

    def raise_(self, s, ctx):
        if s.cause is not None and not isinstance(s.cause, (ast.Name, ast.Constant)):
            raise Untranslatable("raise ... from a computed cause")
        exc = s.exc
        if exc is None:
            if ctx.cur_exc is None:
                raise Untranslatable("bare raise outside a handler")
            return ctx.handler(ctx.cur_exc)
        if isinstance(exc, ast.Name):
            for name, nvar in reversed(self.exc_bound_vars):
                if name == exc.id:
                    return ctx.handler(nvar)
        d = _dotted(exc.func) if isinstance(exc, ast.Call) else _dotted(exc)
        if d is None or d.split(".")[0] in self.scope:
            raise Untranslatable("raise of a computed exception")
        out = ctx.handler(cstr(d.split(".")[-1]))
        if isinstance(exc, ast.Call):
            if any(isinstance(a, ast.Starred) for a in exc.args) or any(kw.arg is None for kw in exc.keywords):
                raise Untranslatable("* / ** in a raise")
            # the arguments are evaluated (they may raise themselves), the values are dropped
            for a in reversed(list(exc.args) + [kw.value for kw in exc.keywords]):
                try:
                    t = self.e(a)
                except Untranslatable:
                    if self.spec.get("lenient_raise_args"):
                        continue
                    raise
                if not is_const(t):
                    out = self.bind(ctx, t, "_", out)
        return out

    def catches(self, tnode):
        """except clause type -> None (everything) or the list of class names it catches."""
        if tnode is None:
            return None
        ts = list(tnode.elts) if isinstance(tnode, ast.Tuple) else [tnode]
        names = []
        for t in ts:
            d = _dotted(t)
            if d is None:
                raise Untranslatable("computed exception class in except")
            names.append(d.split(".")[-1])
        if any(n in CATCH_ALL for n in names):
            return None
        out = list(dict.fromkeys(names))
        for m in sorted(self.exc_parents):
            if m not in out and set(self.exc_parents[m]) & set(names):
                out.append(m)
        return out

    def try_(self, s, after, ctx):
        import re
        if s.finalbody:
            raise Untranslatable("try ... finally")
        if not s.handlers:
            raise Untranslatable("try without except")
        self.n += 1
        num = self.n
        nvar = "n_%d" % num
        state = [ident(x) for x in self.names(s.body)]          # the names whose value at the raise point counts
        # the handlers: a chain of tests on the exception name, ending in the handler that was in force outside
        disp = ctx.handler(nvar)
        ctxh = ctx.with_(cur_exc=nvar)
        for h in reversed(s.handlers):
            names = self.catches(h.type)
            if h.name:
                self.exc_bound.append(h.name)
                self.exc_bound_vars.append((h.name, nvar))
                try:
                    body = "(let %s := PExc %s in\n %s)" % (self.local(h.name), nvar, self.block(
                        h.body, "(let %s := PErr in %s)" % (ident(h.name), after), ctxh))
                finally:
                    self.exc_bound.pop()
                    self.exc_bound_vars.pop()
            else:
                body = self.block(h.body, after, ctxh)
            if names is None:
                disp = body
            else:
                disp = "(if exc_matches %s %s\n then %s\n else %s)" % (nvar, clist([cstr(x) for x in names]), body, disp)
        ctx2 = ctx.with_(handler=lambda n: "\x00H%d<%s>\x00" % (num, n), top=False)
        # else-block and what follows continue the try body, outside the reach of its handlers
        body = self.with_after(s.orelse, after, ctx, self.names(s.body), lambda a2: self.block(s.body, a2, ctx2))
        pat = re.compile("\x00H%d<(.*?)>\x00" % num)
        uses = pat.findall(body)
        if len(uses) <= 1:
            return pat.sub(lambda m: re.sub(r"\b%s\b" % nvar, lambda _: m.group(1), disp), body)
        hname = "h_%d" % num
        call = lambda m: "(%s)" % " ".join([hname, m.group(1)] + state)
        return "(let %s := fun %s =>\n %s in\n %s)" % (hname, " ".join([nvar] + state), textwrap.indent(disp, " "), pat.sub(call, body))

    def for_(self, s, after, ctx):
        t = s.target
        if isinstance(t, ast.Name):
            targets = [t.id]
        elif isinstance(t, (ast.Tuple, ast.List)) and all(isinstance(x, ast.Name) for x in t.elts):
            targets = [x.id for x in t.elts]
        else:
            raise Untranslatable("for target")
        for x in targets:
            self.local(x)
        # Python iterates the LIVE container (RuntimeError for a dict that changes size, shifted elements for a
        # list); the embedding iterates a snapshot, so a body that mutates the iterated container is refused
        it_node = s.iter
        if isinstance(it_node, ast.Call) and isinstance(it_node.func, ast.Attribute) and not it_node.args \
                and it_node.func.attr in ("keys", "values", "items"):
            it_node = it_node.func.value
        key = _place_key(it_node)
        if key is not None and key in _mutated_places(s.body):
            raise Untranslatable("the loop body mutates the container it iterates (%s)" % ".".join(key))
        body_names = self.names(s.body)
        names = [x for x in targets if x not in body_names and self.used_outside(x, s)] + body_names
        S = clist([ident(x) for x in names])
        it, st, x, r, n = (self.fresh(p) for p in ("it", "st", "x", "r", "n"))
        ctxb = Ctx("loop", lambda nn: "(ExcS %s %s)" % (nn, S), False, loop_state=S, cur_exc=ctx.cur_exc)
        body = self.block(s.body, "(NextS %s)" % S, ctxb)
        if isinstance(t, ast.Name):
            body = "(let %s := %s in\n %s)" % (ident(t.id), x, body)
        else:
            body = self.unpack(ctxb, x, targets, body)
        els = self.block(s.orelse, after, ctx)
        has_break = any(isinstance(b, ast.Break) for b in _own_loop_nodes(s.body))
        brk = "BrkS %s => match %s with %s => %s | _ => %s end" % (st, st, S, after, ctx.err) if has_break else "BrkS _ => %s" % ctx.err
        loop = ("(match pyfor2 (py_iter2 %s) %s (fun %s %s => match %s with %s =>\n %s\n | _ => RetS PErr end) with\n"
                " | NextS %s => match %s with %s => %s | _ => %s end\n | %s\n | RetS %s => %s\n"
                " | ExcS %s %s => match %s with %s => %s | _ => %s end\n end)") % (
            it, S, st, x, st, S, textwrap.indent(body, " "),
            st, st, S, els, ctx.err, brk, r, r if ctx.mode == "fun" else "(RetS %s)" % r,
            n, st, st, S, ctx.handler(n), ctx.err)
        return self.bind(ctx, "(p2_iter_check %s)" % self.e(s.iter), it, loop)

    def while_(self, s, after, ctx):
        """`while test: body [else: orelse]` by recursion on explicit fuel (Base/Py2.v: pywhile2).  The function's
        spec must declare the extra parameter ("fuel", "nat"): fuel is not a Python value, it bounds the number of
        iterations the embedding follows; when it runs out the result is PErr (never a normal-looking answer), so a
        theorem about the translation has to quantify over fuel that suffices ("forall fuel, measure < fuel -> ...")."""
        if ("fuel", "nat") not in [tuple(x) for x in self.spec.get("extra_params", [])]:
            raise Untranslatable("while loop: the spec must declare extra_params [('fuel', 'nat')]")
        names = self.names(s.body)
        S = clist([ident(x) for x in names])
        st, r, n = (self.fresh(p) for p in ("st", "r", "n"))
        ctxb = Ctx("loop", lambda nn: "(ExcS %s %s)" % (nn, S), False, loop_state=S, cur_exc=ctx.cur_exc)
        body = self.block(s.body, "(NextS %s)" % S, ctxb)
        test = self.e(s.test)
        els = self.block(s.orelse, after, ctx)
        has_break = any(isinstance(b, ast.Break) for b in _own_loop_nodes(s.body))
        brk = "BrkS %s => match %s with %s => %s | _ => %s end" % (st, st, S, after, ctx.err) if has_break else "BrkS _ => %s" % ctx.err
        return ("(match pywhile2 fuel %s (fun %s => match %s with %s => %s | _ => PErr end)\n"
                " (fun %s => match %s with %s =>\n %s\n | _ => RetS PErr end) with\n"
                " | NextS %s => match %s with %s => %s | _ => %s end\n | %s\n | RetS %s => %s\n"
                " | ExcS %s %s => match %s with %s => %s | _ => %s end\n end)") % (
            S, st, st, S, test,
            st, st, S, textwrap.indent(body, " "),
            st, st, S, els, ctx.err, brk, r, r if ctx.mode == "fun" else "(RetS %s)" % r,
            n, st, st, S, ctx.handler(n), ctx.err)

    def used_outside(self, name, loop):
        """Is the loop variable mentioned anywhere outside the loop body (then it is part of the carried state)?"""
        if self.fn is None:
            return True
        inside = sum(1 for b in loop.body for x in ast.walk(b) if isinstance(x, ast.Name) and x.id == name)
        total = sum(1 for x in ast.walk(self.fn) if isinstance(x, ast.Name) and x.id == name)
        own = sum(1 for x in ast.walk(loop.target) if isinstance(x, ast.Name) and x.id == name)
        return total - inside - own > 0


def _place_key(node):
    if isinstance(node, ast.Name):
        return (node.id,)
    if isinstance(node, ast.Attribute) and isinstance(node.value, ast.Name):
        return (node.value.id, node.attr)
    return None


def _mutated_places(stmts):
    """Places (name,) / (name, attr) whose CONTAINER is changed in place by the statements (not mere rebinding)."""
    out = set()
    for top in stmts:
        for x in ast.walk(top):
            if isinstance(x, ast.Call) and (_mutating_call(x) is not None):
                out.add(_place_key(x.func.value))
            targets = []
            if isinstance(x, ast.Assign):
                targets = x.targets
            elif isinstance(x, (ast.AugAssign, ast.AnnAssign)):
                targets = [x.target]
            elif isinstance(x, ast.Delete):
                targets = x.targets
            for t in targets:
                for u in (t.elts if isinstance(t, (ast.Tuple, ast.List)) else [t]):
                    if isinstance(u, ast.Subscript):
                        out.add(_place_key(u.value))
                    elif isinstance(x, ast.AugAssign) and _place_key(u) is not None:
                        out.add(_place_key(u))       # xs += [..] extends a list in place
    out.discard(None)
    return out


def _own_loop_nodes(stmts):
    """Statements of a loop body that belong to THIS loop (not to a nested loop)."""
    for s in stmts:
        yield s
        if isinstance(s, (ast.For, ast.While)):
            yield from _own_loop_nodes(s.orelse)
            continue
        for f in ("body", "orelse", "finalbody"):
            yield from _own_loop_nodes(getattr(s, f, []) or [])
        for h in getattr(s, "handlers", []) or []:
            yield from _own_loop_nodes(h.body)


def assigned(stmts):
    """Python names (re)bound by the statements, in order of first occurrence (comprehension variables excluded)."""
    out = []

    def add(names):
        for n in names:
            if n not in out:
                out.append(n)

    def walk(s):
        if isinstance(s, ast.Assign):
            for t in s.targets:
                add(_names_in_target(t))
            r = _mutating_call(s.value)
            if r is not None:
                add(_names_in_target(r))
        elif isinstance(s, (ast.AugAssign, ast.AnnAssign)):
            add(_names_in_target(s.target))
        elif isinstance(s, ast.Delete):
            for t in s.targets:
                add(_names_in_target(t))
        elif isinstance(s, ast.Expr):
            r = _mutating_call(s.value) or _setattr_call(s.value)
            if r is not None:
                add(_names_in_target(r))
        elif isinstance(s, (ast.For, ast.While)):
            if isinstance(s, ast.For):
                add(_names_in_target(s.target))
            for b in s.body + s.orelse:
                walk(b)
        elif isinstance(s, ast.If):
            for b in s.body + s.orelse:
                walk(b)
        elif isinstance(s, ast.Try):
            for b in s.body:
                walk(b)
            for h in s.handlers:
                if h.name:
                    add([h.name])
                for b in h.body:
                    walk(b)
            for b in s.orelse + s.finalbody:
                walk(b)
        elif isinstance(s, ast.With):
            for b in s.body:
                walk(b)
    for s in stmts:
        walk(s)
    return out


def dead_loop_variables(tr, fn, params):
    """Names bound ONLY as `for` targets and never mentioned outside the body of their loop(s)."""
    loops = [x for x in ast.walk(fn) if isinstance(x, ast.For)]
    targets = {}
    for lp in loops:
        for n in _names_in_target(lp.target):
            targets.setdefault(n, []).append(lp)

    class NoFor(ast.NodeTransformer):
        def visit_For(self, node):
            self.generic_visit(node)
            node.target = ast.Name(id="_", ctx=ast.Store())
            return node
    import copy as _copy
    other = set(assigned(NoFor().visit(_copy.deepcopy(fn)).body)) | set(params)
    return {n for n, lps in targets.items() if n not in other and not any(tr.used_outside(n, lp) for lp in lps)}


# ---------------------------------------------------------------------- module level
def find_function(tree, qualname):
    parts = qualname.split(".")
    body = tree.body
    node = None
    for p in parts:
        node = next((n for n in body if isinstance(n, (ast.FunctionDef, ast.ClassDef)) and n.name == p), None)
        if node is None:
            raise Untranslatable("%s not found" % qualname)
        body = node.body
    if not isinstance(node, ast.FunctionDef):
        raise Untranslatable("%s is not a function" % qualname)
    return node


def signature(spec):
    extra = "".join(" (%s : %s)" % (n, t) for n, t in spec.get("extra_params", []))
    return extra + "".join(" (%s : pyval)" % ident(n) for n in spec["params"])


def translate_def(fn, spec, origin=""):
    """ast.FunctionDef -> Gallina definition text."""
    a = fn.args
    names = [x.arg for x in a.posonlyargs + a.args] + ([a.vararg.arg] if a.vararg else []) + \
            [x.arg for x in a.kwonlyargs] + ([a.kwarg.arg] if a.kwarg else [])
    if names != list(spec["params"]):
        raise Untranslatable("parameters of %s are %s, expected %s" % (fn.name, names, spec["params"]))
    for x in spec.get("returns_state", []):
        if x not in names:
            raise Untranslatable("returns_state names %s, which is not a parameter" % x)
    tr = Tr(spec, fn)
    tr.scope = set(names) | set(assigned(fn.body))
    tr.dead = dead_loop_variables(tr, fn, names)
    locals_ = [n for n in tr.names(fn.body) if n not in names]
    handler = lambda n: tr.final("(PExc %s)" % n)      # with returns_state: the state at the raise point
    ctx = Ctx("fun", handler, top=not tr.state)
    body = tr.block(fn.body, tr.final("PNone"), ctx)
    if "\x00" in body:
        raise Untranslatable("internal: unresolved continuation mark")
    pre = "".join("let %s := PErr in\n" % ident(n) for n in locals_)
    return "(* %s, lines %d-%d *)\nDefinition %s%s : pyval :=\n%s.\n" % (
        origin or fn.name, fn.lineno, fn.end_lineno, spec["name"], signature(spec), textwrap.indent(pre + body, "  "))


def translate(path, qualname, spec):
    with open(path) as f:
        src = f.read()
    fn = find_function(ast.parse(src), qualname)
    return translate_def(fn, spec, "%s:%s" % (path.split("/src/")[-1], qualname))


HEADER = """(* GENERATED on every run by harness/py2coq2.py from the current source text of /repo/src/saml2 — do not edit. *)
From Coq Require Import String Ascii List Bool ZArith.
From Verif Require Import Base.Str Base.Py Base.Py2.
Import ListNotations.
Open Scope string_scope.

"""


def write_module(path, items):
    """items: [(source path, qualname, spec)] -> Coq file content."""
    return HEADER + "\n".join(translate(p, q, s) for p, q, s in items)


def poison(qualname, spec, why):
    """A definition with the right signature and the wrong value: every theorem about it fails to check."""
    extra = "".join(" (%s : %s)" % (n, t) for n, t in spec.get("extra_params", []))
    params = "".join(" (v_%s : pyval)" % n for n in spec["params"])
    return "(* UNTRANSLATABLE %s: %s *)\nDefinition %s%s%s : pyval := PErr.\n" % (
        qualname, why.replace("*)", "* )").replace("(*", "( *"), spec["name"], extra, params)


def regenerate(gen_path, items):
    """Translate every item from the current source (fail-closed: an untranslatable function becomes a poisoned
    definition, so the equivalence theorem about it no longer checks) and rewrite gen_path when it changed.
    Returns the info dict a harness module hands back from regenerate_tables()."""
    from harness import common
    out, failed = [HEADER], []
    for p, q, s in items:
        try:
            out.append(translate(p, q, s))
        except (Untranslatable, OSError, SyntaxError) as e:
            failed.append("%s: %s" % (q, e))
            out.append(poison(q, s, str(e)))
    changed = common.write_if_changed(gen_path, "\n".join(out))
    return {"translated": [q for _, q, _ in items], "untranslatable": failed, "changed": changed,
            "obligations": len(items), "discharged": len(items) - len(failed)}
