"""C03 — only keys that trusted metadata binds to the claimed issuer validate a signature."""
import hashlib

from harness import env, fixtures, render, spaccept, world
from harness.common import Raw, cq, cq_opt

PID = "C03"
PARALLEL = 12
IMPORTS = "From Verif Require Import C03.Model C03.Spec C03.Proofs C03.Corr."
CASE_TYPE = "C03.Corr.case"
RUNNER = "C03.Corr.run"
FINDING_CLASSES = {}
EXHAUSTIVE = True
RULE = ("complete product: signer key {issuer signing, issuer rotated signing, issuer encryption-only, other member, "
        "receiver's own, attacker}(6) x claimed issuer {that entity, other member, unknown}(3) x KeyInfo {none, signer cert, "
        "victim cert, bare RSAKeyValue}(4) x only_use_keys_in_metadata(2) x kind {Response, Assertion, AuthnRequest/POST, "
        "LogoutRequest/SOAP, detached Redirect}(5) = 720 cells, plus the same cells with content altered after signing for "
        "the genuine-key rows.  Real RSA, real metadata; observed: accept/reject AND the certificates handed to the "
        "xmlsec1 stand-in (fingerprints from its side log).  non-trivial = every cell except (issuer key, that entity, no "
        "KeyInfo, default flag)")
TRUSTED = ["xmlsec1 stand-in restricted to --pubkey-cert-pem as invoked by the unmodified CryptoBackendXmlSec1",
           "renderer harness/render.py (incl. independently made detached signatures)",
           "abstraction certificate fingerprint -> symbolic key"]
ASSUMPTIONS = ["ideal signatures (hypotheses verify_spec, sign_inj of C03/Proofs.v); real RSA is executed in the correspondence",
               "single metadata source (multi-source order is C11)"]

KEYS = {"idp": 1, "idp2": 2, "idpenc": 3, "other": 4, "sp": 5, "attacker": 6}
SIGNERS = ["idp", "idp2", "idpenc", "other", "sp", "attacker"]
CLAIMED = ["E", "O", "U"]
KEYINFO = ["none", "signer", "victim", "rsa"]
KINDS = ["response", "assertion", "authnreq_post", "logoutreq_soap", "redirect"]
SIG256 = "http://www.w3.org/2001/04/xmldsig-more#rsa-sha256"

OTHER_SP_ID = "https://other.example.org/sp.xml"
UNKNOWN_ID = "https://unknown.example.org/entity"

_fp = {}


def fingerprints():
    if not _fp:
        from cryptography import x509
        from cryptography.hazmat.primitives import serialization

        for n, i in KEYS.items():
            with open(fixtures.cert_path(n), "rb") as f:
                der = x509.load_pem_x509_certificate(f.read()).public_bytes(serialization.Encoding.DER)
            _fp[hashlib.sha1(der).hexdigest()] = i
    return _fp


def ids_for(kind):
    """(E, O) entity ids as seen by the receiver of this kind of message."""
    if kind in ("response", "assertion"):
        return world.IDP_ID, world.OTHER_ID
    return world.SP_ID, OTHER_SP_ID


def claimed_id(case):
    e, o = ids_for(case["kind"])
    return {"E": e, "O": o, "U": UNKNOWN_ID}[case["claimed"]]


def generate(ctx):
    cases = []
    for kind in KINDS:
        for signer in SIGNERS:
            for claimed in CLAIMED:
                for ki in KEYINFO:
                    for only_md in (True, False):
                        cases.append({"kind": kind, "signer": signer, "claimed": claimed, "keyinfo": ki,
                                      "only_md": only_md, "tampered": False})
                        if signer in ("idp", "idp2", "other") and ki in ("none", "signer"):
                            cases.append({"kind": kind, "signer": signer, "claimed": claimed, "keyinfo": ki,
                                          "only_md": only_md, "tampered": True})
    return cases


_rcv = {}


def receiver(kind, only_md):
    env.install_standin()
    spaccept.CLOCK.install()
    key = (kind in ("response", "assertion"), kind, only_md)
    if key in _rcv:
        return _rcv[key]
    if kind in ("response", "assertion"):
        over = {"only_use_keys_in_metadata": only_md}
        if kind == "assertion":
            over["sp_want_response_signed"] = False
            over["sp_want_assertions_signed"] = True
        r = world.make_sp(**over)
    else:
        md = [world.sp_descriptor(world.SP_ID, [("idp", "signing"), ("idp2", "signing"), ("idpenc", "encryption")]),
              world.sp_descriptor(OTHER_SP_ID, [("other", None)],
                                  acs=[(world.BINDING_HTTP_POST, "https://other.example.org/acs", 1)], slo=[])]
        r = world.make_idp(metadata_xml=md, only_use_keys_in_metadata=only_md, key_file=fixtures.key_path("sp"),
                           cert_file=fixtures.cert_path("sp"), idp_want_authn_requests_signed=True)
    _rcv[key] = r
    return r


def keyinfo_for(case):
    ki = case["keyinfo"]
    if ki == "none":
        return None
    if ki == "signer":
        return ("x509", case["signer"])
    if ki == "victim":
        return ("x509", "idp")
    return ("rsa", case["signer"])


def observe(case):
    kind = case["kind"]
    rcv = receiver(kind, case["only_md"])
    issuer = claimed_id(case)
    ki = keyinfo_for(case)
    m = env.standin()
    accepted = False
    exc = None
    if kind in ("response", "assertion"):
        from saml2.population import Population

        rcv.users = Population()
        a = spaccept.good_assertion(issuer=issuer)
        r = spaccept.good_response(issuer=issuer)
        if kind == "response":
            xml = spaccept.build(r, [a], sign_response=case["signer"], keyinfo=ki)
        else:
            xml = spaccept.build(r, [a], sign_response=None, sign_assertions=[case["signer"]], keyinfo=ki)
        if case["tampered"]:
            xml = render.tamper_text(xml, "subject-1", "subject-2")
        del m.LOG[:]
        o = spaccept.observe(rcv, xml, world.BINDING_HTTP_POST, {"req-1": "/"})
        accepted, exc = o["identity"], o["exc"]
    else:
        q = {"id": "q-1", "issue_instant": env.iso(spaccept.NOW), "issuer": issuer}
        relay = "rs-1"
        try:
            if kind == "authnreq_post":
                q.update(destination=world.IDP_SSO_POST, acs_url=world.SP_ACS_POST, protocol_binding=world.BINDING_HTTP_POST)
                q["sig_template"] = render.signature_template("q-1", ki)
                xml = render.sign_xml(render.request("AuthnRequest", q), case["signer"], render.ELEM["AuthnRequest"], "q-1")
                if case["tampered"]:
                    xml = render.tamper_text(xml, "acs/post", "acs/pos2")
                del m.LOG[:]
                res = rcv.parse_authn_request(render.b64(xml), world.BINDING_HTTP_POST)
            elif kind == "logoutreq_soap":
                q.update(destination=world.IDP_SLO_SOAP)
                q["sig_template"] = render.signature_template("q-1", ki)
                xml = render.sign_xml(render.request("LogoutRequest", q), case["signer"], render.ELEM["LogoutRequest"], "q-1")
                if case["tampered"]:
                    xml = render.tamper_text(xml, "subject-1", "subject-2")
                del m.LOG[:]
                res = rcv.parse_logout_request(render.soap_envelope(xml), world.BINDING_SOAP)
            else:
                q.update(destination=world.IDP_SSO_REDIRECT, acs_url=world.SP_ACS_POST,
                         protocol_binding=world.BINDING_HTTP_POST)
                xml = render.request("AuthnRequest", q)
                enc = render.deflate_b64(xml)
                sig = render.detached_signature(case["signer"], enc, relay, SIG256)
                if case["tampered"]:
                    relay = "rs-2"
                del m.LOG[:]
                res = rcv.parse_authn_request(enc, world.BINDING_HTTP_REDIRECT, relay_state=relay, sigalg=SIG256,
                                              signature=sig)
            accepted = res is not None and getattr(res, "message", None) is not None
        except Exception as e:  # noqa
            exc = type(e).__name__
    handed = []
    fps = fingerprints()
    for ent in m.LOG:
        if ent.get("op") == "verify":
            k = ent.get("key") or ""
            handed.append(fps.get(k.split(":", 1)[1], 99) if k.startswith("file:") else 98)
    return {"accept": bool(accepted), "handed": handed, "exc": exc}


MD_COQ = None


def coq_md(kind):
    e, o = ids_for(kind)
    return ("[(%s, [[(Some Signing, 1%%nat); (Some Signing, 2%%nat); (Some Encryption, 3%%nat)]]); "
            "(%s, [[(None, 4%%nat)]])]" % (cq(e), cq(o)))


def coq_case(case, obs):
    detached = case["kind"] == "redirect"
    ki = case["keyinfo"]
    if detached or ki in ("none", "rsa"):
        emb = []
    elif ki == "signer":
        emb = [KEYS[case["signer"]]]
    else:
        emb = [1]
    return "C03.Corr.mk %s %s (Some %s) [%s] %s %d%%nat %s (%s, [%s])" % (
        coq_md(case["kind"]), cq(bool(case["only_md"])), cq(claimed_id(case)), "; ".join("%d%%nat" % i for i in emb),
        cq(detached), KEYS[case["signer"]], cq(bool(case["tampered"])), cq(bool(obs["accept"])),
        "; ".join("%d%%nat" % i for i in obs["handed"]))


def nontrivial(case, obs):
    key = (case["kind"], case["signer"], case["claimed"], case["keyinfo"], case["only_md"], case["tampered"])
    if key[1:] == ("idp", "E", "none", True, False):
        return None
    return key


def histogram(cases, observed):
    h = {"by_kind": {}, "accepted": 0, "rejected": 0, "exceptions": {}, "handed_lengths": {}}
    for c, o in zip(cases, observed):
        h["by_kind"][c["kind"]] = h["by_kind"].get(c["kind"], 0) + 1
        h["accepted" if o["accept"] else "rejected"] += 1
        h["handed_lengths"][str(len(o["handed"]))] = h["handed_lengths"].get(str(len(o["handed"])), 0) + 1
        if o["exc"]:
            h["exceptions"][o["exc"]] = h["exceptions"].get(o["exc"], 0) + 1
    return h


def explain_term(t):
    return "C03.Corr.explain (%s)" % t
