"""C03 — only keys that trusted metadata binds to the claimed issuer validate a signature.

A case is the whole life of ONE receiver (Saml2Client or Server): the metadata it starts with and a list
of operations -- verifications of signed messages, metadata reloads, failed reloads -- in order.  The old
single-shot cells are lives with one verification.  A message carries a LIST of signed elements (a signed
Response around a signed Assertion: two signatures, varied independently).  Observed per message:
accept/reject AND, per signed element, every certificate handed to a verifier (the file named on the
xmlsec1 command line, attributed to the element by --node-id; for detached signatures the public key that
reaches the RSA primitive) AND how xmlsec1 was invoked (version it reported, confined to the certificate file or
not, --lax-key-search).  Between the verifications the receiver may reload its metadata, have certificates looked
up for another purpose (the ENCRYPTION certificates of the peer: every Response an IdP produces) and have its
xmlsec1 binary replaced by another version (1.2.x / 1.3.x command lines and output formats)."""
import base64
import copy
import hashlib
import itertools
import json

from harness import env, fixtures, render, spaccept, world
from harness.common import Raw, cq, cq_opt

PID = "C03"
PARALLEL = 12
IMPORTS_BASE = "From Verif Require Import C03.Model C03.Spec C03.Proofs C03.Corr."
CASE_TYPE = "C03.Corr.case"
RUNNER = "C03.Corr.run"
FINDING_CLASSES = {1: "C03-F1", 2: "C03-F2"}
EXHAUSTIVE = True
RULE = ("(A) complete product: signer key {issuer signing, issuer rotated signing, issuer encryption-only, other member, "
        "receiver's own, attacker}(6) x claimed issuer {that entity, other member, unknown}(3) x KeyInfo {none, signer cert, "
        "victim cert, bare RSAKeyValue}(4) x only_use_keys_in_metadata(2) x kind {Response, Assertion, AuthnRequest/POST, "
        "LogoutRequest/SOAP, detached Redirect}(5) = 720 cells, plus the same cells with content altered after signing for "
        "the genuine-key rows.  (B) metadata shapes of the claimed issuer: every list of <= 2 KeyDescriptors over {use "
        "signing/none/encryption} x {issuer key, rotated key, the RECEIVER's own key, octets that are no certificate "
        "(truncated DER, random bytes)} (7 items, 57 shapes) x signer {issuer, rotated, receiver's own, attacker} x the 5 kinds (pairs of KeyDescriptors: Response, AuthnRequest/POST, Redirect in the quick tier); "
        "the shapes without a signing key again with only_use_keys_in_metadata off and the signer's certificate embedded; "
        "seeded random shapes with 2 role descriptors (SSO + AttributeAuthority, either document order), 1-3 keys each, "
        "several X509Data in one KeyDescriptor, a certificate shared with another member; KeyDescriptors WITHOUT certificate "
        "(empty X509Certificate, X509SubjectName only, KeyName only) x use x {alone, before, after a good key} x fallback on/off.  (C) lives of one receiver: for every "
        "ordered pair of 6 metadata generations (default / signing key withdrawn / issuer removed / key demoted to "
        "encryption-only / keys swapped between two members / unknown issuer added) x 6 receiver kinds (SP Response, SP "
        "Assertion, IdP POST, IdP SOAP, IdP Redirect, IdP mixed): probe every (signer, claimed issuer) pair, reload "
        "(Entity.reload_metadata or MetadataStore.reload), probe again, reload back, probe again; generations with an "
        "unreadable certificate; seeded random walks over verifications / reloads / failed reloads.  (D) messages with "
        "SEVERAL signatures: a Response and the Assertion inside it, each unsigned or signed, the two signatures varied "
        "independently -- signer key (6 x 6), issuer named by each element {E, O, U, Response without Issuer}, KeyInfo of "
        "each, fallback flag, content altered under the inner / the outer signature only, Assertion plain or encrypted, "
        "issuer metadata shapes -- for the receiver that insists on a signed Response and for the one that insists on signed "
        "Assertions; the same messages around metadata reloads; seeded random doubly signed messages in random lives.  "
        "(E) the verifier itself: the xmlsec1 binary reports version {1.2.20, 1.3, 1.3.0, 1.3.7, 1.4.0, a text that is no "
        "version} (default 1.2.37) -- command line and verdict format differ from 1.3 on -- x kind x signer x KeyInfo {none, "
        "signer cert, victim cert, bare RSAKeyValue} x flag (complete for 1.3.7, the rows that matter for the others), doubly "
        "signed / encrypted messages, the binary replaced in the middle of a life (upgrade, downgrade, around a reload).  "
        "(F) what the receiver did besides verifying: certificates of the issuer asked for under ANOTHER use (encryption: "
        "MetadataStore.certs directly, an IdP producing a plain / an encrypted Response for the SP), another descriptor, or by "
        "ANOTHER entity instance of the process with other metadata -- before the first verification, after it, before / after "
        "a reload, signing-then-encryption and the reverse -- over 5 metadata shapes whose encryption-only key differs from "
        "the signing key(s) (encryption first, use-less + encryption, a second role descriptor, encryption-only issuer); "
        "seeded random lives over verifications / reloads / failed reloads / lookups / replaced binaries.  "
        "Real RSA, real metadata; "
        "observed per message: accept/reject AND, per signed element (xmlsec1 --node-id), the certificates handed to the "
        "verifier (the key material of the message's KeyInfo too when the command line does not confine xmlsec1 to the "
        "file); per life every distinct (reported version, confined, --lax-key-search) of the xmlsec1 --verify runs.  "
        "non-trivial = every case "
        "except (issuer key, that entity, no KeyInfo, default flag)")
TRUSTED = ["xmlsec1 stand-in restricted to --pubkey-cert-pem as invoked by the unmodified CryptoBackendXmlSec1 (a certificate "
           "file that does not load = non-zero exit, as the binary does)",
           "model of xmlsec1's key selection and versions in harness/c03.py:C03Popen (around the shared 1.2.37 stand-in): "
           "--enabled-key-data other than exactly raw-x509-cert enables the key material of the message's ds:KeyInfo, which "
           "the binary then prefers to the certificate file; from 1.3 on the verdict reads `Verification status: OK/FAILED` "
           "and the file's key is used only under --lax-key-search; `--version` answers the version of the case",
           "renderer harness/render.py (incl. independently made detached signatures)",
           "abstraction certificate octets -> symbolic key / 'no certificate'",
           "observation hook on saml2.cryptography.asymmetric.key_verify (records the public key, then calls the original)",
           "saml2.cryptography.asymmetric.load_pem_private_key memoised on the PEM octets (speed only: every Entity loads "
           "its key twice)",
           "translator v2 harness/py2coq2.py + coq/theories/Base/Py2.v (semantics and trusted base: notes/translator_v2.md); "
           "re-translated from the current source text on every run into coq/gen/C03Src2.v and tied to the model by "
           "C03/Source2.v: mdstore.MetaData.certs.extract_certs (nested function), mdstore.MetaData.certs (the walk, with "
           "the nested def cut out), sigver.SecurityContext._check_signature (two statement blocks: certificate selection "
           "up to `raise MissingKey`, verification loop from `verified = False` to `return item`), "
           "request.Request._do_redirect_sig_check, sigver.CryptoBackendXmlSec1.validate_signature (the statements that "
           "build the --verify command line), response.AuthnResponse._assertion (its first statement: the signature "
           "step), response.AuthnResponse.parse_assertion (the statement that sends the plain assertions through "
           "_assertion); the statement blocks are cut out of the methods by harness/c03.py (work/C03/slices/), which adds "
           "the function header and, where the block falls through, `return certs` / `return True`"]
ASSUMPTIONS = ["ideal signatures (hypotheses verify_spec, sign_inj of C03/Proofs.v); real RSA is executed in the correspondence",
               "each entity is described by one metadata source (multi-source order is C11)",
               "metadata changes through Entity.reload_metadata / MetadataStore.reload (MDQ refresh needs a network peer: "
               "not exercised)",
               "xmlsec1 >= 1.3 behaves as its release notes say (strict key lookup unless --lax-key-search; new verdict lines); "
               "no 1.3 binary is installed"]

KEYS = {"idp": 1, "idp2": 2, "idpenc": 3, "other": 4, "sp": 5, "attacker": 6}
SIGNERS = ["idp", "idp2", "idpenc", "other", "sp", "attacker"]
CLAIMED = ["E", "O", "U"]
KEYINFO = ["none", "signer", "victim", "rsa"]
KINDS = ["response", "assertion", "authnreq_post", "logoutreq_soap", "redirect"]
SIG256 = "http://www.w3.org/2001/04/xmldsig-more#rsa-sha256"

OTHER_SP_ID = "https://other.example.org/sp.xml"
UNKNOWN_ID = "https://unknown.example.org/entity"

# entity ids are named once per case file (a string literal is costly to elaborate)
ID_NAMES = {world.IDP_ID: "id_idp", world.OTHER_ID: "id_oidp", world.SP_ID: "id_sp", OTHER_SP_ID: "id_osp",
            UNKNOWN_ID: "id_unk"}
IMPORTS = IMPORTS_BASE + "".join("\nDefinition %s : string := %s%%string." % (n, cq(i)) for i, n in sorted(ID_NAMES.items()))


def cq_id(eid):
    return ID_NAMES[eid]


# receiver kinds: which real object lives, which message kinds it verifies
RECV_KINDS = {
    "sp_response": ["response"],
    "sp_assertion": ["assertion"],
    "idp": ["authnreq_post", "logoutreq_soap", "redirect"],
}
RECV_OF_KIND = {"response": "sp_response", "assertion": "sp_assertion", "authnreq_post": "idp",
                "logoutreq_soap": "idp", "redirect": "idp"}


# ------------------------------------------------------------------------------------ certificates
def _junk_bodies():
    """ds:X509Certificate contents that are schema-valid base64Binary but no X.509 certificate."""
    good = fixtures.cert_b64("idp")
    j0 = good[:400]                                        # truncated upload: DER cut short
    rnd = hashlib.sha512(b"c03-junk").digest() * 8
    j1 = base64.b64encode(rnd[:450]).decode("ascii")       # random octets
    from cryptography import x509
    from cryptography.hazmat.primitives import serialization

    with open(fixtures.cert_path("attacker"), "rb") as f:  # a bare SubjectPublicKeyInfo, not a certificate
        spki = x509.load_pem_x509_certificate(f.read()).public_key().public_bytes(
            serialization.Encoding.DER, serialization.PublicFormat.SubjectPublicKeyInfo)
    j2 = base64.b64encode(spki).decode("ascii")
    return {"J0": j0, "J1": j1, "J2": j2}


_bodies = {}
_by_body = {}
_by_modulus = {}


def bodies():
    """certificate name -> base64 body; also fills the reverse maps used to abstract observations."""
    if not _bodies:
        from cryptography import x509

        for n in KEYS:
            _bodies[n] = fixtures.cert_b64(n)
            _by_body[_bodies[n]] = ["G", KEYS[n]]
            with open(fixtures.cert_path(n), "rb") as f:
                _by_modulus[x509.load_pem_x509_certificate(f.read()).public_key().public_numbers().n] = KEYS[n]
        for j, b in _junk_bodies().items():
            _bodies[j] = b
            _by_body[b] = ["J", int(j[1:])]
    return _bodies


# KeyDescriptors that carry no certificate text at all
BLANK_KEYINFO = {
    "B0": "<ds:X509Data><ds:X509Certificate></ds:X509Certificate></ds:X509Data>",          # empty element
    "B1": "<ds:X509Data><ds:X509SubjectName>CN=verif</ds:X509SubjectName></ds:X509Data>",  # other X509Data children only
    "B2": "<ds:KeyName>key-1</ds:KeyName>",                                                # named key only
}


def sym(name):
    """symbolic certificate of a certificate name: ['G', key number], ['J', junk number] or ['B', blank number]"""
    if name[0] in "JB" and name[1:].isdigit():
        return [name[0], int(name[1:])]
    return ["G", KEYS[name]]


def classify_file(path):
    bodies()
    try:
        with open(path, "rb") as f:
            txt = f.read().decode("ascii", "replace")
    except Exception:
        return ["G", 97]
    body = "".join(l.strip() for l in txt.splitlines() if "-----" not in l)
    return _by_body.get(body, ["G", 99])


# ------------------------------------------------------------------------------------ observation hooks
HANDED = []
CALLS = []                                  # every xmlsec1 --verify run: [version text, confined, lax]
DEFAULT_VERSION = "1.2.37"                  # what the shared stand-in reports
ENGINE = {"version": DEFAULT_VERSION}       # the xmlsec1 binary "installed" right now
VERSIONS = ["1.2.20", "1.3", "1.3.0", "1.3.7", "1.4.0", "unknown"]


def vnums(text):
    """CryptoBackend.version_nums, restated: dotted numbers -> tuple, anything else -> (0, 0, 0)"""
    try:
        return tuple(int(t) for t in text.split("."))
    except ValueError:
        return (0, 0, 0)


def keyinfo_material(xml_path, node_id):
    """Key material that xmlsec1 finds in the ds:KeyInfo of the signature at / below the element with that ID when
    its key data is not confined: the first X509Certificate, else a bare RSAKeyValue (what the shared stand-in
    prefers over the certificate file in that case).  -> list of symbolic certificates (at most one)."""
    import xml.etree.ElementTree as ET

    ds = "{http://www.w3.org/2000/09/xmldsig#}"
    try:
        root = ET.parse(xml_path).getroot()
        start = root
        if node_id:
            hits = [e for e in root.iter() if e.get("ID") == node_id]
            if not hits:
                return []
            start = hits[0]
        sig = next((e for e in start.iter() if e.tag == ds + "Signature"), None)
        ki = sig.find(ds + "KeyInfo") if sig is not None else None
        if ki is None:
            return []
        x = ki.find(".//" + ds + "X509Certificate")
        if x is not None and (x.text or "").strip():
            return [_by_body.get("".join((x.text or "").split()), ["G", 99])]
        mod = ki.find(".//" + ds + "RSAKeyValue/" + ds + "Modulus")
        if mod is not None:
            n = int.from_bytes(base64.b64decode("".join((mod.text or "").split())), "big")
            return [["G", _by_modulus.get(n, 99)]]
    except Exception:  # noqa
        pass
    return []


class C03Popen:
    """The stand-in behind saml2.sigver.Popen, with
    (a) a record of every certificate file named on a --verify command line, made before the stand-in runs;
    (b) the process boundary restored: whatever goes wrong inside the binary (e.g. a certificate file that does
        not load) is a non-zero exit, never a Python exception in the caller (the shared FakePopen lets such
        exceptions through);
    (c) the VERSION dimension of the binary (the shared stand-in is 1.2.37 only): `--version` answers
        ENGINE["version"]; from 1.3 on the verdict is printed as `Verification status: OK / FAILED` and the key of
        the certificate file is used only under --lax-key-search (strict key lookup is the default there);
    (d) xmlsec1's key selection made observable: a --verify command line whose --enabled-key-data is not exactly
        raw-x509-cert does not confine the binary to the file -- the key material in the message's ds:KeyInfo is
        then enabled, PREFERRED by the binary (shared stand-in, CVE-2021-21239 behaviour) and recorded as handed
        to the verifier next to the file."""

    def __init__(self, com_list, stderr=None, stdout=None, **kw):
        argv = list(com_list[1:])
        ver = ENGINE["version"]
        new = vnums(ver) >= (1, 3)
        if "--version" in argv:
            self.returncode, self._out, self._err = 0, ("xmlsec1 %s (openssl)\n" % ver).encode(), b""
            return
        verify = "--verify" in argv
        refuse = False
        if verify:
            node = argv[argv.index("--node-id") + 1] if "--node-id" in argv[:-1] else ""
            for i, a in enumerate(argv[:-1]):
                if a.startswith("--pubkey-cert-") or a == "--pubkey-pem":
                    HANDED.append([node, classify_file(argv[i + 1])])
            kd = argv[argv.index("--enabled-key-data") + 1].split(",") if "--enabled-key-data" in argv[:-1] else None
            confined = kd is not None and set(kd) <= {"raw-x509-cert"}
            lax = "--lax-key-search" in argv
            CALLS.append([ver, confined, lax])
            carried = []
            if not confined:
                carried = keyinfo_material(argv[-1], node or None)
                for c in carried:
                    HANDED.append([node, c])
                if kd is not None:      # the shared stand-in reads any list that names raw-x509-cert as confined
                    i = argv.index("--enabled-key-data")
                    del argv[i:i + 2]
            refuse = new and not lax and not carried
        try:
            if refuse:
                self.returncode, self._out, self._err = 1, b"", b"Error: key not found (strict key search)\n"
            else:
                self.returncode, self._out, self._err = env.standin().main(argv)
        except Exception as e:  # noqa
            self.returncode, self._out, self._err = 1, b"", ("Error: %s: %s\n" % (type(e).__name__, e)).encode()
        if verify and new:
            ok = self.returncode == 0 and b"OK" in self._err.splitlines()
            self._err = (b"Verification status: OK\n" if ok else b"Verification status: FAILED\n" + self._err)

    def communicate(self, *a, **kw):
        return self._out, self._err


def install_hooks():
    env.install_standin()
    spaccept.CLOCK.install()
    bodies()
    import saml2.algsupport
    import saml2.cryptography.asymmetric as asym
    import saml2.sigver

    saml2.sigver.Popen = C03Popen
    saml2.algsupport.Popen = C03Popen
    if not getattr(asym.load_pem_private_key, "_c03_hook", False):
        # every Entity loads its own private key twice (~50 ms each: RSA key validation); the loader is a pure
        # function of the PEM octets, so the parsed key is shared (speed only, as the stand-in does for its keys)
        load = asym.load_pem_private_key
        cache = {}

        def load_pem_private_key(data, password=None):
            k = (bytes(data) if not isinstance(data, str) else data, password)
            if k not in cache:
                cache[k] = load(data, password)
            return cache[k]

        load_pem_private_key._c03_hook = True
        asym.load_pem_private_key = load_pem_private_key
    if not getattr(asym.key_verify, "_c03_hook", False):
        orig = asym.key_verify

        def key_verify(rsakey, signature, message, digest):
            try:
                pub = rsakey.public_key() if hasattr(rsakey, "private_numbers") else rsakey
                HANDED.append([None, ["G", _by_modulus.get(pub.public_numbers().n, 99)]])
            except Exception:  # noqa
                HANDED.append([None, ["G", 98]])
            return orig(rsakey, signature, message, digest)

        key_verify._c03_hook = True
        asym.key_verify = key_verify


# ------------------------------------------------------------------------------------ metadata
def ids_for_recv(recv):
    """entity ids behind the labels E, O, U as seen by this receiver"""
    if recv.startswith("sp"):
        return {"E": world.IDP_ID, "O": world.OTHER_ID, "U": UNKNOWN_ID}
    return {"E": world.SP_ID, "O": OTHER_SP_ID, "U": UNKNOWN_ID}


def ids_for(kind):
    d = ids_for_recv(RECV_OF_KIND[kind])
    return d["E"], d["O"]


def ent(label, roles, aa_first=False, merge=False):
    return {"label": label, "roles": roles, "aa_first": aa_first, "merge": merge}


def G0():
    return [ent("E", [[["signing", "idp"], ["signing", "idp2"], ["encryption", "idpenc"]]]), ent("O", [[[None, "other"]]])]


def _kds(role, merge):
    """KeyDescriptors of one role descriptor; merge: neighbours with the same use share one KeyDescriptor
    (several ds:X509Data in one ds:KeyInfo)."""
    b = bodies()
    groups = []
    for use, name in role:
        if merge and groups and groups[-1][0] == use and name not in BLANK_KEYINFO and groups[-1][1][-1] not in BLANK_KEYINFO:
            groups[-1][1].append(name)
        else:
            groups.append((use, [name]))
    out = []
    for use, names in groups:
        u = ' use="%s"' % use if use else ""
        out.append("<md:KeyDescriptor%s><ds:KeyInfo>%s</ds:KeyInfo></md:KeyDescriptor>" % (
            u, "".join(BLANK_KEYINFO[n] if n in BLANK_KEYINFO else
                       "<ds:X509Data><ds:X509Certificate>%s</ds:X509Certificate></ds:X509Data>" % b[n] for n in names)))
    return "".join(out)


def entity_xml(recv, e):
    """One md:EntityDescriptor (string template, independent of the pysaml2 classes).  roles[0] is the SSO
    descriptor of the peer, roles[1] (if any) an AttributeAuthorityDescriptor; MetaData.certs walks spsso, idpsso,
    ..., attribute_authority, so the walk order is roles[0], roles[1] whatever the document order."""
    eid = ids_for_recv(recv)[e["label"]]
    host = eid.split("/")[2]
    roles = e["roles"]
    q = world.quoteattr
    if recv.startswith("sp"):       # the peer is an IdP
        if e["label"] == "E":
            sso = [(world.BINDING_HTTP_REDIRECT, world.IDP_SSO_REDIRECT), (world.BINDING_HTTP_POST, world.IDP_SSO_POST)]
            slo = [(world.BINDING_SOAP, world.IDP_SLO_SOAP), (world.BINDING_HTTP_REDIRECT, world.IDP_SLO_REDIRECT),
                   (world.BINDING_HTTP_POST, world.IDP_SLO_POST)]
        else:
            sso = [(world.BINDING_HTTP_REDIRECT, "https://%s/sso/redirect" % host)]
            slo = [(world.BINDING_SOAP, "https://%s/slo/soap" % host)]
        main = "<md:IDPSSODescriptor protocolSupportEnumeration=%s>%s%s%s</md:IDPSSODescriptor>" % (
            q(world.PROTO), _kds(roles[0], e["merge"]) if roles else "",
            "".join(world.endpoint("SingleLogoutService", b, l) for b, l in slo),
            "".join(world.endpoint("SingleSignOnService", b, l) for b, l in sso))
    else:                           # the peer is an SP
        if e["label"] == "E":
            acs = [(world.BINDING_HTTP_POST, world.SP_ACS_POST, 1), (world.BINDING_HTTP_REDIRECT, world.SP_ACS_REDIRECT, 2)]
            slo = [(world.BINDING_HTTP_REDIRECT, world.SP_SLO_REDIRECT), (world.BINDING_HTTP_POST, world.SP_SLO_POST),
                   (world.BINDING_SOAP, world.SP_SLO_SOAP)]
        else:
            acs = [(world.BINDING_HTTP_POST, "https://%s/acs" % host, 1)]
            slo = []
        main = "<md:SPSSODescriptor protocolSupportEnumeration=%s>%s%s%s</md:SPSSODescriptor>" % (
            q(world.PROTO), _kds(roles[0], e["merge"]) if roles else "",
            "".join(world.endpoint("SingleLogoutService", b, l) for b, l in slo),
            "".join(world.endpoint("AssertionConsumerService", b, l, i) for b, l, i in acs))
    aa = ""
    if len(roles) > 1:
        aa = "<md:AttributeAuthorityDescriptor protocolSupportEnumeration=%s>%s%s</md:AttributeAuthorityDescriptor>" % (
            q(world.PROTO), _kds(roles[1], e["merge"]),
            world.endpoint("AttributeService", world.BINDING_SOAP, "https://%s/aa/soap" % host))
    body = aa + main if e["aa_first"] else main + aa
    return "<md:EntityDescriptor %s entityID=%s>%s</md:EntityDescriptor>" % (world.MD_NS, q(eid), body)


def md_xml(recv, md):
    return [entity_xml(recv, e) for e in md]


def coq_cert(c):
    return "%s %d%%nat" % ({"G": "Gd", "J": "Jk", "B": "Bl"}[c[0]], c[1])


def coq_md(recv, md):
    ids = ids_for_recv(recv)
    ents = []
    for e in md:
        roles = []
        for role in e["roles"]:
            roles.append("[%s]" % "; ".join("(%s, %s)" % (
                {"signing": "Some Signing", "encryption": "Some Encryption", None: "None"}[u], coq_cert(sym(n)))
                for u, n in role))
        ents.append("(%s, [%s])" % (cq_id(ids[e["label"]]), "; ".join(roles)))
    return "[%s]" % "; ".join(ents)


# ------------------------------------------------------------------------------------ cases
def chk(kind, signer, claimed, keyinfo="none", tampered=False):
    return {"op": "check", "kind": kind, "signer": signer, "claimed": claimed, "keyinfo": keyinfo, "tampered": tampered}


def sg(signer, claimed, keyinfo="none", tampered=False):
    """one signed element of a message: who signed it, which issuer it names (E, O, U; N = the Response carries no
    Issuer element), what its ds:KeyInfo embeds, whether its content was altered after signing"""
    return {"signer": signer, "claimed": claimed, "keyinfo": keyinfo, "tampered": tampered}


def chk2(outer, inner, enc=False):
    """A Response that carries up to two signatures, varied independently: outer = the signature on the Response
    (None: the Response is unsigned and names the Assertion's issuer), inner = the signature on the Assertion inside
    it (None: unsigned); enc: the Assertion travels as an EncryptedAssertion (signed, then encrypted for the SP)."""
    return {"op": "check", "kind": "signed_response", "outer": outer, "inner": inner, "enc": bool(enc)}


NODE_OF_KIND = {"response": "r-1", "assertion": "a-1", "authnreq_post": "q-1", "logoutreq_soap": "q-1", "redirect": None}


def parts_of(c):
    """the signed elements of one message in the order the receiver verifies them: [(node id, element spec)]"""
    if c["kind"] != "signed_response":
        return [(NODE_OF_KIND[c["kind"]], c)]
    out = []
    if c["outer"]:
        out.append(("r-1", c["outer"]))
    if c["inner"]:
        out.append(("a-1", c["inner"]))
    return out


def life(recv, only_md, md, ops, part):
    return {"recv": recv, "only_md": only_md, "md": md, "ops": ops, "part": part}


def gen_cells():
    """(A) the complete product of the property's quantifier, one verification per life"""
    cases = []
    for kind in KINDS:
        for signer in SIGNERS:
            for claimed in CLAIMED:
                for ki in KEYINFO:
                    for only_md in (True, False):
                        cases.append(life(RECV_OF_KIND[kind], only_md, G0(), [chk(kind, signer, claimed, ki, False)], "A"))
                        if signer in ("idp", "idp2", "other") and ki in ("none", "signer"):
                            cases.append(life(RECV_OF_KIND[kind], only_md, G0(), [chk(kind, signer, claimed, ki, True)], "A"))
    return cases


ITEMS = [["signing", "idp"], ["encryption", "idp"], [None, "idp2"], ["signing", "sp"], ["signing", "J0"], [None, "J1"],
         ["encryption", "J0"]]
SHAPE_SIGNERS = ["idp", "idp2", "sp", "attacker"]


def gen_shapes(rng, thorough):
    """(B) what the claimed issuer publishes: use x key x readable, order, number, role descriptors"""
    cases = []
    shapes = [[]] + [[a] for a in ITEMS] + [[a, b] for a in ITEMS for b in ITEMS]
    for shape in shapes:
        md = [ent("E", [copy.deepcopy(shape)]), ent("O", [[[None, "other"]]])]
        nosign = all(u == "encryption" for u, _ in shape)
        # every entry point for the shapes with <= 1 KeyDescriptor; one entry point per verification path
        # (Response -> _check_signature, request -> _check_signature, query string) for the pairs
        for kind in (KINDS if len(shape) < 2 or thorough else ("response", "authnreq_post", "redirect")):
            for signer in SHAPE_SIGNERS:
                cases.append(life(RECV_OF_KIND[kind], True, md, [chk(kind, signer, "E")], "B"))
                if nosign:
                    cases.append(life(RECV_OF_KIND[kind], False, md, [chk(kind, signer, "E", "signer")], "B"))
    # KeyDescriptors without certificate: alone, before and after a good key, under every use; with and without
    # the opt-in fallback (and a certificate embedded in the message)
    for b in sorted(BLANK_KEYINFO):
        for use in ("signing", None, "encryption"):
            for shape in ([[use, b]], [[use, b], ["signing", "idp"]], [["signing", "idp"], [use, b]]):
                md = [ent("E", [copy.deepcopy(shape)]), ent("O", [[[None, "other"]]])]
                for kind in ("response", "authnreq_post", "redirect"):
                    for signer in ("idp", "attacker"):
                        cases.append(life(RECV_OF_KIND[kind], True, md, [chk(kind, signer, "E")], "B"))
                        cases.append(life(RECV_OF_KIND[kind], False, md, [chk(kind, signer, "E", "signer")], "B"))
    more = ITEMS + [["signing", "other"], [None, "J2"], ["signing", "idp2"], [None, "sp"], ["signing", "B0"], [None, "B2"]]
    combos = [(k, s) for k in ("redirect", "authnreq_post", "response", "logoutreq_soap", "assertion")
              for s in ("idp", "idp2", "sp", "attacker", "other")]
    for _ in range(240 if thorough else 60):
        roles = [[copy.deepcopy(rng.choice(more)) for _ in range(rng.randint(1, 3))] for _ in range(rng.randint(1, 2))]
        md = [ent("E", roles, aa_first=rng.random() < 0.5, merge=rng.random() < 0.4), ent("O", [[[None, "other"]]])]
        if rng.random() < 0.3:
            rng.shuffle(md)
        for kind, signer in (combos if thorough else rng.sample(combos, 8)):
            only_md = rng.random() < 0.8
            cases.append(life(RECV_OF_KIND[kind], only_md, md, [chk(kind, signer, rng.choice(["E", "E", "E", "O"]),
                                                                  "none" if only_md else "signer")], "B"))
    return cases


def generations():
    e0 = [["signing", "idp"], ["signing", "idp2"], ["encryption", "idpenc"]]
    o0 = ent("O", [[[None, "other"]]])
    return {
        "g0": [ent("E", [e0]), o0],                                                    # default
        "g1": [ent("E", [[["signing", "idp2"]]]), o0],                                 # key 1 withdrawn (rotation done)
        "g2": [o0],                                                                    # issuer removed
        "g3": [ent("E", [[["encryption", "idp"], ["signing", "idp2"]]]), o0],          # key 1 demoted to encryption-only
        "g4": [ent("E", [[[None, "other"]]]), ent("O", [[["signing", "idp"]]])],       # keys swapped between two members
        "g5": [ent("E", [e0]), o0, ent("U", [[["signing", "attacker"]]])],             # unknown issuer joins
        "g6": [ent("E", [[["signing", "J0"], ["signing", "idp"]]]), o0],               # unreadable certificate first
        "g7": [ent("E", [[["signing", "idp"], [None, "J1"]]]), o0],                    # unreadable certificate last
        "g8": [ent("E", [[["signing", "idp"], [None, "B2"]]]), o0],                    # a KeyDescriptor with a KeyName only
    }


# (signer, claimed issuer): every key that some generation binds to some issuer, against the issuers it is / is not bound to
PROBES = [("idp", "E"), ("idp2", "E"), ("other", "E"), ("attacker", "E"), ("other", "O"), ("idp", "O"),
          ("attacker", "U"), ("idp", "U")]
SEQ_RECV = [("sp_response", ["response"]), ("idp", ["authnreq_post", "logoutreq_soap", "redirect"]),
            ("sp_assertion", ["assertion"]), ("idp", ["authnreq_post"]), ("idp", ["logoutreq_soap"]), ("idp", ["redirect"])]


def probes(kinds, start, keyinfo):
    return [chk(kinds[(start + i) % len(kinds)], signer, claimed, keyinfo) for i, (signer, claimed) in enumerate(PROBES)]


def gen_lives(rng, thorough):
    """(C) a long-lived receiver whose metadata changes between verifications"""
    cases = []
    gens = generations()
    core = ["g0", "g1", "g2", "g3", "g4", "g5"]
    pairs = [(a, b) for a in core for b in core if a != b] + [("g0", "g6"), ("g6", "g0"), ("g1", "g7"), ("g7", "g2"), ("g6", "g7")]
    n = 0
    for ri, (recv, kinds) in enumerate(SEQ_RECV):
        for a, b in pairs:
            if ri >= 2 and not thorough and "g0" not in (a, b):
                continue        # quick tier: the single-kind receivers see the pairs that involve the default generation
            n += 1
            via = ("entity", "store")[n % 2]
            ops = probes(kinds, n, "none") + [{"op": "reload", "md": gens[b], "via": via}] + probes(kinds, n + 1, "none")
            ops += [{"op": "reload", "md": gens[a], "via": via}, {"op": "reload_bad", "how": ("xml", "type")[n % 2]}]
            ops += probes(kinds, n + 2, "none")
            cases.append(life(recv, True, gens[a], ops, "C"))
        # the opt-in fallback over reloads: embedded certificate usable only while metadata has no key for the issuer
        for a, b in (("g2", "g0"), ("g0", "g2"), ("g2", "g5"), ("g5", "g1")):
            if ri >= 3 and not thorough:
                continue
            ops = probes(kinds, 0, "signer") + [{"op": "reload", "md": gens[b], "via": "entity"}] + probes(kinds, 1, "signer")
            cases.append(life(recv, False, gens[a], ops, "C"))
    names = sorted(gens)
    for i in range(400 if thorough else 120):
        recv, kinds = SEQ_RECV[rng.randrange(len(SEQ_RECV))]
        only_md = rng.random() < 0.75
        ops = []
        for _ in range(rng.randint(6, 14)):
            r = rng.random()
            if r < 0.68:
                ops.append(chk(rng.choice(kinds), rng.choice(SIGNERS), rng.choice(CLAIMED),
                               rng.choice(["none", "none", "signer", "victim", "rsa"]), rng.random() < 0.1))
            elif r < 0.92:
                ops.append({"op": "reload", "md": gens[rng.choice(names)], "via": rng.choice(["entity", "store"])})
            else:
                ops.append({"op": "reload_bad", "how": rng.choice(["xml", "type"])})
        if not any(o["op"] == "check" for o in ops):
            ops.append(chk(kinds[0], "idp", "E"))
        cases.append(life(recv, only_md, gens[rng.choice(names)], ops, "C"))
    return cases


DPROBES = [(("idp", "E"), ("idp2", "E")), (("idp2", "E"), ("idp", "E")), (("idp", "E"), ("attacker", "E")),
           (("attacker", "E"), ("idp", "E")), (("other", "O"), ("other", "O")), (("idp", "E"), ("other", "E")),
           (("idp", "E"), ("idp", "O")), (("other", "E"), ("other", "E"))]


def gen_multi(rng, thorough):
    """(D) messages with SEVERAL signatures: a Response and the Assertion inside it, each unsigned or signed, the two
    signatures varied independently (key, named issuer, KeyInfo, alteration after signing), plain or encrypted
    Assertion, for the receiver that insists on a signed Response and for the one that insists on signed Assertions"""
    cases = []
    recvs = ("sp_response", "sp_assertion")

    def add(recv, only_md, c, md=None):
        if recv == "sp_response" and not c["outer"] or recv == "sp_assertion" and not c["inner"]:
            return      # a missing required signature is C01's subject
        cases.append(life(recv, only_md, md or G0(), [c], "D"))

    for recv in recvs:
        # every signer key on either element, both naming the issuer
        for so in SIGNERS:
            for si in SIGNERS:
                add(recv, True, chk2(sg(so, "E"), sg(si, "E")))
        # one of the two unsigned (through the same renderer), plain and encrypted
        for k in SIGNERS:
            for enc in (False, True):
                add(recv, True, chk2(sg(k, "E"), None, enc))
                add(recv, True, chk2(None, sg(k, "E"), enc))
        # the issuer named by each element, independently (N: Response without Issuer)
        for co, ci in (("E", "O"), ("O", "E"), ("O", "O"), ("E", "U"), ("U", "E"), ("N", "E"), ("N", "O")):
            for so in ("idp", "other", "attacker"):
                for si in ("idp", "other", "attacker"):
                    add(recv, True, chk2(sg(so, co), sg(si, ci)))
        # the opt-in fallback, per element: embedded certificate usable only for the element whose issuer has no key
        for co, ci in (("U", "U"), ("E", "U"), ("U", "E"), ("E", "E"), ("N", "E"), ("N", "U")):
            for so in ("idp", "attacker"):
                for si in ("idp", "attacker"):
                    for ko, ki in (("signer", "signer"), ("signer", "none"), ("none", "signer"), ("victim", "victim")):
                        if (ko, ki) != ("signer", "signer") and not thorough and (co, ci) not in (("U", "U"), ("E", "U")):
                            continue
                        add(recv, False, chk2(sg(so, co, ko), sg(si, ci, ki)))
        # embedded KeyInfo under the default flag never counts, on either element
        for ko, ki in (("signer", "signer"), ("rsa", "signer"), ("signer", "rsa"), ("victim", "victim")):
            for so, si in (("idp", "attacker"), ("attacker", "idp"), ("attacker", "attacker"), ("idp", "idp")):
                add(recv, True, chk2(sg(so, "E", ko), sg(si, "E", ki)))
        # the signed Assertion travels encrypted
        for so in ("idp", "idp2", "attacker"):
            for si in ("idp", "idp2", "idpenc", "other", "sp", "attacker"):
                add(recv, True, chk2(sg(so, "E"), sg(si, "E"), True))
        for si in ("idp", "attacker"):
            add(recv, True, chk2(sg("idp", "E"), sg(si, "O"), True))
            add(recv, False, chk2(sg("idp", "E", "signer"), sg(si, "U", "signer"), True))
        # content altered after signing: under the inner signature only / outside the Assertion only
        for enc in (False, True):
            for so, si in (("idp", "idp"), ("idp", "idp2"), ("idp2", "idp")):
                add(recv, True, chk2(sg(so, "E"), sg(si, "E", "none", True), enc))
                add(recv, True, chk2(sg(so, "E", "none", True), sg(si, "E"), enc))
        # what the issuer publishes: a single key, an unreadable certificate first, a KeyDescriptor without certificate
        for shape in ([["signing", "idp2"]], [["signing", "J0"], ["signing", "idp"]], [[None, "B2"], ["signing", "idp"]],
                      [["encryption", "idp"], [None, "idp2"]], []):
            md = [ent("E", [copy.deepcopy(shape)]), ent("O", [[[None, "other"]]])]
            for so, si in (("idp", "idp2"), ("idp2", "idp"), ("idp", "idp"), ("idp2", "idp2"), ("idp", "attacker")):
                add(recv, True, chk2(sg(so, "E"), sg(si, "E")), md)
    # lives: doubly signed messages around metadata reloads
    gens = generations()
    for recv in recvs:
        for a, b in (("g0", "g1"), ("g1", "g0"), ("g0", "g2"), ("g0", "g3"), ("g0", "g4"), ("g4", "g0"), ("g2", "g5")):
            def dprobes(k):
                return [chk2(sg(*o), sg(*i), enc=(j + k) % 3 == 0) for j, (o, i) in enumerate(DPROBES)]
            ops = dprobes(0) + [{"op": "reload", "md": gens[b], "via": "entity"}] + dprobes(1)
            ops += [{"op": "reload", "md": gens[a], "via": "store"}, {"op": "reload_bad", "how": "xml"}] + dprobes(2)
            cases.append(life(recv, True, gens[a], ops, "D"))
    # seeded random messages in random lives
    names = sorted(gens)
    for _ in range(160 if thorough else 40):
        recv = rng.choice(recvs)
        only_md = rng.random() < 0.7
        ops = []
        for _ in range(rng.randint(3, 8)):
            r = rng.random()
            if r < 0.75:
                ki = ["none", "none", "signer", "victim", "rsa"]
                o = sg(rng.choice(SIGNERS), rng.choice(["E", "E", "E", "O", "U", "N"]), rng.choice(ki), rng.random() < 0.08)
                i = sg(rng.choice(SIGNERS), rng.choice(["E", "E", "E", "O", "U"]), rng.choice(ki), rng.random() < 0.08)
                if recv == "sp_assertion" and rng.random() < 0.2:
                    o = None
                elif recv == "sp_response" and rng.random() < 0.2:
                    i = None
                ops.append(chk2(o, i, rng.random() < 0.3))
            elif r < 0.93:
                ops.append({"op": "reload", "md": gens[rng.choice(names)], "via": rng.choice(["entity", "store"])})
            else:
                ops.append({"op": "reload_bad", "how": rng.choice(["xml", "type"])})
        if not any(o["op"] == "check" for o in ops):
            ops.append(chk2(sg("idp", "E"), sg("idp", "E")))
        cases.append(life(recv, only_md, gens[rng.choice(names)], ops, "D"))
    return cases


def eng(version):
    return {"op": "engine", "version": version}


def lk(via, ent, use, descriptor="any", md=None):
    o = {"op": "lookup", "via": via, "ent": ent, "use": use, "descriptor": descriptor}
    if md is not None:
        o["md"] = md
    return o


XML_KINDS = ["response", "assertion", "authnreq_post", "logoutreq_soap"]


def gen_engine(rng, thorough):
    """(E) the verifier itself: the xmlsec1 binary reports another VERSION (1.2.x / 1.3 / 1.3.x / 1.4 / a text that is
    no version) -- the code adapts its command line (--lax-key-search) and the way it reads the verdict to it; the
    key-data confinement must be there for every version.  Cells: version x kind x signer x KeyInfo {none, signer
    cert, victim cert, bare RSAKeyValue} x flag; doubly signed and encrypted messages; the binary replaced in the
    middle of a life (upgrade and downgrade), around reloads."""
    cases = []
    for v in VERSIONS:
        full = thorough or v == "1.3.7"
        for kind in (XML_KINDS if full else ("response", "authnreq_post")):
            for signer in (("idp", "idp2", "idpenc", "other", "attacker") if full else ("idp", "attacker")):
                for ki in (KEYINFO if full else ("none", "signer", "rsa")):
                    for only_md in ((True, False) if full else (True,)):
                        for claimed in (("E", "U") if full and signer in ("idp", "attacker") and ki != "victim" else ("E",)):
                            cases.append(life(RECV_OF_KIND[kind], only_md, G0(), [eng(v), chk(kind, signer, claimed, ki)], "E"))
        # the detached path does not go through the binary: unaffected by its version
        cases.append(life("idp", True, G0(), [eng(v), chk("redirect", "idp", "E"), chk("redirect", "attacker", "E")], "E"))
        # several signatures in one message, the Assertion plain or encrypted (decryption runs the binary too)
        for recv in ("sp_response", "sp_assertion"):
            ops = [eng(v)]
            for so, si, ko, ki, enc in (("idp", "idp2", "none", "none", False), ("idp", "attacker", "none", "rsa", False),
                                        ("attacker", "idp", "rsa", "none", False), ("idp", "attacker", "signer", "signer", True),
                                        ("idp", "idp", "rsa", "rsa", True), ("attacker", "attacker", "rsa", "rsa", False)):
                ops.append(chk2(sg(so, "E", ko), sg(si, "E", ki), enc))
            cases.append(life(recv, True, G0(), ops, "E"))
    # the binary is replaced while the receiver lives: every ordered pair of an old-style and a new-style version
    gens = generations()
    n = 0
    for recv, kinds in SEQ_RECV[:5]:
        for a, b in (("1.2.37", "1.3.7"), ("1.3.7", "1.2.37"), ("1.2.20", "1.4.0"), ("1.3.0", "unknown"), ("unknown", "1.3")):
            if not thorough and n % 2 and recv not in ("sp_response",):
                n += 1
                continue
            n += 1
            pr = lambda k: [chk(kinds[(k + i) % len(kinds)], sgn, cl, ki) for i, (sgn, cl, ki) in enumerate(
                (("idp", "E", "none"), ("attacker", "E", "rsa"), ("attacker", "E", "signer"), ("idp2", "E", "victim"),
                 ("idpenc", "E", "none"), ("other", "O", "rsa")))]
            ops = [eng(a)] + pr(0) + [eng(b)] + pr(1) + [{"op": "reload", "md": gens["g1"], "via": "entity"}] + pr(2)
            ops += [eng(a)] + pr(3)
            cases.append(life(recv, True, G0(), ops, "E"))
    return cases


def enc_shapes():
    """issuers whose encryption-only key differs from their signing key(s), in several document shapes"""
    o_enc = ent("O", [[["signing", "other"], ["encryption", "attacker"]]])
    return {
        "s0": G0(),                                                                              # signing x2, then encryption
        "s1": [ent("E", [[["encryption", "idpenc"], ["signing", "idp"]]]), o_enc],               # encryption first
        "s2": [ent("E", [[[None, "idp"], ["encryption", "idpenc"]]]), o_enc],                    # use-less + encryption
        "s3": [ent("E", [[["signing", "idp"], ["encryption", "idpenc"]], [["signing", "idp2"]]]), o_enc],  # AA role: other key
        "s4": [ent("E", [[["encryption", "idpenc"]]]), o_enc],                                   # encryption-only issuer
    }


# (signer, claimed issuer): the forgeries with an encryption-only key first
LPROBES = [("idpenc", "E"), ("idp", "E"), ("attacker", "O"), ("idp2", "E"), ("other", "O"), ("attacker", "E"), ("idpenc", "O")]


def gen_lookups(rng, thorough):
    """(F) what the receiver did BEFORE / BETWEEN the verifications besides verifying: certificates of the issuer asked
    for under ANOTHER use (encryption), another descriptor or by another entity instance of the process -- in every
    order relative to the first verification and to reloads.  MetaData.certs is read-only: none of this may change
    which certificates a signature is checked against."""
    cases = []
    shapes = enc_shapes()
    recvs = [("idp", ["authnreq_post"]), ("idp", ["redirect"]), ("sp_response", ["response"]),
             ("idp", ["logoutreq_soap"]), ("sp_assertion", ["assertion"]), ("idp", ["authnreq_post", "logoutreq_soap", "redirect"])]

    def lprobes(kinds, start=0, only=None):
        return [chk(kinds[(start + i) % len(kinds)], sgn, cl) for i, (sgn, cl) in enumerate(LPROBES) if only is None or i < only]

    foreign = [ent("E", [[["signing", "attacker"], ["encryption", "idp"]]]), ent("O", [[["signing", "idpenc"]]])]
    for ri, (recv, kinds) in enumerate(recvs):
        idp = recv == "idp"
        # the ways certificates get looked up without a verification
        looks = [[lk("certs", "E", "encryption")], [lk("certs", "E", "encryption", "role")],
                 [lk("certs", "O", "encryption"), lk("certs", "E", "encryption")],
                 [lk("instance", "E", "signing", md=foreign), lk("instance", "O", "signing", md=foreign)],
                 [lk("certs", "E", "signing", "attribute_authority"), lk("certs", "E", "encryption", "attribute_authority")]]
        if idp:
            looks = [[lk("response", "E", "encryption")], [lk("response_enc", "E", "encryption")],
                     [lk("response", "O", "encryption"), lk("response", "E", "encryption")]] + looks
        for li, look in enumerate(looks):
            for sname in sorted(shapes):
                # quick tier: every shape for the encryption lookups on one receiver per verification path; the default
                # shape (+ the one with a second role descriptor for the descriptor-specific lookups) elsewhere
                main_look = li < 2 + 3 * idp
                if not thorough and not (sname == "s0" or (ri < 3 and main_look) or (sname == "s3" and not main_look)):
                    continue
                md = shapes[sname]
                # the lookup comes first; a verification comes first; lookup, reload, verification; reload, lookup, ...
                cases.append(life(recv, True, md, look + lprobes(kinds), "F"))
                if thorough or sname in ("s0", "s3") or li == 0:
                    cases.append(life(recv, True, md, lprobes(kinds, 1, 2) + look + lprobes(kinds), "F"))
                if thorough or (sname == "s0" and (li < 5 or ri < 3)) or (li == 0 and ri < 3):
                    cases.append(life(recv, True, md, look + [{"op": "reload", "md": md, "via": ("entity", "store")[li % 2]}]
                                      + lprobes(kinds, 2), "F"))
                    other = shapes["s1" if sname != "s1" else "s0"]
                    cases.append(life(recv, True, other, lprobes(kinds, 0, 3) + [{"op": "reload", "md": md, "via": "entity"}] + look
                                      + lprobes(kinds, 1) + [{"op": "reload_bad", "how": "xml"}] + look + lprobes(kinds, 2, 3), "F"))
        # signing asked first, then encryption, then verify -- and the reverse; both uses of both members interleaved
        md = shapes["s0"]
        cases.append(life(recv, True, md, [lk("certs", "E", "signing"), lk("certs", "E", "encryption")] + lprobes(kinds), "F"))
        cases.append(life(recv, True, md, [lk("certs", "E", "encryption"), lk("certs", "E", "signing")] + lprobes(kinds), "F"))
        cases.append(life(recv, False, shapes["s4"], [lk("certs", "E", "encryption")]
                          + [chk(kinds[0], sgn, "E", "signer") for sgn in ("idpenc", "attacker", "idp")], "F"))
    # seeded random lives over everything: verifications, reloads, failed reloads, lookups, replaced binaries
    names = sorted(shapes)
    gens = generations()
    for _ in range(240 if thorough else 50):
        recv, kinds = recvs[rng.randrange(len(recvs))]
        only_md = rng.random() < 0.8
        ops = []
        for _ in range(rng.randint(5, 12)):
            r = rng.random()
            if r < 0.5:
                sgn, cl = rng.choice(LPROBES + [("idpenc", "E")] * 3)
                ops.append(chk(rng.choice(kinds), sgn, cl, rng.choice(["none", "none", "signer", "rsa"]) if not only_md else
                               rng.choice(["none", "none", "none", "rsa"])))
            elif r < 0.78:
                via = rng.choice(["certs", "certs", "response", "response_enc", "instance"] if recv == "idp" else ["certs", "certs", "instance"])
                o = lk(via, rng.choice(["E", "E", "O", "U"]), "encryption" if via.startswith("response") else rng.choice(["encryption", "encryption", "signing"]),
                       rng.choice(["any", "any", "role", "attribute_authority"]) if via == "certs" else "any",
                       md=foreign if via == "instance" else None)
                ops.append(o)
            elif r < 0.9:
                mdx = shapes[rng.choice(names)] if rng.random() < 0.7 else gens[rng.choice(sorted(gens))]
                ops.append({"op": "reload", "md": mdx, "via": rng.choice(["entity", "store"])})
            elif r < 0.94:
                ops.append({"op": "reload_bad", "how": rng.choice(["xml", "type"])})
            else:
                ops.append(eng(rng.choice(VERSIONS + [DEFAULT_VERSION])))
        if not any(o["op"] == "check" for o in ops):
            ops.append(chk(kinds[0], "idpenc", "E"))
        cases.append(life(recv, only_md, shapes[rng.choice(names)], ops, "F"))
    return cases


def generate(ctx):
    # parts E and F come last: the seeded stream of the earlier parts (and so their cases) stays what it was
    cases = gen_cells() + gen_shapes(ctx.rng, ctx.thorough) + gen_lives(ctx.rng, ctx.thorough) + gen_multi(ctx.rng, ctx.thorough)
    return cases + gen_engine(ctx.rng, ctx.thorough) + gen_lookups(ctx.rng, ctx.thorough)


# ------------------------------------------------------------------------------------ running the real code
_rcv = {}


def make_receiver(recv, only_md, md):
    xml = md_xml(recv, md)
    if recv.startswith("sp"):
        over = {"only_use_keys_in_metadata": only_md, "metadata_xml": xml}
        if recv == "sp_assertion":
            over["sp_want_response_signed"] = False
            over["sp_want_assertions_signed"] = True
        return world.make_sp(**over)
    return world.make_idp(metadata_xml=xml, only_use_keys_in_metadata=only_md, key_file=fixtures.key_path("sp"),
                          cert_file=fixtures.cert_path("sp"), idp_want_authn_requests_signed=True)


def receiver(case):
    """A life without reloads leaves no trace in the receiver: such receivers are shared between cases (as
    before); a life with reloads gets a receiver of its own."""
    if any(o["op"] != "check" for o in case["ops"]):
        return make_receiver(case["recv"], case["only_md"], case["md"])
    key = json.dumps([case["recv"], case["only_md"], case["md"]], sort_keys=True)
    r = _rcv.get(key)
    if r is None:
        if len(_rcv) > 64:
            _rcv.clear()
        r = _rcv[key] = make_receiver(case["recv"], case["only_md"], case["md"])
    return r


def keyinfo_for(c):
    if c is None:
        return None
    ki = c["keyinfo"]
    if ki == "none":
        return None
    if ki == "signer":
        return ("x509", c["signer"])
    if ki == "victim":
        return ("x509", "idp")
    return ("rsa", c["signer"])


_msg = {}


def message2(recv, c):
    """A Response with up to two independent signatures: sign the Assertion, alter what only the inner signature
    covers, encrypt, sign the Response, alter what only the outer signature covers."""
    ids = ids_for_recv(recv)
    o, i = c["outer"], c["inner"]
    a_issuer = ids[i["claimed"]] if i else ids[o["claimed"] if o["claimed"] != "N" else "E"]
    r_issuer = (None if o["claimed"] == "N" else ids[o["claimed"]]) if o else a_issuer
    a = spaccept.good_assertion(issuer=a_issuer)
    r = spaccept.good_response(issuer=r_issuer)
    if i:
        a["sig_template"] = render.signature_template(a["id"], keyinfo_for(i))
    r["assertions_xml"] = [render.assertion(a)]
    if o:
        r["sig_template"] = render.signature_template(r["id"], keyinfo_for(o))
    xml = render.response(r)
    if i:
        xml = render.sign_xml(xml, i["signer"], render.A_ELEM, a["id"])
        if i["tampered"]:
            xml = render.tamper_text(xml, "subject-1", "subject-2")
    if c["enc"]:
        xml = render.encrypt_assertion_in_response(xml, "sp")
    if o:
        xml = render.sign_xml(xml, o["signer"], render.R_ELEM, r["id"])
        if o["tampered"]:       # the Response's own IssueInstant (first in document order), one second earlier
            xml = render.tamper_text(xml, 'IssueInstant="%s"' % env.iso(spaccept.NOW), 'IssueInstant="%s"' % env.iso(spaccept.NOW - 1))
    return ("xml", xml)


def message(recv, c):
    """The signed message of one verification (rendered and signed independently of pysaml2; memoised: the
    same octets may be presented many times in one life)."""
    if c["kind"] == "signed_response":
        key = (recv, json.dumps(c, sort_keys=True))
        if key not in _msg:
            _msg[key] = message2(recv, c)
        return _msg[key]
    key = (recv, c["kind"], c["signer"], c["claimed"], c["keyinfo"], bool(c["tampered"]))
    if key in _msg:
        return _msg[key]
    kind = c["kind"]
    issuer = ids_for_recv(recv)[c["claimed"]]
    ki = keyinfo_for(c)
    if kind in ("response", "assertion"):
        a = spaccept.good_assertion(issuer=issuer)
        r = spaccept.good_response(issuer=issuer)
        if kind == "response":
            xml = spaccept.build(r, [a], sign_response=c["signer"], keyinfo=ki)
        else:
            xml = spaccept.build(r, [a], sign_response=None, sign_assertions=[c["signer"]], keyinfo=ki)
        if c["tampered"]:
            xml = render.tamper_text(xml, "subject-1", "subject-2")
        out = ("xml", xml)
    else:
        q = {"id": "q-1", "issue_instant": env.iso(spaccept.NOW), "issuer": issuer}
        if kind == "authnreq_post":
            q.update(destination=world.IDP_SSO_POST, acs_url=world.SP_ACS_POST, protocol_binding=world.BINDING_HTTP_POST)
            q["sig_template"] = render.signature_template("q-1", ki)
            xml = render.sign_xml(render.request("AuthnRequest", q), c["signer"], render.ELEM["AuthnRequest"], "q-1")
            if c["tampered"]:
                xml = render.tamper_text(xml, "acs/post", "acs/pos2")
            out = ("xml", xml)
        elif kind == "logoutreq_soap":
            q.update(destination=world.IDP_SLO_SOAP)
            q["sig_template"] = render.signature_template("q-1", ki)
            xml = render.sign_xml(render.request("LogoutRequest", q), c["signer"], render.ELEM["LogoutRequest"], "q-1")
            if c["tampered"]:
                xml = render.tamper_text(xml, "subject-1", "subject-2")
            out = ("xml", xml)
        else:
            q.update(destination=world.IDP_SSO_REDIRECT, acs_url=world.SP_ACS_POST, protocol_binding=world.BINDING_HTTP_POST)
            enc = render.deflate_b64(render.request("AuthnRequest", q))
            sig = render.detached_signature(c["signer"], enc, "rs-1", SIG256)
            out = ("redirect", enc, sig, "rs-2" if c["tampered"] else "rs-1")
    _msg[key] = out
    return out


def run_check(rcv, recv, c):
    kind = c["kind"]
    msg = message(recv, c)
    accepted = False
    exc = None
    del HANDED[:]
    if kind in ("response", "assertion", "signed_response"):
        from saml2.population import Population

        rcv.users = Population()
        o = spaccept.observe(rcv, msg[1], world.BINDING_HTTP_POST, {"req-1": "/"})
        accepted, exc = o["identity"], o["exc"]
    else:
        try:
            if kind == "authnreq_post":
                res = rcv.parse_authn_request(render.b64(msg[1]), world.BINDING_HTTP_POST)
            elif kind == "logoutreq_soap":
                res = rcv.parse_logout_request(render.soap_envelope(msg[1]), world.BINDING_SOAP)
            else:
                res = rcv.parse_authn_request(msg[1], world.BINDING_HTTP_REDIRECT, relay_state=msg[3], sigalg=SIG256,
                                              signature=msg[2])
            accepted = res is not None and getattr(res, "message", None) is not None
        except Exception as e:  # noqa
            exc = type(e).__name__
    # the certificates handed to a verifier, per signed element (xmlsec1 is told the element by --node-id; the
    # in-process verification of a query string has none); a verification of anything else gets a list of its own
    nodes = [n for n, _ in parts_of(c)]
    handed = [[] for _ in nodes]
    stray = []
    for n, h in HANDED:
        if n in nodes:
            handed[nodes.index(n)].append(list(h))
        else:
            stray.append(list(h))
    if stray:
        handed.append(stray)
    return {"accept": bool(accepted), "handed": handed, "exc": exc}


def role_of_peer(recv):
    return "idpsso" if recv.startswith("sp") else "spsso"


def run_lookup(rcv, recv, o):
    """Certificates of an entity are asked for, for another purpose than a verification (read-only in a correct
    implementation).  via: certs = MetadataStore.certs(entity, descriptor, use) as an application may call it;
    response / response_enc = the IdP produces a plain / an encrypted Response for that SP (Entity._response ->
    has_encrypt_cert_in_metadata, _encrypt_assertion: the ENCRYPTION certificates); instance = ANOTHER entity
    instance of the same kind, living in the same process with other metadata, does the lookup."""
    eid = ids_for_recv(recv)[o["ent"]]
    via = o["via"]
    try:
        if via in ("response", "response_enc") and not recv.startswith("sp"):
            from saml2 import saml

            resp = rcv.create_authn_response(
                identity={}, in_response_to=None, destination=world.SP_ACS_POST, sp_entity_id=eid, userid="user-1",
                name_id=saml.NameID(text="user-1", format=saml.NAMEID_FORMAT_PERSISTENT),
                authn={"class_ref": saml.AUTHN_PASSWORD_PROTECTED, "authn_auth": world.IDP_ID},
                sign_response=False, sign_assertion=False, encrypt_assertion=(via == "response_enc"))
            return {"lookup": "EncryptedAssertion" in str(resp)}
        target = rcv
        if via == "instance":
            target = make_receiver(recv, True, o["md"])
            install_hooks()
        desc = o.get("descriptor", "any")
        res = target.metadata.certs(eid, role_of_peer(recv) if desc == "role" else desc, o["use"])
        return {"lookup": [_by_body.get("".join(str(c).split()), ["G", 99]) for _, c in res]}
    except Exception as e:  # noqa
        return {"lookup": type(e).__name__}


def observe(case):
    install_hooks()
    ENGINE["version"] = DEFAULT_VERSION
    del CALLS[:]
    rcv = receiver(case)
    install_hooks()     # world.make_* re-installs the plain stand-in
    del CALLS[:]
    recv = case["recv"]
    steps = []
    for o in case["ops"]:
        if o["op"] == "check":
            steps.append(run_check(rcv, recv, o))
        elif o["op"] == "lookup":
            steps.append(run_lookup(rcv, recv, o))
        elif o["op"] == "engine":
            ENGINE["version"] = o["version"]
            steps.append({"engine": o["version"]})
        elif o["op"] == "reload":
            conf = {"inline": md_xml(recv, o["md"])}
            try:
                if o["via"] == "entity":
                    ok = bool(rcv.reload_metadata(conf))
                else:
                    rcv.metadata.reload(conf)
                    ok = True
            except Exception as e:  # noqa
                ok = type(e).__name__
            steps.append({"reload": ok})
        else:
            conf = {"inline": ["<md:EntityDescriptor"]} if o["how"] == "xml" else {"nosuchtype": ["x"]}
            try:
                ok = bool(rcv.reload_metadata(conf))
            except Exception as e:  # noqa
                ok = type(e).__name__
            steps.append({"reload": ok})
    ENGINE["version"] = DEFAULT_VERSION
    calls = []
    for c in CALLS:
        if c not in calls:
            calls.append(list(c))
    return {"steps": steps, "calls": calls}


# ------------------------------------------------------------------------------------ Coq terms
def coq_part(recv, p, detached=False):
    ki = p["keyinfo"]
    if detached or ki in ("none", "rsa"):
        emb = []
    elif ki == "signer":
        emb = [["G", KEYS[p["signer"]]]]
    else:
        emb = [["G", 1]]
    claimed = "None" if p["claimed"] == "N" else "(Some %s)" % cq_id(ids_for_recv(recv)[p["claimed"]])
    return "%s [%s] %s %d%%nat %s" % (claimed, "; ".join(coq_cert(x) for x in emb), cq(detached), KEYS[p["signer"]],
                                    cq(bool(p["tampered"])))


def coq_check(recv, c):
    if c["kind"] == "signed_response":
        # the receiver's configuration insists on the Response's signature (sp_response) / the Assertion's (sp_assertion)
        insist = {"r-1": recv == "sp_response", "a-1": recv == "sp_assertion"}
        return "ckm [%s]" % "; ".join("pt %s %s" % (cq(insist[n]), coq_part(recv, p)) for n, p in parts_of(c))
    return "ck " + coq_part(recv, c, c["kind"] == "redirect")


def coq_out(st):
    return "(%s, [%s])" % (cq(bool(st["accept"])), "; ".join("[%s]" % "; ".join(coq_cert(h) for h in hs) for hs in st["handed"]))


def coq_version(text):
    return "[%s]" % "; ".join("%d%%nat" % n for n in vnums(text))


def coq_case(case, obs):
    recv = case["recv"]
    ids = ids_for_recv(recv)
    ops, outs = [], []
    for o, st in zip(case["ops"], obs["steps"]):
        if o["op"] == "check":
            ops.append(coq_check(recv, o))
            outs.append(coq_out(st))
        elif o["op"] == "reload":
            # a reload of well-formed metadata is a Reload in the model whatever the real call answered: a
            # refused reload then shows as a disagreement / failure of the following verifications
            ops.append("Reload (%s)" % coq_md(recv, o["md"]))
        elif o["op"] == "lookup":
            ops.append("Lookup %s %s" % (cq_id(ids[o["ent"]]), "Encryption" if o["use"] == "encryption" else "Signing"))
        elif o["op"] == "engine":
            ops.append("Engine %s" % coq_version(o["version"]))
        else:
            ops.append("ReloadFailed")
    calls = "; ".join("(%s, %s, %s)" % (coq_version(v), cq(bool(c)), cq(bool(l))) for v, c, l in obs.get("calls", []))
    return "C03.Corr.mkseq (%s) %s [%s] [%s] [%s]" % (coq_md(recv, case["md"]), cq(bool(case["only_md"])), "; ".join(ops),
                                                  "; ".join(outs), calls)


def nontrivial(case, obs):
    if case["part"] == "A":
        c = case["ops"][0]
        key = (c["kind"], c["signer"], c["claimed"], c["keyinfo"], case["only_md"], c["tampered"])
        if key[1:] == ("idp", "E", "none", True, False):
            return None
        return key
    return (case["part"], hashlib.sha1(json.dumps(case, sort_keys=True).encode()).hexdigest()[:16])


def histogram(cases, observed):
    h = {"by_part": {}, "by_recv": {}, "verifications": 0, "reloads": 0, "failed_reloads": 0, "reloads_refused": 0,
         "accepted": 0, "rejected": 0, "exceptions": {}, "handed_lengths": {}, "unreadable_handed": 0,
         "ops_per_life": {}, "signatures_per_message": {}, "encrypted_assertions": 0, "lookups": {}, "lookup_answers": {},
         "engine_changes": {}, "xmlsec1_calls": {}, "verifications_by_engine": {}}
    for c, o in zip(cases, observed):
        for v, conf, lax in o.get("calls", []):
            k = "%s confined=%s lax=%s" % (v, conf, lax)
            h["xmlsec1_calls"][k] = h["xmlsec1_calls"].get(k, 0) + 1
        engine = DEFAULT_VERSION
        h["by_part"][c["part"]] = h["by_part"].get(c["part"], 0) + 1
        h["by_recv"][c["recv"]] = h["by_recv"].get(c["recv"], 0) + 1
        n = str(len(c["ops"]))
        h["ops_per_life"][n] = h["ops_per_life"].get(n, 0) + 1
        for op, st in zip(c["ops"], o["steps"]):
            if op["op"] == "reload":
                h["reloads"] += 1
                if st["reload"] is not True:
                    h["reloads_refused"] += 1
            elif op["op"] == "reload_bad":
                h["failed_reloads"] += 1
            elif op["op"] == "lookup":
                k = "%s %s %s %s" % (op["via"], op["ent"], op.get("descriptor", "any"), op["use"])
                h["lookups"][k] = h["lookups"].get(k, 0) + 1
                a = st["lookup"] if isinstance(st["lookup"], (str, bool)) else "%d certificate(s)" % len(st["lookup"])
                h["lookup_answers"][str(a)] = h["lookup_answers"].get(str(a), 0) + 1
            elif op["op"] == "engine":
                engine = op["version"]
                h["engine_changes"][engine] = h["engine_changes"].get(engine, 0) + 1
            else:
                h["verifications_by_engine"][engine] = h["verifications_by_engine"].get(engine, 0) + 1
                h["verifications"] += 1
                h["accepted" if st["accept"] else "rejected"] += 1
                flat = [x for hs in st["handed"] for x in hs]
                k = str(len(flat))
                h["handed_lengths"][k] = h["handed_lengths"].get(k, 0) + 1
                h["unreadable_handed"] += sum(1 for x in flat if x[0] == "J")
                k = str(len(parts_of(op)))
                h["signatures_per_message"][k] = h["signatures_per_message"].get(k, 0) + 1
                if op["kind"] == "signed_response" and op["enc"]:
                    h["encrypted_assertions"] += 1
                if st["exc"]:
                    h["exceptions"][st["exc"]] = h["exceptions"].get(st["exc"], 0) + 1
    return h


def shrink(case, ctx):
    """The driver replays the SMALLEST failing life; that may be one whose only fault is how the verifier was invoked
    or which certificate it was handed.  Look in the same life for the forgery that the fault lets through: every
    verification in turn re-signed with a key the claimed issuer does not publish for signing (the unknown attacker
    key carried as a bare RSAKeyValue / as a certificate, the issuer's encryption-only key); the first variant in
    which such a message is ACCEPTED is the replay.  Otherwise the life as it is."""
    try:
        for signer, ki in (("attacker", "rsa"), ("attacker", "signer"), ("idpenc", "none"), ("attacker", "none")):
            for i, o in enumerate(case["ops"]):
                if o["op"] != "check" or o["kind"] == "signed_response" or o.get("claimed") != "E":
                    continue
                if not case["only_md"] and ki == "signer":
                    continue
                v = copy.deepcopy(case)
                v["ops"][i].update(signer=signer, keyinfo=ki if o["kind"] != "redirect" else o["keyinfo"], tampered=False)
                published = any(u != "encryption" and n == signer for e in case["md"] if e["label"] == "E"
                                for role in e["roles"] for u, n in role)
                if any(x["op"] == "reload" for x in case["ops"][:i]) or published:
                    continue
                if observe(v)["steps"][i].get("accept"):
                    return v
    except Exception:  # noqa
        pass
    return case


def explain_term(t):
    return "C03.Corr.explain (%s)" % t


# ------------------------------------------------------------------------------------ source tie, translator v2
# Decision functions of the anchored code are re-translated from the CURRENT source text on every run into
# coq/gen/C03Src2.v; coq/theories/C03/Source2.v proves, for all inputs, that each translated function applied to the
# encoding of the model's input is the encoding of what the model function it mirrors answers.
SLICE_DIR = None


def _slice_dir():
    import os
    from harness import common

    d = os.path.join(common.WORK, "C03", "slices")
    os.makedirs(d, exist_ok=True)
    return d


def _cut(src_rel, qualname, out_name, header, pick, footer=""):
    """Cut consecutive top-level statements out of the body of `qualname` (CURRENT source text) into a function of
    its own: work/C03/slices/<out_name>.py.  pick(body) -> (first index, last index) or None.  When the block cannot be
    found the file holds no function and the translation is refused (poisoned definition = broken obligation)."""
    import ast
    import os
    from harness import common, py2coq2

    out = os.path.join(_slice_dir(), out_name + ".py")
    text = "# slice not found\n"
    try:
        with open(os.path.join(env.SRC, "saml2", src_rel)) as f:
            src = f.read()
        fn = py2coq2.find_function(ast.parse(src), qualname)
        rng_ = pick(fn.body)
        if rng_ is not None:
            ranges = rng_ if isinstance(rng_, list) else [rng_]
            lines = src.splitlines()
            keep = []
            for i, j in ranges:
                keep += lines[fn.body[i].lineno - 1:fn.body[j].end_lineno]
            text = "# cut from saml2/%s %s, lines %s\n%s\n%s\n%s" % (
                src_rel, qualname, ", ".join("%d-%d" % (fn.body[i].lineno, fn.body[j].end_lineno) for i, j in ranges),
                header, "\n".join(keep), footer)
    except Exception as e:  # fail closed
        text = "# slice failed: %s\n" % type(e).__name__
    common.write_if_changed(out, text)
    return out


def _is_assign_to(st, name):
    import ast

    return (isinstance(st, ast.Assign) and len(st.targets) == 1 and isinstance(st.targets[0], ast.Name)
            and st.targets[0].id == name)


def _one(xs):
    return xs[0] if len(xs) == 1 else None


def slice_select():
    """_check_signature, certificate selection: from the first statement (`try: _issuer = item.issuer.text.strip()`)
    up to and including `if not certs: raise MissingKey(_issuer)`; the harness adds the header and `return certs`."""
    import ast

    def pick(body):
        body0 = 1 if (isinstance(body[0], ast.Expr) and isinstance(getattr(body[0], "value", None), ast.Constant)) else 0
        end = _one([k for k, st in enumerate(body) if isinstance(st, ast.If) and len(st.body) == 1
                    and isinstance(st.body[0], ast.Raise) and isinstance(st.body[0].exc, ast.Call)
                    and getattr(st.body[0].exc.func, "id", None) == "MissingKey"])
        return None if end is None or not isinstance(body[body0], ast.Try) else (body0, end)

    return _cut("sigver.py", "SecurityContext._check_signature", "sigver_check_signature_select",
                "def _check_signature__select(self, item, issuer):", pick, "        return certs\n")


def slice_verify():
    """_check_signature, verification loop: from `verified = False` to the end of the method (`return item`)."""
    def pick(body):
        i = _one([k for k, st in enumerate(body) if _is_assign_to(st, "verified")])
        return None if i is None else (i, len(body) - 1)

    return _cut("sigver.py", "SecurityContext._check_signature", "sigver_check_signature_verify",
                "def _check_signature__verify(self, decoded_xml, item, node_name, certs, only_valid_cert):", pick)


def slice_certs_outer():
    """MetaData.certs without its nested function: the statement before `def extract_certs` (`ent = self[entity_id]`)
    and the statements after it (the walk over the role descriptors)."""
    import ast

    def pick(body):
        i = _one([k for k, st in enumerate(body) if isinstance(st, ast.FunctionDef) and st.name == "extract_certs"])
        ok = i is not None and i >= 1 and _is_assign_to(body[i - 1], "ent") and i + 1 < len(body)
        # side condition of the tie: `metadata.certs(...)` IS MetaData.certs -- no class of the module (MetadataStore,
        # the loaders) overrides it; otherwise the theorem would speak of a function the receiver does not call
        if _overriders("mdstore.py", "MetaData", "certs"):
            return None
        return [(i - 1, i - 1), (i + 1, len(body) - 1)] if ok else None

    return _cut("mdstore.py", "MetaData.certs", "mdstore_certs_outer",
                "def certs__outer(self, entity_id, descriptor, use):", pick)


def _overriders(src_rel, base, method):
    """classes of that module other than `base` that define `method` (a subclass overriding it would take the calls
    that the theorem about base.method speaks of)"""
    import ast
    import os

    with open(os.path.join(env.SRC, "saml2", src_rel)) as f:
        tree = ast.parse(f.read())
    return [c.name for c in tree.body if isinstance(c, ast.ClassDef) and c.name != base
            and any(isinstance(x, (ast.FunctionDef, ast.AsyncFunctionDef, ast.Assign)) and
                    (getattr(x, "name", None) == method or
                     any(getattr(t, "id", None) == method for t in getattr(x, "targets", []))) for x in c.body)]


def slice_cmdline():
    """CryptoBackendXmlSec1.validate_signature, the --verify command line: from `com_list = [...]` up to (not
    including) the `try:` that runs it; the harness adds the header and `return com_list`.  Whatever the method does
    to the list in between (e.g. options that depend on the version of the binary) is part of the block."""
    import ast

    def pick(body):
        i = _one([k for k, st in enumerate(body) if _is_assign_to(st, "com_list")])
        j = _one([k for k, st in enumerate(body) if isinstance(st, ast.Try)])
        return None if i is None or j is None or j <= i else (i, j - 1)

    return _cut("sigver.py", "CryptoBackendXmlSec1.validate_signature", "sigver_validate_signature_cmdline",
                "def validate_signature__cmdline(self, cert_file, cert_type, node_name, node_id, tmp):", pick,
                "        return com_list\n")


def slice_assertion_sig():
    """AuthnResponse._assertion, the signature step: its first statement (if unsigned ... else check_signature)."""
    import ast

    def pick(body):
        body0 = 1 if (isinstance(body[0], ast.Expr) and isinstance(getattr(body[0], "value", None), ast.Constant)) else 0
        return (body0, body0) if isinstance(body[body0], ast.If) else None

    return _cut("response.py", "AuthnResponse._assertion", "response_assertion_sig",
                "def _assertion__sig(self, assertion, verified):", pick, "        return True\n")


def slice_plain_assertions():
    """AuthnResponse.parse_assertion, the unencrypted assertions: the statement `if self.response.assertion: for
    assertion in ...: if not self._assertion(assertion, <verified>): return False`; the harness adds `return True`."""
    import ast

    def pick(body):
        def hit(st):
            return (isinstance(st, ast.If) and isinstance(st.test, ast.Attribute) and st.test.attr == "assertion"
                    and any(isinstance(x, ast.For) for x in st.body)
                    and any(isinstance(c, ast.Call) and getattr(c.func, "attr", None) == "_assertion" for c in ast.walk(st)))
        i = _one([k for k, st in enumerate(body) if hit(st)])
        return None if i is None else (i, i)

    return _cut("response.py", "AuthnResponse.parse_assertion", "response_parse_assertion_plain",
                "def parse_assertion__plain(self, keys):", pick, "        return True\n")


SRC2_EXC = {"SignatureError": ["SigverError", "SAMLError", "Exception"], "MissingKey": ["SigverError", "SAMLError", "Exception"],
            "XmlsecError": ["SigverError", "SAMLError", "Exception"], "CertificateError": ["SigverError", "SAMLError", "Exception"],
            "SigverError": ["SAMLError", "Exception"], "SAMLError": ["Exception"]}


def src2_items():
    import os

    S = os.path.join(env.SRC, "saml2")
    any_signing = ['(PStr "any")', '(PStr "signing")']
    return [
        # the KeyDescriptor use filter; a KeyDescriptor without certificate text contributes nothing
        (os.path.join(S, "mdstore.py"), "MetaData.certs.extract_certs",
         {"name": "src2_extract_certs", "params": ["srvs"],
          "extra_params": [("repack", "pyval -> pyval"), ("v_use", "pyval")], "globals": {"use": "v_use"},
          "calls": {"repack_cert": lambda a: "(repack %s)" % a[0] if len(a) == 1 else "PErr"}}),
        # the walk over the role descriptors of the entity looked up under the issuer's entityID
        (slice_certs_outer(), "certs__outer",
         {"name": "src2_certs_outer", "params": ["self", "entity_id", "descriptor", "use"],
          "extra_params": [("repack", "pyval -> pyval")],
          "calls": {"extract_certs": lambda a: "(src2_extract_certs repack v_use %s)" % a[0] if len(a) == 1 else "PErr"}}),
        # certificate selection: metadata first, embedded certificates only as the opt-in fallback, none => MissingKey
        (slice_select(), "_check_signature__select",
         {"name": "src2_select", "params": ["self", "item", "issuer"], "attr_errors": True, "exc_parents": SRC2_EXC,
          "extra_params": [("md_certs", "pyval -> pyval"), ("pem", "pyval -> pyval"), ("mk_temp", "pyval -> pyval"),
                           ("instance_certs", "pyval -> pyval")],
          "ignore_calls": ["logger.debug"],
          "calls": {"self.metadata.certs": lambda a: "(md_certs %s)" % a[0] if a[1:] == any_signing else "PErr",
                    "pem_format": lambda a: "(pem %s)" % a[0] if len(a) == 1 else "PErr",
                    "make_temp": lambda a, kw: "(mk_temp %s)" % (a[0] if a else kw.get("content", "PErr")),
                    "cert_from_instance": lambda a: "(instance_certs %s)" % a[0] if len(a) == 1 else "PErr"}}),
        # the verification loop: xmlsec1 is handed ONE certificate at a time, first success wins, none => SignatureError
        (slice_verify(), "_check_signature__verify",
         {"name": "src2_verify_loop", "params": ["self", "decoded_xml", "item", "node_name", "certs", "only_valid_cert"],
          "attr_errors": True, "exc_parents": SRC2_EXC,
          "extra_params": [("verify_sig", "pyval -> pyval -> pyval -> pyval -> pyval"), ("verify_cert", "pyval -> pyval")],
          "ignore_calls": ["logger.error"],
          "calls": {"self.verify_signature": lambda a, kw: "(verify_sig %s %s %s %s)" % (a[0], a[1], kw["node_name"], kw["node_id"])
                    if len(a) == 2 and sorted(kw) == ["node_id", "node_name"] else "PErr",
                    "self.cert_handler.verify_cert": lambda a: "(verify_cert %s)" % a[0] if len(a) == 1 else "PErr"}}),
        # detached (query string) signatures: SOME signing certificate of the sender verifies; octets that are no
        # certificate are passed over
        (os.path.join(S, "request.py"), "Request._do_redirect_sig_check",
         {"name": "src2_redirect_sig_check", "params": ["self", "_saml_msg"], "attr_errors": True,
          "extra_params": [("sender", "pyval -> pyval"), ("md_certs", "pyval -> pyval"), ("verify_sig", "pyval -> pyval -> pyval")],
          "ignore_calls": ["logger.debug", "logger.warning"],
          "calls": {"self.sender": lambda a: "(sender v_self)" if not a else "PErr",
                    "self.sec.metadata.certs": lambda a: "(md_certs %s)" % a[0] if a[1:] == any_signing else "PErr",
                    "verify_redirect_signature": lambda a: "(verify_sig %s %s)" % (a[0], a[2]) if len(a) == 3 else "PErr"}}),
        # the Assertion inside a Response: its own signature is verified unless the caller says it already was
        (slice_assertion_sig(), "_assertion__sig",
         {"name": "src2_assertion_sig", "params": ["self", "assertion", "verified"], "attr_errors": True, "exc_parents": SRC2_EXC,
          "extra_params": [("check_sig", "pyval -> pyval -> pyval -> pyval")],
          "ignore_calls": ["logger.debug", "logger.error"],
          "calls": {"self.sec.check_signature": lambda a: "(check_sig %s %s %s)" % tuple(a) if len(a) == 3 else "PErr",
                    "class_name": lambda a: '(p2_attr_x %s "c_node_name")' % a[0] if len(a) == 1 else "PErr"}}),
        # the xmlsec1 --verify command line: confined to the certificate file, for every version of the binary
        (slice_cmdline(), "validate_signature__cmdline",
         {"name": "src2_verify_cmdline", "params": ["self", "cert_file", "cert_type", "node_name", "node_id", "tmp"],
          "attr_errors": True}),
        # every plain Assertion of a Response goes through _assertion with verified = False
        (slice_plain_assertions(), "parse_assertion__plain",
         {"name": "src2_plain_assertions", "params": ["self", "keys"], "attr_errors": True,
          "extra_params": [("assertion_ok", "pyval -> pyval -> pyval")],
          "ignore_calls": ["logger.debug"],
          "calls": {"self._assertion": lambda a: "(assertion_ok %s %s)" % tuple(a) if len(a) == 2 else "PErr"}}),
    ]


def regenerate_tables(ctx):
    import os
    from harness import common, py2coq2

    info = py2coq2.regenerate(os.path.join(common.GEN, "C03Src2.v"), src2_items())
    info["unit"] = "functions re-translated from the current source text (translator v2); C03/Source2.v: one theorem each"
    return info
