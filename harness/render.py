"""Independent renderer: SAML messages from abstract specs by string templates.

No pysaml2 element class is used here; signing goes through the xmlsec1
stand-in's Python entry points.
"""
import base64
import os
import tempfile
import zlib
from xml.sax.saxutils import escape, quoteattr

from harness import env, fixtures

NS_DECL = (
    'xmlns:samlp="urn:oasis:names:tc:SAML:2.0:protocol" '
    'xmlns:saml="urn:oasis:names:tc:SAML:2.0:assertion" '
    'xmlns:ds="http://www.w3.org/2000/09/xmldsig#" '
    'xmlns:xs="http://www.w3.org/2001/XMLSchema" '
    'xmlns:xsi="http://www.w3.org/2001/XMLSchema-instance"'
)
STATUS_SUCCESS = "urn:oasis:names:tc:SAML:2.0:status:Success"
SCM_BEARER = "urn:oasis:names:tc:SAML:2.0:cm:bearer"
NAMEID_TRANSIENT = "urn:oasis:names:tc:SAML:2.0:nameid-format:transient"
AC_PASSWORD = "urn:oasis:names:tc:SAML:2.0:ac:classes:Password"
NF_URI = "urn:oasis:names:tc:SAML:2.0:attrname-format:uri"
NF_BASIC = "urn:oasis:names:tc:SAML:2.0:attrname-format:basic"
NF_UNSPEC = "urn:oasis:names:tc:SAML:2.0:attrname-format:unspecified"

SIG_SHA256 = "http://www.w3.org/2001/04/xmldsig-more#rsa-sha256"
DIG_SHA256 = "http://www.w3.org/2001/04/xmlenc#sha256"
EXC_C14N = "http://www.w3.org/2001/10/xml-exc-c14n#"
ENVELOPED = "http://www.w3.org/2000/09/xmldsig#enveloped-signature"


def attr(name, val):
    return "" if val is None else " %s=%s" % (name, quoteattr(val))


def signature_template(ref_id, keyinfo=None, sig_alg=SIG_SHA256, dig_alg=DIG_SHA256, c14n=EXC_C14N,
                       transforms=(ENVELOPED, EXC_C14N), extra_refs="", extra_children=""):
    """keyinfo: None | ('x509', certname) | ('rsa', certname)"""
    ki = ""
    if keyinfo:
        kind, name = keyinfo
        if kind == "x509":
            ki = "<ds:KeyInfo><ds:X509Data><ds:X509Certificate>%s</ds:X509Certificate></ds:X509Data></ds:KeyInfo>" % (
                fixtures.cert_b64(name))
        elif kind == "rsa":
            from cryptography import x509 as _x

            with open(fixtures.cert_path(name), "rb") as f:
                pn = _x.load_pem_x509_certificate(f.read()).public_key().public_numbers()
            mod = base64.b64encode(pn.n.to_bytes((pn.n.bit_length() + 7) // 8, "big")).decode()
            exp = base64.b64encode(pn.e.to_bytes((pn.e.bit_length() + 7) // 8, "big")).decode()
            ki = ("<ds:KeyInfo><ds:KeyValue><ds:RSAKeyValue><ds:Modulus>%s</ds:Modulus><ds:Exponent>%s</ds:Exponent>"
                  "</ds:RSAKeyValue></ds:KeyValue></ds:KeyInfo>" % (mod, exp))
    tr = "".join('<ds:Transform Algorithm="%s"/>' % t for t in transforms)
    return (
        '<ds:Signature xmlns:ds="http://www.w3.org/2000/09/xmldsig#"><ds:SignedInfo>'
        '<ds:CanonicalizationMethod Algorithm="%s"/><ds:SignatureMethod Algorithm="%s"/>'
        '<ds:Reference URI="#%s"><ds:Transforms>%s</ds:Transforms><ds:DigestMethod Algorithm="%s"/>'
        "<ds:DigestValue/></ds:Reference>%s</ds:SignedInfo><ds:SignatureValue/>%s%s</ds:Signature>"
        % (c14n, sig_alg, ref_id, tr, dig_alg, extra_refs, ki, extra_children)
    )


def name_id(text, fmt=NAMEID_TRANSIENT, nq=None, spnq=None):
    return "<saml:NameID%s%s%s>%s</saml:NameID>" % (
        attr("Format", fmt), attr("NameQualifier", nq), attr("SPNameQualifier", spnq), escape(text))


def subject_confirmation(c):
    """c: dict(method, data=None|dict(recipient, in_response_to, not_on_or_after, not_before, address))"""
    d = c.get("data")
    data = ""
    if d is not None:
        data = "<saml:SubjectConfirmationData%s%s%s%s%s/>" % (
            attr("InResponseTo", d.get("in_response_to")), attr("NotBefore", d.get("not_before")),
            attr("NotOnOrAfter", d.get("not_on_or_after")), attr("Recipient", d.get("recipient")),
            attr("Address", d.get("address")))
    return "<saml:SubjectConfirmation Method=%s>%s</saml:SubjectConfirmation>" % (
        quoteattr(c.get("method", SCM_BEARER)), data)


def attribute(a):
    name, nf, friendly, values = a
    vals = "".join('<saml:AttributeValue xsi:type="xs:string">%s</saml:AttributeValue>' % escape(v) for v in values)
    return "<saml:Attribute Name=%s%s%s>%s</saml:Attribute>" % (
        quoteattr(name), attr("NameFormat", nf), attr("FriendlyName", friendly), vals)


def assertion(a):
    sig = a.get("sig_template", "")
    subj = ""
    s = a.get("subject")
    if s is not None:
        nid = s.get("name_id_xml")
        if nid is None:
            nid = name_id(s.get("name_id", "subject-1")) if s.get("name_id", "subject-1") is not None else ""
        subj = "<saml:Subject>%s%s</saml:Subject>" % (nid, "".join(subject_confirmation(c) for c in s.get("confirmations", [])))
    cond = ""
    c = a.get("conditions")
    if c is not None:
        ars = "".join(
            "<saml:AudienceRestriction>%s</saml:AudienceRestriction>"
            % "".join("<saml:Audience>%s</saml:Audience>" % escape(x) if x is not None else "<saml:Audience/>" for x in r)
            for r in c.get("audience_restrictions", []))
        cond = "<saml:Conditions%s%s>%s%s</saml:Conditions>" % (
            attr("NotBefore", c.get("not_before")), attr("NotOnOrAfter", c.get("not_on_or_after")), ars, c.get("extra", ""))
    sts = ""
    for st in a.get("authn_statements", []):
        sts += "<saml:AuthnStatement%s%s%s><saml:AuthnContext><saml:AuthnContextClassRef>%s</saml:AuthnContextClassRef></saml:AuthnContext></saml:AuthnStatement>" % (
            attr("AuthnInstant", st.get("authn_instant")), attr("SessionIndex", st.get("session_index")),
            attr("SessionNotOnOrAfter", st.get("session_not_on_or_after")), escape(st.get("class_ref", AC_PASSWORD)))
    attrs = a.get("attributes")
    ast = ""
    if attrs:
        ast = "<saml:AttributeStatement>%s</saml:AttributeStatement>" % "".join(attribute(x) for x in attrs)
    return (
        '<saml:Assertion xmlns:saml="urn:oasis:names:tc:SAML:2.0:assertion" xmlns:xs="http://www.w3.org/2001/XMLSchema" '
        'xmlns:xsi="http://www.w3.org/2001/XMLSchema-instance"%s%s%s><saml:Issuer>%s</saml:Issuer>%s%s%s%s%s%s</saml:Assertion>'
        % (attr("ID", a.get("id")), attr("IssueInstant", a.get("issue_instant")), attr("Version", a.get("version", "2.0")),
           escape(a.get("issuer", "")), sig, subj, cond, a.get("advice", ""), sts, ast))


def status(top=STATUS_SUCCESS, second=None, message=None):
    inner = '<samlp:StatusCode Value=%s/>' % quoteattr(second) if second else ""
    msg = "<samlp:StatusMessage>%s</samlp:StatusMessage>" % escape(message) if message else ""
    return "<samlp:Status><samlp:StatusCode Value=%s>%s</samlp:StatusCode>%s</samlp:Status>" % (quoteattr(top), inner, msg)


def response(r):
    """r: dict(id, in_response_to, destination, issue_instant, version, issuer,
    status=(top, second, msg), assertions_xml=[...], sig_template)"""
    st = r.get("status", (STATUS_SUCCESS, None, None))
    issuer = "" if r.get("issuer") is None else "<saml:Issuer>%s</saml:Issuer>" % escape(r["issuer"])
    return "<samlp:Response %s%s%s%s%s%s>%s%s%s%s%s</samlp:Response>" % (
        NS_DECL, attr("ID", r.get("id")), attr("InResponseTo", r.get("in_response_to")),
        attr("Version", r.get("version", "2.0")), attr("IssueInstant", r.get("issue_instant")),
        attr("Destination", r.get("destination")), issuer, r.get("sig_template", ""),
        r.get("extensions", ""), status(*st), "".join(r.get("assertions_xml", [])))


# ---- signing through the stand-in ------------------------------------------------

def sign_xml(xml, keyname, elem, node_id):
    """Fill the first signature template at/below element `elem` with ID node_id."""
    m = env.standin()
    if isinstance(xml, str):
        xml = xml.encode("utf-8")
    opts = {"id_attrs": [("ID", elem)], "node_id": node_id, "privkey": fixtures.key_path(keyname), "files": []}
    out, _, _ = m.do_sign(opts, xml)
    return out.decode("utf-8")


A_ELEM = "urn:oasis:names:tc:SAML:2.0:assertion:Assertion"
R_ELEM = "urn:oasis:names:tc:SAML:2.0:protocol:Response"


def corrupt_signature_value(xml, which=0):
    """Flip one base64 character of the which-th SignatureValue."""
    import re

    ms = list(re.finditer(r"(<(?:\w+:)?SignatureValue[^>]*>)([^<]+)(</)", xml))
    m = ms[which]
    v = m.group(2)
    i = len(v) // 2
    ch = "A" if v[i] != "A" else "B"
    return xml[: m.start(2)] + v[:i] + ch + v[i + 1:] + xml[m.end(2):]


def b64(xml):
    return base64.b64encode(xml.encode("utf-8") if isinstance(xml, str) else xml).decode("ascii")


def deflate_b64(xml):
    data = xml.encode("utf-8") if isinstance(xml, str) else xml
    return base64.b64encode(zlib.compress(data)[2:-4]).decode("ascii")


# ---- encryption through the stand-in -----------------------------------------------

ENC_TEMPLATE = (
    '<xenc:EncryptedData xmlns:xenc="http://www.w3.org/2001/04/xmlenc#" xmlns:ds="http://www.w3.org/2000/09/xmldsig#" '
    'Id="ED_verif" Type="http://www.w3.org/2001/04/xmlenc#Element">'
    '<xenc:EncryptionMethod Algorithm="http://www.w3.org/2001/04/xmlenc#aes128-cbc"/>'
    '<ds:KeyInfo><xenc:EncryptedKey Id="EK_verif">'
    '<xenc:EncryptionMethod Algorithm="http://www.w3.org/2001/04/xmlenc#rsa-oaep-mgf1p"/>'
    "<xenc:CipherData><xenc:CipherValue/></xenc:CipherData></xenc:EncryptedKey></ds:KeyInfo>"
    "<xenc:CipherData><xenc:CipherValue/></xenc:CipherData></xenc:EncryptedData>"
)
ASSERT_XPATH = '/*[local-name()="Response"]/*[local-name()="EncryptedAssertion"]/*[local-name()="Assertion"]'


def encrypt_assertion_in_response(xml, certname):
    """Wrap the (first) Assertion child of the Response in saml:EncryptedAssertion and encrypt it
    for the certificate `certname` (RSA-OAEP + AES-128-CBC) through the stand-in."""
    import xml.etree.ElementTree as ET

    m = env.standin()
    root = m._parse(xml.encode("utf-8") if isinstance(xml, str) else xml)
    A = "{urn:oasis:names:tc:SAML:2.0:assertion}"
    idx = [i for i, ch in enumerate(list(root)) if ch.tag == A + "Assertion"][0]
    a = list(root)[idx]
    root.remove(a)
    wrap = ET.Element(A + "EncryptedAssertion")
    wrap.append(a)
    wrap.tail = a.tail
    a.tail = None
    root.insert(idx, wrap)
    with tempfile.NamedTemporaryFile(suffix=".xml", delete=False) as f:
        f.write(ET.tostring(root, encoding="utf-8"))
        path = f.name
    try:
        out, _, _ = m.do_encrypt({"xml_data": path, "node_xpath": ASSERT_XPATH,
                                  "pubkey_cert": fixtures.cert_path(certname)}, ENC_TEMPLATE.encode())
    finally:
        os.unlink(path)
    return out.decode("utf-8")


def soap_envelope(xml):
    body = xml
    if body.startswith("<?xml"):
        body = body[body.index("?>") + 2:]
    return ('<soapenv:Envelope xmlns:soapenv="http://schemas.xmlsoap.org/soap/envelope/"><soapenv:Body>%s'
            "</soapenv:Body></soapenv:Envelope>" % body)


def tamper_text(xml, needle, replacement):
    """Change signed content (digest mismatch)."""
    assert needle in xml
    return xml.replace(needle, replacement, 1)


# ---- requests -----------------------------------------------------------------------

REQ_NS = ('xmlns:samlp="urn:oasis:names:tc:SAML:2.0:protocol" xmlns:saml="urn:oasis:names:tc:SAML:2.0:assertion"')
ELEM = {
    "AuthnRequest": "urn:oasis:names:tc:SAML:2.0:protocol:AuthnRequest",
    "LogoutRequest": "urn:oasis:names:tc:SAML:2.0:protocol:LogoutRequest",
    "AttributeQuery": "urn:oasis:names:tc:SAML:2.0:protocol:AttributeQuery",
    "ManageNameIDRequest": "urn:oasis:names:tc:SAML:2.0:protocol:ManageNameIDRequest",
    "AuthnQuery": "urn:oasis:names:tc:SAML:2.0:protocol:AuthnQuery",
}


def request(kind, q):
    """kind: AuthnRequest | LogoutRequest | AttributeQuery | ManageNameIDRequest | AuthnQuery
    q: dict(id, version, issue_instant, destination, issuer, sig_template, acs_url, protocol_binding, name_id)"""
    issuer = "" if q.get("issuer") is None else "<saml:Issuer>%s</saml:Issuer>" % escape(q["issuer"])
    common = "%s%s%s%s" % (attr("ID", q.get("id")), attr("Version", q.get("version", "2.0")),
                           attr("IssueInstant", q.get("issue_instant")), attr("Destination", q.get("destination")))
    sig = q.get("sig_template", "")
    nid = name_id(q.get("name_id", "subject-1"))
    if kind == "AuthnRequest":
        extra = attr("AssertionConsumerServiceURL", q.get("acs_url")) + attr("ProtocolBinding", q.get("protocol_binding"))
        body = '<samlp:NameIDPolicy AllowCreate="true" Format="%s"/>' % NAMEID_TRANSIENT
    elif kind == "LogoutRequest":
        extra = ""
        body = nid + "<samlp:SessionIndex>s-1</samlp:SessionIndex>"
    elif kind == "AttributeQuery":
        extra = ""
        body = "<saml:Subject>%s</saml:Subject>" % nid
    elif kind == "ManageNameIDRequest":
        extra = ""
        body = nid + "<samlp:NewID>new-id-1</samlp:NewID>"
    elif kind == "AuthnQuery":
        extra = ""
        body = "<saml:Subject>%s</saml:Subject>" % nid
    else:
        raise ValueError(kind)
    return "<samlp:%s %s%s%s>%s%s%s</samlp:%s>" % (kind, REQ_NS, common, extra, issuer, sig, body, kind)


def detached_signature(keyname, saml_request_b64, relay_state, sigalg, typ="SAMLRequest"):
    """Redirect-binding signature made independently of pysaml2 (RSA PKCS#1 v1.5)."""
    from urllib.parse import urlencode

    from cryptography.hazmat.primitives import hashes, serialization
    from cryptography.hazmat.primitives.asymmetric import padding

    algs = {
        "http://www.w3.org/2000/09/xmldsig#rsa-sha1": hashes.SHA1,
        "http://www.w3.org/2001/04/xmldsig-more#rsa-sha224": hashes.SHA224,
        "http://www.w3.org/2001/04/xmldsig-more#rsa-sha256": hashes.SHA256,
        "http://www.w3.org/2001/04/xmldsig-more#rsa-sha384": hashes.SHA384,
        "http://www.w3.org/2001/04/xmldsig-more#rsa-sha512": hashes.SHA512,
    }
    parts = [urlencode({typ: saml_request_b64})]
    if relay_state is not None:
        parts.append(urlencode({"RelayState": relay_state}))
    parts.append(urlencode({"SigAlg": sigalg}))
    octets = "&".join(parts).encode("ascii")
    with open(fixtures.key_path(keyname), "rb") as f:
        key = serialization.load_pem_private_key(f.read(), password=None)
    return base64.b64encode(key.sign(octets, padding.PKCS1v15(), algs[sigalg]())).decode("ascii")
