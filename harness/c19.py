"""C19 — session knowledge expires, ends with logout and never leaks across subjects.

One case = one whole history of operations against a real Saml2Client (identity cache +
logout bookkeeping) under a virtual clock and a stub SOAP transport.  After EVERY operation
the harness records the abstract return value and a view of the client (subjects with their
issuers, is_logged_in per subject, the pending entries of Saml2Client.state with the content
of their shared entity_ids list).  Coq replays the history on the model (C19.Model.step) and
compares every output and every view, and evaluates the reference monitor (C19.Spec) on the
observed trace."""
import base64
import re
import urllib.parse
import zlib

from harness import env, render, spaccept, world
from harness.common import Raw, cq

PID = "C19"
PARALLEL = 6
IMPORTS = "From Verif Require Import C19.Model C19.Spec C19.Corr."
CASE_TYPE = "C19.Corr.case"
RUNNER = "C19.Corr.run"
FINDING_CLASSES = {1: "C19-F1", 2: "C19-F2", 3: "C19-F3", 4: "C19-F4", 5: "C19-F5"}
RULE = ("histories of cache / logout operations against one real Saml2Client per case: (a) complete enumeration of the "
        "expiry boundary table not_on_or_after in {0, now-1, now, now+1} x check flag x read operation; (a') the expiry "
        "time a Response hands to the cache, complete: Conditions/@NotOnOrAfter x SessionNotOnOrAfter, each in {absent, "
        "passed, now, now+1, +100, +200} (every order of the two, equal, absent; a passed time => refused, nothing stored) "
        "x every read operation at t and t+1 of every time in play, then 6 x 6 such pairs in sequence (a second Response "
        "replacing the time of the same subject/issuer; two issuers of one subject with different times); (a'') seeded "
        "histories of Responses / logins / resets / reads with the clock advanced onto a stored time or one second past "
        "it; (b) complete "
        "enumeration of logout flows over every ordered world of 1 or 2 IdPs out of 9 SLO-endpoint kinds x 3 preferred-"
        "binding orders (quick tier: order SRP complete, a seeded third of the worlds for the two other orders) x every "
        "answer order, each followed by a duplicate answer, an unknown InResponseTo, an answer from "
        "the wrong issuer, a re-login and the left-over answers; (b') three front-channel IdPs x every sequence of four "
        "answers among the live requests (second, moot requests to a party included) + re-login + late answers; (b'') mixed front-channel / SOAP logouts of three IdPs x the SOAP IdP's answer (ok, http error, "
        "failure status) in each of three passes x session information of the last IdP reset or not; (c) IdP-initiated LogoutRequest for named/current subject "
        "in subjects^2 x IdP kind x binding; (d) seeded random histories (length <= 40, 1-3 subjects out of 5 NameIDs that "
        "differ in one field only, 1-3 IdPs) with adaptive selection of pending request ids; (e) the CONTENT of the NameID, "
        "complete over a pool of 74 further NameIDs in 12 families (blank / '+' / '%' / literal percent-sequences; leading, "
        "trailing, inner blanks, tab, newline, no-break space; upper / lower case; composed / decomposed / non-Latin / astral "
        "Unicode; the separators ',' '=' of the coding itself; reserved punctuation; the same tricky values in NameQualifier, "
        "SPNameQualifier, SPProvidedID, Format; Format absent; one string in different fields): every member as subject 0 "
        "with two neighbours of its family as subjects 1, 2 x three histories (front-channel logout to completion, deadline "
        "passing before the answer, global_logout by coded string; the NameID arriving in XML: Responses and LogoutRequests "
        "over three bindings, SOAP logout; the neighbours side by side at one issuer with different times); (e') seeded "
        "histories of (d) with subjects drawn from one family / the whole pool and logouts asked for by coded string.  "
        "Subjects handed out by the implementation are identified FIELD BY FIELD (not through ident.code).  (f) SEVERAL "
        "logouts in flight at the same IdPs (round 6): two subjects + a bystander at two front-channel IdPs, both logouts "
        "started before any answer, lists of outstanding IdPs equal by value / in another order / becoming equal / two "
        "transactions of one subject / one deadline passing, x EVERY sequence of three answers among the requests handed "
        "out and not yet answered (quick: the 4 oldest for equal lists, the 3 oldest otherwise), then every request still "
        "out is answered; one IdP with 2-3 subjects logging out at once x every answer order; (f') seeded such histories "
        "with re-logins, ticks, IdP-initiated requests in between.  (g) the DEPLOYMENT (round 6): 13 ways of owning the "
        "SP's stores and of spreading the operations over Saml2Client objects built by the real constructor (default "
        "stores; the application's EMPTY dict / UserDict / mapping object without __len__ as state_cache, its Cache or a "
        "shelve file as identity_cache; one long-lived client, a fresh client per operation, 2-3 workers, restarts), the "
        "view read through ANOTHER client object and from the application's store, x logout flows over 4 (thorough 6) "
        "worlds x answer order with wrong issuer / unknown id / failure status / duplicate / real Responses / IdP-initiated "
        "requests / local logout, and concurrent logouts of (f); (g') seeded histories of (d) under a seeded deployment.  "
        "In (f), (g) answers are addressed by the runner's OWN record of the requests handed out (not by the client's "
        "state).  non-trivial = distinct "
        "(operation kind, output kind, world class) triples observed")
TRUSTED = ["virtual clock behind saml2.time_util (harness/env.py VClock)",
           "stub SOAP transport replacing Saml2Client.send; unsigned LogoutResponse / LogoutRequest templates in harness/c19.py",
           "xmlsec1 stand-in + renderer for the Responses fed through parse_authn_request_response",
           "abstraction of return values and client state in harness/c19.py",
           "deployment cases: the application's stores (dict, collections.UserDict, harness ObjStore, saml2.cache.Cache, a "
           "shelve file in a temp dir) and the scheduling of operations over client objects in harness/c19.py (Deployment); "
           "sigver.import_rsa_key_from_file memoised for the run (the SP's key file is re-read by every Saml2Client())",
           "source tie (translator v2, harness/py2coq2.py + Base/Py2.v; trusted base in notes/translator_v2.md: aliasing, "
           "object truthiness = has fields, exceptions = class names): time_util.before, time_util.after, Cache.get, "
           "Cache.active, Cache.entities, Cache.delete, Cache.subjects, Population.stale_sources_for_person, "
           "Population.add_information_about_person, AuthnResponse.session_info, Saml2Client.is_logged_in are "
           "re-translated from the current text of saml2/{time_util,cache,population,response,client}.py on every run "
           "(coq/gen/C19Src2.v) and proved equal to the model functions in C19/Source2.v (c19_source2_*). Trusted there: "
           "the encodings (Cache / Population / AuthnResponse / Saml2Client as objects with exactly the attributes the "
           "code reads; Cache._db as dict of dicts of (int, dict) pairs; struct_time = epoch seconds), ident.code / "
           "ident.decode as injective coding of subjects (hypothesis cache_encoding_ok), and that Cache.set / "
           "Cache.get_identity / AuthnResponse.issuer / authn_info (not translatable or external) are arbitrary functions "
           "resp. behave as the hypotheses of c19_source2_is_logged_in say"]
ASSUMPTIONS = ["NameIDs and entity ids are mapped to small numbers: the model assumes that ident.code is injective and that "
               "ident.decode inverts it (hypothesis cache_encoding_ok of the source theorems; shown necessary for Cache.subjects "
               "by c19_source2_subjects_need_roundtrip); on the implementation side this is exercised by the NameID pool "
               "(families of NameIDs a wrong coding conflates or does not bring back), not proved (C18 proves code/decode)",
               "message ids are numbered in order of first appearance in the SP's state store (Saml2Client.state, or the "
               "state_cache object the application handed in), ids that are handed out without being on file after them",
               "state stores keep the very objects they are given (in-memory stores): the client recognises the requests of "
               "one logout by the IDENTITY of their shared entity_ids list, a store that hands out copies is not supported "
               "by the code and not modelled",
               "LogoutRequests / LogoutResponses are otherwise valid (IssueInstant, Destination, version)",
               "single-threaded use of the client (Saml2Client.lock is not exercised)"]

SOAP, REDIRECT, POST = world.BINDING_SOAP, world.BINDING_HTTP_REDIRECT, world.BINDING_HTTP_POST
BND = {"S": SOAP, "R": REDIRECT, "P": POST}
BCOQ = {"S": "SOAP", "R": "REDIRECT", "P": "POST"}
# IdP kinds: SLO endpoints in metadata order ("N": none at all)
KINDS = ["S", "R", "P", "SR", "RS", "PR", "RP", "SRP", "N"]
NOSOAP_KINDS = ["R", "P", "PR", "RP"]
PREFS = ["SRP", "RPS", "PSR"]
SP_SLO = {"R": world.SP_SLO_REDIRECT, "P": world.SP_SLO_POST, "S": world.SP_SLO_SOAP}
T0 = 1700000000

PERSISTENT = "urn:oasis:names:tc:SAML:2.0:nameid-format:persistent"
# NameIDs that differ from the first in exactly one field (or in tricky text)
NAMEIDS = [
    {"text": "alice", "format": render.NAMEID_TRANSIENT},
    {"text": "alice", "format": PERSISTENT},
    {"text": "alice", "format": render.NAMEID_TRANSIENT, "name_qualifier": "https://idp-r.example.org/idp.xml"},
    {"text": "alice", "format": render.NAMEID_TRANSIENT, "sp_name_qualifier": world.SP_ID},
    {"text": "al=ice,4=alice", "format": render.NAMEID_TRANSIENT},
]
BASE_N = len(NAMEIDS)     # the older generators draw from these five only (their cases stay what they were)

# ---------------------------------------------------------------------------- the CONTENT of a NameID as a dimension
# Everything the SP knows about a subject is filed under ident.code(name_id) (Cache._db, Saml2Client.state[..]
# ["name_id"]) and comes back through ident.decode (Cache.subjects, Cache.get, handle_logout_response ->
# local_logout / do_logout, global_logout(<str>)).  The model identifies subjects with numbers, i.e. it assumes
# that the coding is injective and that decode inverts it.  The pool below exercises that assumption on the real
# code: families of NameIDs that a wrong coding would CONFLATE (isolation) or fail to bring back (the session
# cannot be ended): every class of character the percent-coding treats differently (blank, '+', '%', a literal
# percent-sequence, '/', the separators ',' and '=' of the coding itself, reserved / unreserved punctuation,
# control characters, non-ASCII in composed and decomposed form, upper / lower case, leading / trailing blanks),
# in EACH of the five coded fields, the same string in different fields, and fields absent.
X509 = "urn:oasis:names:tc:SAML:1.1:nameid-format:X509SubjectName"
UNSPEC = "urn:oasis:names:tc:SAML:1.1:nameid-format:unspecified"
WINDOMAIN = "urn:oasis:names:tc:SAML:1.1:nameid-format:WindowsDomainQualifiedName"
_TR = render.NAMEID_TRANSIENT


def _fam(*members):
    out = []
    for m in members:
        d = {"format": _TR}
        d.update(m)
        out.append({k: v for k, v in d.items() if v is not None})
    return out


SHAPE_FAMILIES = {
    # the blank and its look-alikes under the percent / plus codings
    "blank": _fam({"text": "CN=Jane Doe,O=Example Org,C=SE", "format": X509},
                  {"text": "CN=Jane+Doe,O=Example+Org,C=SE", "format": X509},
                  {"text": "CN=Jane%20Doe,O=Example%20Org,C=SE", "format": X509},
                  {"text": "CN=Jane%2BDoe,O=Example%2BOrg,C=SE", "format": X509}),
    "plus-percent": _fam({"text": "a b"}, {"text": "a+b"}, {"text": "a%20b"}, {"text": "a%2Bb"}, {"text": "a%2520b"},
                         {"text": "100%"}, {"text": "%"}, {"text": "%41lice"}),
    "edge-blank": _fam({"text": " alice"}, {"text": "alice "}, {"text": " alice "}, {"text": "al ice"}, {"text": "alice\n"},
                       {"text": "al\tice"}, {"text": "\u00a0alice"}),
    "case": _fam({"text": "Alice"}, {"text": "ALICE"}, {"text": "alic\u00e9"}, {"text": "alic\u00c9"},
                 {"text": "alice", "format": _TR.upper()}),
    # composed / decomposed (NFC / NFD) spelling, without diacritics, CJK, the Latin-1 misreading of UTF-8, astral plane
    "unicode": _fam({"text": "Zo\u00eb M\u00fcller"}, {"text": "Zoe\u0308 Mu\u0308ller"}, {"text": "Zoe Muller"},
                    {"text": "\u5c71\u7530 \u592a\u90ce"}, {"text": "Zo\u00c3\u00ab M\u00c3\u00bcller"}, {"text": "\U0001f600 x"}),
    "separators": _fam({"text": "alice,1=" + world.SP_ID}, {"text": "4=alice"}, {"text": "alice,"}, {"text": "=alice"},
                       {"text": "al%3Dice%2C4%3Dalice"}, {"text": "0=x,4=alice"}, {"text": "alice", "name_qualifier": "x"}),
    "punctuation": _fam({"text": "EXAMPLE\\jane doe", "format": WINDOMAIN}, {"text": "EXAMPLE/jane doe", "format": WINDOMAIN},
                        {"text": "EXAMPLE%5Cjane doe", "format": WINDOMAIN}, {"text": "jane.doe+tag@example.org"},
                        {"text": "jane.doe tag@example.org"}, {"text": "a&b<c>\"d'e;f?g#h~i"}, {"text": "a/b"},
                        {"text": "a%2Fb"}),
    # the same tricky values in the OTHER coded fields
    "name-qualifier": _fam({"text": "alice", "name_qualifier": "Example Org"}, {"text": "alice", "name_qualifier": "Example+Org"},
                           {"text": "alice", "name_qualifier": "Example%20Org"}, {"text": "alice", "name_qualifier": "example org"},
                           {"text": "alice", "name_qualifier": "Example Org "}),
    "sp-name-qualifier": _fam({"text": "alice", "sp_name_qualifier": "My SP"}, {"text": "alice", "sp_name_qualifier": "My+SP"},
                              {"text": "alice", "sp_name_qualifier": "My%20SP"}, {"text": "alice", "sp_name_qualifier": "My,SP=1"},
                              {"text": "alice", "name_qualifier": "My SP"}),
    "sp-provided-id": _fam({"text": "alice", "sp_provided_id": "p1"}, {"text": "alice", "sp_provided_id": "p2"},
                           {"text": "alice", "sp_provided_id": "Jane Doe"}, {"text": "alice", "sp_provided_id": "Jane+Doe"},
                           {"text": "alice", "sp_provided_id": "P1"}, {"text": "p1", "sp_provided_id": "alice"}),
    "format": _fam({"text": "alice", "format": None}, {"text": "alice", "format": UNSPEC},
                   {"text": "alice", "format": "urn:example:my%20format"}, {"text": "alice", "format": "urn:example:my+format"},
                   {"text": "alice", "format": "urn:example:my format"}, {"text": _TR, "format": None}),
    # one string, different fields (a coding that forgets WHICH field a value came from conflates them)
    "field-swap": _fam({"text": "alice", "name_qualifier": world.SP_ID}, {"text": "alice", "sp_name_qualifier": world.SP_ID + " "},
                       {"text": world.SP_ID, "name_qualifier": "alice"}, {"text": "alice", "sp_provided_id": world.SP_ID},
                       {"text": "alice", "name_qualifier": "q", "sp_name_qualifier": "r"},
                       {"text": "alice", "name_qualifier": "r", "sp_name_qualifier": "q"},
                       {"text": "alice", "name_qualifier": "q", "sp_name_qualifier": "r", "sp_provided_id": "Jane Doe"}),
}
SHAPE_IDX = {}
for _name, _members in SHAPE_FAMILIES.items():
    SHAPE_IDX[_name] = list(range(len(NAMEIDS), len(NAMEIDS) + len(_members)))
    NAMEIDS += _members
assert len({tuple(sorted(d.items())) for d in NAMEIDS}) == len(NAMEIDS), "the pool lists a NameID twice"
STATUS_RESPONDER = "urn:oasis:names:tc:SAML:2.0:status:Responder"
STATUS_DENIED = "urn:oasis:names:tc:SAML:2.0:status:RequestDenied"
STATUS_UNKNOWN_PRINCIPAL = "urn:oasis:names:tc:SAML:2.0:status:UnknownPrincipal"


def eid(kind):
    return "https://idp-%s.example.org/idp.xml" % kind.lower()


def slo_url(kind, b):
    return "https://idp-%s.example.org/slo/%s" % (kind.lower(), b.lower())


def federation_md():
    return [world.idp_descriptor(eid(k), [("idp", "signing")],
                                 sso=[(REDIRECT, "https://idp-%s.example.org/sso" % k.lower())],
                                 slo=[(BND[b], slo_url(k, b)) for b in (k if k != "N" else "")])
            for k in KINDS]


CLOCK = spaccept.CLOCK
_clients = {}


def get_client(pref):
    env.install_standin()
    CLOCK.install()
    sp = _clients.get(pref)
    if sp is None:
        from saml2.config import PREFERRED_BINDING

        pb = dict(PREFERRED_BINDING)
        pb["single_logout_service"] = [BND[b] for b in pref]
        sp = world.make_sp(metadata_xml=federation_md(), sp_idp=[eid(k) for k in KINDS], sp_allow_unsolicited=True,
                           preferred_binding=pb)
        _clients[pref] = sp
    from saml2.population import Population

    sp.users = Population()
    sp.state = {}
    return sp


# ---------------------------------------------------------------------------- the DEPLOYMENT as a dimension (round 6)
# Who owns the two stores of the SP and how many Saml2Client objects work on them.  The property speaks about "a
# service provider"; the documented way to run one behind a web server is to hand every Saml2Client the
# application's own identity_cache / state_cache ("where the class should keep state information") - one client per
# HTTP request, several workers, a restart between the LogoutRequest and its answer.  None of this changes the
# abstract history (the model is one SP), so a case carries it next to the operations:
#   case["deploy"] = {"mode": "one" | "per-op" | "workers" | "restart", "n": workers, "every": ops between restarts,
#                     "sched": worker per operation (cyclic), "state": "none" | "dict" | "userdict" | "obj",
#                     "ident": "none" | "cache" | "file"}
# Every client is built by the real constructor Saml2Client(config, identity_cache=, state_cache=) (the older
# cases patch `users` / `state` of one long-lived object instead); the stores are EMPTY when the first client is
# built; after every operation the view is read through ANOTHER client object where there is one (what the next
# request will find) and straight from the application's state store.
class ObjStore:
    """a minimal mapping object an application may hand in: no __len__ / __bool__ (always truthy), keeps the very
    objects it is given (an in-memory session adapter)"""

    def __init__(self):
        self._d = {}

    def __getitem__(self, k):
        return self._d[k]

    def __setitem__(self, k, v):
        self._d[k] = v

    def __delitem__(self, k):
        del self._d[k]

    def __contains__(self, k):
        return k in self._d

    def __iter__(self):
        return iter(self._d)

    def get(self, k, default=None):
        return self._d.get(k, default)

    def keys(self):
        return self._d.keys()

    def values(self):
        return self._d.values()

    def items(self):
        return self._d.items()


_key_memo = {}


def _memo_key_loading():
    """harness-local speed-up: Saml2Client() re-reads and re-checks the SP's RSA key (40 ms) on every construction;
    the file never changes during a run, so the loaded key object is kept (not C19's subject matter)"""
    from saml2 import sigver

    if getattr(sigver.import_rsa_key_from_file, "_c19_memo", False):
        return
    orig = sigver.import_rsa_key_from_file

    def memo(filename):
        if filename not in _key_memo:
            _key_memo[filename] = orig(filename)
        return _key_memo[filename]

    memo._c19_memo = True
    sigver.import_rsa_key_from_file = memo


class Deployment:
    def __init__(self, base, dep, send):
        import collections
        import tempfile

        from saml2.cache import Cache

        _memo_key_loading()
        self.dep = dep
        self.config = base.config
        self.send = send
        self.tmp = None
        ik = dep.get("ident", "cache")
        if ik == "none":
            self.ident = None
        elif ik == "file":
            self.tmp = tempfile.mkdtemp(prefix="c19-cache-")
            self.ident = self.tmp + "/identity"          # Population(<str>) -> Cache(filename): shelve-backed
        else:
            self.ident = Cache()
        sk = dep.get("state", "dict")
        self.store = {"none": lambda: None, "dict": dict, "userdict": collections.UserDict, "obj": ObjStore}[sk]()
        self.mode = dep["mode"]
        self.k = 0
        n = dep.get("n", 2) if self.mode == "workers" else 1
        self.pool = [] if self.mode == "per-op" else [self.make() for _ in range(n)]
        self.cur = 0

    def make(self):
        from saml2.client import Saml2Client

        c = Saml2Client(config=self.config, identity_cache=self.ident, state_cache=self.store)
        c.send = self.send
        return c

    def client(self):
        """the client object that handles the next operation"""
        m = self.mode
        k = self.k
        self.k += 1
        if m == "per-op":
            return self.make()
        if m == "workers":
            sched = self.dep.get("sched")
            self.cur = (sched[k % len(sched)] if sched else k) % len(self.pool)
            return self.pool[self.cur]
        if m == "restart" and k and k % self.dep.get("every", 3) == 0:
            self.pool[0] = self.make()
        return self.pool[0]

    def reader(self):
        """the client object through which the state of the SP is looked at after the operation"""
        if self.mode == "per-op":
            return self.make()
        if self.mode == "workers":
            return self.pool[(self.cur + 1) % len(self.pool)]
        return self.pool[0]

    def state(self):
        return self.store if self.store is not None else self.pool[0].state

    def close(self):
        if self.tmp:
            import shutil

            for c in self.pool:
                try:
                    c.users.cache._db.close()
                except Exception:  # noqa
                    pass
            shutil.rmtree(self.tmp, ignore_errors=True)


def nameid(idx):
    from saml2.saml import NameID

    return NameID(**NAMEIDS[idx])


def nameid_xml(idx):
    """local renderer (render.name_id knows neither SPProvidedID nor an absent Format); attribute values and text
    are escaped so that the parsed NameID carries exactly the pool's strings (tab / newline as character references)"""
    n = NAMEIDS[idx]
    ent = {"\t": "&#9;", "\n": "&#10;", "\r": "&#13;"}
    return "<saml:NameID%s>%s</saml:NameID>" % (
        "".join(" %s=%s" % (a, render.quoteattr(n[f], ent)) for a, f in
                (("Format", "format"), ("NameQualifier", "name_qualifier"), ("SPNameQualifier", "sp_name_qualifier"),
                 ("SPProvidedID", "sp_provided_id")) if n.get(f) is not None),
        render.escape(n["text"], {"\r": "&#13;"}))


def session_info(s_idx, issuer, nooa, tok):
    """the dict shape AuthnResponse.session_info() produces"""
    return {"ava": {"uid": ["u%d" % tok], "mail": ["g%d@x" % (tok % 2), "all@x"]}, "name_id": nameid(s_idx), "came_from": "/",
            "issuer": issuer, "not_on_or_after": nooa, "authn_info": [(render.AC_PASSWORD, [], env.iso(T0))],
            "session_index": "si-%d" % tok}


def logout_response_xml(irt, issuer, success, dest, now):
    st = render.status() if success else render.status(STATUS_RESPONDER, STATUS_DENIED, "refused")
    return ('<samlp:LogoutResponse %s ID="lr-%s" InResponseTo=%s Version="2.0" IssueInstant="%s"%s>'
            "<saml:Issuer>%s</saml:Issuer>%s</samlp:LogoutResponse>"
            % (render.NS_DECL, abs(hash(irt)) % 100000, render.quoteattr(irt), env.iso(now), render.attr("Destination", dest),
               issuer, st))


def logout_request_xml(issuer, s_idx, dest, now):
    return ('<samlp:LogoutRequest %s ID="lq-1" Version="2.0" IssueInstant="%s" Destination="%s">'
            "<saml:Issuer>%s</saml:Issuer>%s</samlp:LogoutRequest>"
            % (render.NS_DECL, env.iso(now), dest, issuer, nameid_xml(s_idx)))


def soap_envelope(body):
    return ('<?xml version="1.0" encoding="UTF-8"?>\n<S:Envelope xmlns:S="http://schemas.xmlsoap.org/soap/envelope/">'
            "<S:Body>%s</S:Body></S:Envelope>" % body)


class _Resp:
    def __init__(self, code, text):
        self.status_code = code
        self.text = text
        self.content = text


EXN = {"KeyError": "KeyErr", "ValueError": "ValueErr", "AttributeError": "AttrErr", "TooOld": "TooOldErr",
       "LogoutError": "LogoutErr", "UnsupportedBinding": "UnsupportedErr", "SAMLError": "SamlErr"}


def exn_name(e):
    from saml2.response import StatusError

    if isinstance(e, StatusError):
        return "StatusErr"
    return EXN.get(type(e).__name__, "Other:" + type(e).__name__)


# ---------------------------------------------------------------------------- translator v2 (source tie)
SRC2_FUNCTIONS = ["time_util.before", "time_util.after", "Cache.get", "Cache.active", "Cache.entities", "Cache.delete",
                  "Cache.subjects",
                  "Population.stale_sources_for_person", "Population.add_information_about_person",
                  "AuthnResponse.session_info", "Saml2Client.is_logged_in"]


def src2_items():
    """Translation specs (translator v2) of the decision functions behind C19.Model's cache layer.  The clock
    (`time.gmtime()`), the time parser, `ident.code` / `ident.decode`, the accessor methods of AuthnResponse and
    `Cache.set` / `Cache.get_identity` (not translatable: see notes/C19.md) are extra arguments; struct_time values
    are represented by their epoch seconds (same order).  Calls of translated functions are linked to their
    translation (after -> before, Cache.get -> after, Cache.active -> before, stale_sources_for_person ->
    Cache.entities / Cache.active)."""
    import os

    sdir = os.path.join(env.SRC, "saml2")
    exc = {"SAMLError": ["Exception"], "ToOld": ["SAMLError", "Exception"], "TooOld": ["ToOld", "SAMLError", "Exception"],
           "CacheError": ["SAMLError", "Exception"], "StatusError": ["SAMLError", "Exception"],
           "StatusInvalidAuthnResponseStatement": ["StatusError", "SAMLError", "Exception"]}
    clock = [("now_", "pyval"), ("parse_time", "pyval -> pyval")]
    tcalls = {"time.gmtime": lambda a: a[0] if a else "now_", "str_to_time": lambda a: "(parse_time %s)" % a[0]}
    code_ = ("code_", "pyval -> pyval")
    code_call = {"code": lambda a: "(code_ %s)" % a[0]}
    return [
        (os.path.join(sdir, "time_util.py"), "before",
         {"name": "src2_before", "params": ["point"], "extra_params": clock, "calls": tcalls}),
        (os.path.join(sdir, "time_util.py"), "after",
         {"name": "src2_after", "params": ["point"], "extra_params": clock,
          "calls": dict(tcalls, before=lambda a: "(src2_before now_ parse_time %s)" % a[0])}),
        (os.path.join(sdir, "cache.py"), "Cache.get",
         {"name": "src2_cache_get", "params": ["self", "name_id", "entity_id", "check_not_on_or_after"], "exc_parents": exc,
          "extra_params": clock + [code_, ("decode_", "pyval -> pyval")],
          "calls": dict(code_call, decode=lambda a: "(decode_ %s)" % a[0],
                        **{"time_util.after": lambda a: "(src2_after now_ parse_time %s)" % a[0]})}),
        (os.path.join(sdir, "cache.py"), "Cache.active",
         {"name": "src2_cache_active", "params": ["self", "name_id", "entity_id"], "exc_parents": exc,
          "extra_params": clock + [code_],
          "calls": dict(code_call, **{"time_util.not_on_or_after": lambda a: "(src2_before now_ parse_time %s)" % a[0]})}),
        (os.path.join(sdir, "cache.py"), "Cache.entities",
         {"name": "src2_cache_entities", "params": ["self", "name_id"], "exc_parents": exc, "extra_params": [code_],
          "calls": code_call}),
        (os.path.join(sdir, "cache.py"), "Cache.delete",
         {"name": "src2_cache_delete", "params": ["self", "name_id"], "exc_parents": exc, "returns_state": ["self"],
          "extra_params": [code_, ("sync_", "pyval -> pyval")],
          "calls": dict(code_call, **{"self._db.sync": lambda a: '(sync_ (p2_attr v_self "_db"))'})}),
        (os.path.join(sdir, "cache.py"), "Cache.subjects",
         {"name": "src2_cache_subjects", "params": ["self"], "exc_parents": exc,
          "extra_params": [("decode_", "pyval -> pyval")], "calls": {"decode": lambda a: "(decode_ %s)" % a[0]}}),
        (os.path.join(sdir, "population.py"), "Population.stale_sources_for_person",
         {"name": "src2_stale_sources", "params": ["self", "name_id", "sources"], "exc_parents": exc,
          "extra_params": clock + [code_],
          "calls": {"self.cache.entities": lambda a: '(src2_cache_entities code_ (p2_attr v_self "cache") %s)' % a[0],
                    "self.cache.active":
                        lambda a: '(src2_cache_active now_ parse_time code_ (p2_attr v_self "cache") %s %s)' % tuple(a)}}),
        (os.path.join(sdir, "population.py"), "Population.add_information_about_person",
         {"name": "src2_add_information", "params": ["self", "session_info"], "exc_parents": exc,
          "extra_params": [("set_", "pyval -> pyval -> pyval -> pyval -> pyval -> pyval")],
          "calls": {"self.cache.set": lambda a: '(set_ (p2_attr v_self "cache") %s %s %s %s)' % tuple(a)}}),
        (os.path.join(sdir, "response.py"), "AuthnResponse.session_info",
         {"name": "src2_session_info", "params": ["self"], "exc_parents": exc,
          "extra_params": [("issuer_", "pyval -> pyval"), ("authn_info_", "pyval -> pyval"), ("authz_info_", "pyval -> pyval")],
          "calls": {"self.issuer": lambda a: "(issuer_ v_self)", "self.authn_info": lambda a: "(authn_info_ v_self)",
                    "self.authz_decision_info": lambda a: "(authz_info_ v_self)"}}),
        (os.path.join(sdir, "client.py"), "Saml2Client.is_logged_in",
         {"name": "src2_is_logged_in", "params": ["self", "name_id"], "exc_parents": exc,
          "extra_params": [("get_identity_", "pyval -> pyval -> pyval")],
          "calls": {"self.users.get_identity": lambda a: '(get_identity_ (p2_attr v_self "users") %s)' % a[0]}}),
    ]


def regenerate_tables(ctx):
    """Translator v2: the functions of SRC2_FUNCTIONS as they read NOW -> coq/gen/C19Src2.v (C19/Source2.v proves each
    equal to the model function it mirrors; Property.v re-states the theorems as c19_source2_*)."""
    import os

    from harness import common, py2coq2

    info = py2coq2.regenerate(os.path.join(common.GEN, "C19Src2.v"), src2_items())
    return {"obligations": info["obligations"], "discharged": info["discharged"],
            "untranslatable": list(info["untranslatable"]), "translated": list(info["translated"]),
            "changed": bool(info["changed"]), "file": "coq/gen/C19Src2.v"}


# ---------------------------------------------------------------------------- running one history
class Runner:
    def __init__(self, case):
        self.case = case
        self.kinds = case["idps"]
        self.subs = case["subjects"]
        self.sp = get_client(case["pref"])
        CLOCK.set(case["t0"])
        self.ent = [eid(k) for k in self.kinds]
        self.ent_idx = {e: i for i, e in enumerate(self.ent)}
        from saml2.ident import code

        self.code = code
        from saml2.ident import decode

        self.decode = decode
        self.rid_num = {}
        self.rid_real = {}
        self.answers = []
        self.sp.send = self.fake_send
        # requests handed out for delivery (output of do_logout), in that order, not yet answered by their
        # addressee; whom each one went to (the runner's own record: it does not depend on the client's state)
        self.outbox = []
        self.sent_to = {}
        self.dep = Deployment(self.sp, case["deploy"], self.fake_send) if case.get("deploy") else None
        self.rd = self.sp

    def state(self):
        """the SP's state store: the application's object when it handed one in, else the client's own"""
        return self.dep.state() if self.dep else self.sp.state

    # stub transport: answers as the op prescribes for the addressed IdP
    def fake_send(self, url, method="GET", **kw):
        m = re.match(r"https://idp-(\w+)\.example\.org/", url)
        e = eid(m.group(1).upper())
        i = self.ent_idx.get(e, 99)
        a = self.answers[i] if i < len(self.answers) else "none"
        if a == "none":
            return None
        if a == "http":
            return _Resp(500, "Internal Server Error")
        rid = re.search(r'ID="([^"]+)"', kw["data"]).group(1)
        return _Resp(200, soap_envelope(logout_response_xml(rid, e, a == "ok", None, CLOCK.now)))

    def issuer_idx(self, e):
        try:
            return self.ent_idx.get(e, 99)
        except TypeError:      # not even hashable: certainly not an entity id of this world
            return 99

    FIELDS = ("text", "format", "name_qualifier", "sp_name_qualifier", "sp_provided_id")

    def sub_of(self, n):
        """which subject of the case a NameID handed out by the implementation IS: field by field against the pool
        (not through ident.code: a coding that conflates two subjects or does not come back must show); a coded
        string (pending entries) is first turned back the way the client itself does it (ident.decode)"""
        if isinstance(n, str):
            try:
                n = self.decode(n)
            except Exception:  # noqa
                return 99
        for j, g in enumerate(self.subs):
            if all(getattr(n, f, None) == NAMEIDS[g].get(f) for f in self.FIELDS):
                return j
        return 99

    def number_rids(self):
        for k in self.state():
            if k not in self.rid_num:
                n = len(self.rid_num)
                self.rid_num[k] = n
                self.rid_real[n] = k

    def view(self):
        """total: a view that cannot be taken (the accessors raise) is a view nobody can agree with"""
        try:
            return self._view()
        except Exception:  # noqa
            return {"subjects": [[99, [99]]], "logged": [99], "pending": []}

    def _view(self):
        sp = self.rd
        subjects = []
        for n in sp.users.subjects():
            j = self.sub_of(n)
            try:
                iss = [self.issuer_idx(e) for e in sp.users.issuers_of_info(n)]
            except Exception:  # noqa: a subject the cache lists but does not know (the key does not come back)
                iss = [99]
            subjects.append([j, iss])
        logged = [j for j, g in enumerate(self.subs) if sp.is_logged_in(nameid(g))]
        self.number_rids()
        pending = []
        for k, v in self.state().items():
            exp = v.get("not_on_or_after")
            pending.append([self.rid_num[k], self.issuer_idx(v["entity_id"]), [self.issuer_idx(e) for e in v["entity_ids"]],
                            self.sub_of(v["name_id"]), None if exp is None else _epoch(exp)])
        return {"subjects": sorted(subjects), "logged": sorted(logged), "pending": sorted(pending, key=lambda p: p[0])}

    def sent_abs(self, responses):
        """the `responses` dict of do_logout -> sorted [(issuer, binding|'soap', rid|None)]"""
        out = []
        self.number_rids()
        for e, r in responses.items():
            if isinstance(r, tuple):
                b = {REDIRECT: "R", POST: "P"}.get(r[0], "?")
                rid = _request_id(r[0], r[1])
                if rid not in self.rid_num:
                    # handed out but not on file in the SP's state store: numbered after the filed ones
                    n = len(self.rid_num)
                    self.rid_num[rid] = n
                    self.rid_real[n] = rid
                num = self.rid_num[rid]
                if num not in self.sent_to:
                    self.sent_to[num] = self.issuer_idx(e)
                    self.outbox.append(num)
                out.append([self.issuer_idx(e), b, num])
            else:
                out.append([self.issuer_idx(e), "soap", None])
        return sorted(out, key=lambda x: x[0])

    def logout_result(self, res):
        if isinstance(res, tuple):
            if res[1].startswith("504"):
                return ["Timeout"]
            if res[1].startswith("200"):
                return ["Done"]
            return ["Other", str(res[1])]
        return ["Sent", self.sent_abs(res)]

    def resolve(self, op):
        """replace adaptive selectors by absolute request numbers / issuers"""
        if op[0] != "LogoutResponse":
            return op
        _, rsel, isel, success, ans, b = op
        self.number_rids()
        live = [self.rid_num[k] for k in self.state()]
        by_record = False
        if isinstance(rsel, dict):
            if "sent" in rsel and self.outbox:
                # the j-th request handed out and not yet answered by its addressee - whatever the client remembers
                r = self.outbox[rsel["sent"] % len(self.outbox)]
                by_record = True
            elif "live" in rsel and live:
                r = live[rsel["live"] % len(live)]
            elif "old" in rsel and self.rid_num:
                r = rsel["old"] % len(self.rid_num)
            else:
                r = 150 + list(rsel.values())[0] % 7
        else:
            r = rsel
        if isel == "addr":
            k = self.rid_real.get(r)
            st = self.state()
            if by_record:
                i = self.sent_to[r]
            else:
                i = self.issuer_idx(st[k]["entity_id"]) if k in st else 0
        else:
            i = isel
        return ["LogoutResponse", r, i, success, ans, b]

    def do(self, op):
        sp = self.sp
        k = op[0]
        if k == "Login":
            _, s, i, nooa, t = op
            sp.users.add_information_about_person(session_info(self.subs[s], self.ent[i], nooa, t))
            return ["Unit"]
        if k == "Accept":
            _, s, i, cn, sn, t, kind = op
            return self.accept(s, i, cn, sn, t, kind)
        if k == "Reset":
            _, s, i = op
            sp.users.cache.reset(nameid(self.subs[s]), self.ent[i])
            return ["Unit"]
        if k == "GetIdentity":
            _, s, ents, chk = op
            ident, old = sp.users.get_identity(nameid(self.subs[s]), [self.ent[i] for i in ents] or None, chk)
            toks = sorted(int(u[1:]) for u in ident.get("uid", []))
            # every other merged attribute must come from the same infos
            if sorted(set(ident.get("mail", []))) != sorted(set(["g%d@x" % (t % 2) for t in toks] + (["all@x"] if toks else []))):
                toks = [-1]
            return ["Identity", toks, sorted(self.issuer_idx(e) for e in old)]
        if k == "GetInfoFrom":
            _, s, i, chk = op
            info = sp.users.get_info_from(nameid(self.subs[s]), self.ent[i], chk)
            if info is None:
                return ["Info", None]
            t = int(info["session_index"][3:])
            # the information names THIS subject: same key and the very same NameID (every field)
            same_subject = (self.code(info["name_id"]) == self.code(nameid(self.subs[s]))
                            and info["name_id"] == nameid(self.subs[s]))
            if info["ava"].get("uid") != ["u%d" % t] or not same_subject or "issuer" in info:
                t = -1
            return ["Info", t]
        if k == "Stale":
            _, s, srcs = op
            r = sp.users.stale_sources_for_person(nameid(self.subs[s]), [self.ent[i] for i in srcs] or None)
            return ["Issuers", sorted(self.issuer_idx(e) for e in r)]
        if k == "Tick":
            CLOCK.tick(op[1])
            return ["Unit"]
        if k == "StartLogout":
            _, s, dl, ans = op[:4]
            self.answers = ans
            # the subject as NameID instance, or (5th element "str") in its coded string form, which global_logout
            # documents by its isinstance(name_id, str) branch: same abstract operation
            who = nameid(self.subs[s])
            if len(op) > 4 and op[4] == "str":
                who = self.code(who)
            res = sp.global_logout(who, "urn:oasis:names:tc:SAML:2.0:logout:user",
                                   None if dl is None else env.iso(dl))
            return self.logout_result(res)
        if k == "LogoutResponse":
            _, r, i, success, ans, b = op
            self.answers = ans
            if success and self.sent_to.get(r) == i and r in self.outbox:
                self.outbox.remove(r)          # its addressee answers it now
            real = self.rid_real.get(r, "id-unknown-%d" % r)
            xml = logout_response_xml(real, self.ent[i], success, SP_SLO[b], CLOCK.now)
            enc = render.deflate_b64(xml) if b == "R" else render.b64(xml)
            resp = sp.parse_logout_request_response(enc, BND[b])
            if not resp:
                return ["Other", "no response object"]
            return self.logout_result(sp.handle_logout_response(resp))
        if k == "LogoutRequest":
            _, named, cur, i, b = op
            xml = logout_request_xml(self.ent[i], self.subs[named], SP_SLO[b], CLOCK.now)
            enc = {"R": render.deflate_b64, "P": render.b64, "S": soap_envelope}[b](xml)
            info = sp.handle_logout_request(enc, nameid(self.subs[cur]), BND[b], relay_state="rs")
            return ["Status", _status_of(info, b)]
        if k == "LocalLogout":
            return ["Bool", bool(sp.local_logout(nameid(self.subs[op[1]])))]
        raise ValueError(op)

    def accept(self, s, i, cn, sn, t, kind):
        now = CLOCK.now
        a = spaccept.good_assertion(now=now)
        a["issuer"] = self.ent[i]
        a["subject"]["name_id_xml"] = nameid_xml(self.subs[s])
        a["conditions"] = {"not_before": env.iso(now - 300), "audience_restrictions": [[world.SP_ID]]}
        if cn is not None:
            a["conditions"]["not_on_or_after"] = env.iso(cn)
        st = {"authn_instant": env.iso(now), "session_index": "si-%d" % t}
        if sn is not None:
            st["session_not_on_or_after"] = env.iso(sn)
        a["authn_statements"] = [st]
        a["attributes"] = [("urn:oid:0.9.2342.19200300.100.1.1", render.NF_URI, "uid", ["u%d" % t]),
                           ("urn:oid:0.9.2342.19200300.100.1.3", render.NF_URI, "mail", ["g%d@x" % (t % 2), "all@x"])]
        r = spaccept.good_response(now=now)
        r["issuer"] = self.ent[i]
        if kind == "wrongdest":
            r["destination"] = "https://sp.example.org/acs/elsewhere"
        xml = spaccept.build(r, [a], sign_response="idp")
        if kind == "badsig":
            xml = render.corrupt_signature_value(xml)
        try:
            resp = self.sp.parse_authn_request_response(render.b64(xml), POST, {"req-1": "/"})
        except Exception:  # noqa
            return ["Rejected"]
        if resp is None:
            return ["Rejected"]
        return ["Accepted"] if getattr(resp, "assertion", None) is not None else ["Shell"]

    def run(self):
        steps = []
        try:
            for op in self.case["ops"]:
                rop = self.resolve(op)
                if self.dep:
                    self.sp = self.dep.client()
                try:
                    out = self.do(rop)
                except Exception as e:  # noqa
                    out = ["Exn", exn_name(e)]
                self.rd = self.dep.reader() if self.dep else self.sp
                steps.append({"op": rop, "out": out, "view": self.view()})
        finally:
            if self.dep:
                self.dep.close()
        return steps


def _epoch(s):
    import calendar
    import time

    return calendar.timegm(time.strptime(s, "%Y-%m-%dT%H:%M:%SZ"))


def _request_id(binding, http_info):
    if binding == REDIRECT:
        loc = dict(http_info["headers"])["Location"]
        q = urllib.parse.parse_qs(urllib.parse.urlparse(loc).query)
        xml = zlib.decompress(base64.b64decode(q["SAMLRequest"][0]), -15).decode()
    else:
        m = re.search(r'name="SAMLRequest" value="([^"]+)"', http_info["data"])
        xml = base64.b64decode(m.group(1)).decode()
    return re.search(r'\bID="([^"]+)"', xml).group(1)


def _status_of(info, b):
    if b == "S" or "Envelope" in str(info.get("data", ""))[:400]:
        xml = info["data"]
    else:
        loc = dict(info.get("headers") or []).get("Location")
        if loc:
            q = urllib.parse.parse_qs(urllib.parse.urlparse(loc).query)
            xml = zlib.decompress(base64.b64decode(q["SAMLResponse"][0]), -15).decode()
        else:
            m = re.search(r'name="SAMLResponse" value="([^"]+)"', info["data"])
            xml = base64.b64decode(m.group(1)).decode()
    if isinstance(xml, bytes):
        xml = xml.decode("utf-8")
    codes = re.findall(r'StatusCode[^>]*Value="([^"]+)"', xml)
    if codes == [render.STATUS_SUCCESS]:
        return "LSuccess"
    if STATUS_DENIED in codes:
        return "LDenied"
    if STATUS_UNKNOWN_PRINCIPAL in codes:
        return "LUnknownPrincipal"
    return "?" + ",".join(codes)


def observe(case):
    return {"steps": Runner(case).run()}


# ---------------------------------------------------------------------------- Coq terms
def n(x):
    return Raw("%d" % x)


def nl(xs):
    return Raw("[" + "; ".join("%d" % x for x in xs) + "]")


def zopt(x):
    return Raw("None" if x is None else "(Some (%d)%%Z)" % x)


def ans_coq(ans):
    return Raw("[" + "; ".join({"ok": "SA_ok", "fail": "SA_fail", "http": "SA_http", "none": "SA_none"}[a] for a in ans) + "]")


def op_coq(op):
    k = op[0]
    if k == "Login":
        return "Login %d %d (%d)%%Z %d" % (op[1], op[2], op[3], op[4])
    if k == "Accept":
        return "AcceptResponse %d %d %s %s %d %s" % (op[1], op[2], zopt(op[3]), zopt(op[4]), op[5],
                                                     {"good": "RGood", "badsig": "RBadSig", "wrongdest": "RWrongDest"}[op[6]])
    if k == "Reset":
        return "Reset %d %d" % (op[1], op[2])
    if k == "GetIdentity":
        return "GetIdentity %d %s %s" % (op[1], nl(op[2]), cq(bool(op[3])))
    if k == "GetInfoFrom":
        return "GetInfoFrom %d %d %s" % (op[1], op[2], cq(bool(op[3])))
    if k == "Stale":
        return "Stale %d %s" % (op[1], nl(op[2]))
    if k == "Tick":
        return "Tick (%d)%%Z" % op[1]
    if k == "StartLogout":
        return "StartLogout %d %s %s" % (op[1], zopt(op[2]), ans_coq(op[3]))
    if k == "LogoutResponse":
        return "LogoutResponse %d %d %s %s" % (op[1], op[2], cq(bool(op[3])), ans_coq(op[4]))
    if k == "LogoutRequest":
        return "LogoutRequest %d %d %d %s" % (op[1], op[2], op[3], BCOQ[op[4]])
    if k == "LocalLogout":
        return "LocalLogout %d" % op[1]
    raise ValueError(op)


def out_coq(o):
    k = o[0]
    if k == "Unit":
        return "OUnit"
    if k == "Exn":
        return "OExn %s" % o[1] if not o[1].startswith("Other") else "OOther"
    if k == "Identity":
        if any(t < 0 for t in o[1]):
            return "OOther"
        return "OIdentity %s %s" % (nl(o[1]), nl(o[2]))
    if k == "Info":
        if o[1] is not None and o[1] < 0:
            return "OOther"
        return "OInfo %s" % ("None" if o[1] is None else "(Some %d)" % o[1])
    if k == "Issuers":
        return "OIssuers %s" % nl(o[1])
    if k == "Bool":
        return "OBool %s" % cq(bool(o[1]))
    if k == "Timeout":
        return "OTimeout"
    if k == "Done":
        return "ODone"
    if k == "Sent":
        items = []
        for i, b, r in o[1]:
            items.append("SentSoap %d" % i if b == "soap" else "SentPending %d %s %d" % (i, BCOQ.get(b, "SOAP"), r))
        return "OSent [" + "; ".join(items) + "]"
    if k == "Status":
        return "OStatus %s" % o[1] if not o[1].startswith("?") else "OOther"
    if k in ("Accepted", "Rejected", "Shell"):
        return "O" + k
    return "OOther"


def view_coq(v):
    subs = "; ".join("SU %d %s" % (s, nl(iss)) for s, iss in v["subjects"])
    pend = "; ".join("PE %d %d %s %d %s" % (r, e, nl(l), s, zopt(x)) for r, e, l, s, x in v["pending"])
    return "VW [%s] %s [%s]" % (subs, nl(v["logged"]), pend)


def coq_case(case, obs):
    w = "W [%s] [%s]" % ("; ".join(BCOQ[b] for b in case["pref"]),
                         "; ".join("[" + "; ".join(BCOQ[b] for b in (k if k != "N" else "")) + "]" for k in case["idps"]))
    steps = []
    prev = None
    for st in obs["steps"]:
        v = view_coq(st["view"])
        steps.append("St (%s) (%s) %s" % (op_coq(st["op"]), out_coq(st["out"]), "Same" if v == prev else "(Vw (%s))" % v))
        prev = v
    return "C19.Corr.mk (%s) (%d)%%Z [%s]" % (w, case["t0"], ";\n  ".join(steps))


# ---------------------------------------------------------------------------- generation
def mk(pref, idps, subjects, ops, tag, t0=T0, deploy=None):
    c = {"t0": t0, "pref": pref, "idps": idps, "subjects": subjects, "ops": ops, "tag": tag}
    if deploy:
        c["deploy"] = dict(deploy)
    return c


def boundary_histories():
    """(a) expiry boundary table, complete"""
    cases = []
    now = T0
    for nooa_d in (None, -1, 0, 1):
        nooa = 0 if nooa_d is None else now + nooa_d
        ops = [["Login", 0, 0, nooa, 1]]
        for chk in (True, False):
            ops += [["GetInfoFrom", 0, 0, chk], ["GetIdentity", 0, [], chk], ["GetIdentity", 0, [0], chk]]
        ops += [["Stale", 0, []], ["Stale", 0, [0]], ["Tick", 1]]
        for chk in (True, False):
            ops += [["GetInfoFrom", 0, 0, chk], ["GetIdentity", 0, [], chk]]
        ops += [["Stale", 0, []], ["Reset", 0, 0], ["GetInfoFrom", 0, 0, True], ["GetInfoFrom", 0, 0, False],
                ["GetIdentity", 0, [], False], ["Stale", 0, []], ["StartLogout", 0, None, ["ok"]]]
        cases.append(mk("SRP", ["R"], [0], ops, "boundary"))
    # through a real Response: Conditions/@NotOnOrAfter x SessionNotOnOrAfter presence
    for cn in (None, now + 100):
        for sn in (None, now + 200):
            ops = [["Accept", 0, 0, cn, sn, 1, "good"], ["GetInfoFrom", 0, 0, True], ["Stale", 0, []], ["Tick", 100],
                   ["GetInfoFrom", 0, 0, True], ["Tick", 1], ["GetInfoFrom", 0, 0, True], ["Tick", 100],
                   ["GetIdentity", 0, [], True], ["Stale", 0, []],
                   ["Accept", 1, 0, now + 1000, None, 2, "badsig"], ["Accept", 1, 0, now + 1000, None, 3, "wrongdest"],
                   ["GetIdentity", 1, [], True]]
            cases.append(mk("SRP", ["R"], [0, 1], ops, "boundary-response"))
    return cases


EXP_OFFS = (None, -1, 0, 1, 100, 200)
EXP_PAIRS = ((100, None), (None, 100), (200, 100), (100, 200), (100, 100), (None, None))


def _abs(t0, d):
    return None if d is None else t0 + d


def _reads(s, iss, full=False):
    ops = [["GetInfoFrom", s, i, True] for i in iss] + [["GetIdentity", s, [], True], ["Stale", s, []]]
    if full:
        ops += [["GetInfoFrom", s, i, False] for i in iss] + [["GetIdentity", s, list(iss), True],
                                                              ["GetIdentity", s, [], False], ["Stale", s, list(iss)]]
    return ops


def response_expiry_histories():
    """(a') the expiry time a Response hands to the cache, complete: Conditions/@NotOnOrAfter x
    AuthnStatement/@SessionNotOnOrAfter, each absent / already passed / now / now+1 / +100 / +200 (every order
    of the two times, equal times, one or both absent, a passed time => the Response is refused and nothing is
    stored), read by every read operation at every boundary (t, t+1 for each time in play).  Then the same pairs
    in SEQUENCE on long-lived state: a second Response for the same (subject, issuer) replaces the first one's
    time (earlier or later), and two issuers of one subject hold different times (get_identity merges only what
    has not expired, is_logged_in as long as one of them lasts)."""
    cases = []
    now = T0
    for cd in EXP_OFFS:
        for sd in EXP_OFFS:
            ops = [["Accept", 0, 0, _abs(now, cd), _abs(now, sd), 1, "good"]] + _reads(0, [0], True)
            for dt in (1, 99, 1, 99, 1):
                ops += [["Tick", dt]] + _reads(0, [0], dt == 1)
            cases.append(mk("SRP", ["R"], [0], ops, "response-expiry"))
    for a in EXP_PAIRS:
        for b in EXP_PAIRS:
            # subject 0: issuer 0 twice (b replaces a at +50); subject 1: issuer 0 with a, issuer 1 with b
            ops = [["Accept", 0, 0, _abs(now, a[0]), _abs(now, a[1]), 1, "good"],
                   ["Accept", 1, 0, _abs(now, a[0]), _abs(now, a[1]), 2, "good"],
                   ["Accept", 1, 1, _abs(now, b[0]), _abs(now, b[1]), 3, "good"],
                   ["Tick", 50], ["Accept", 0, 0, _abs(now, b[0]), _abs(now, b[1]), 4, "good"]]
            ops += _reads(0, [0]) + _reads(1, [0, 1])
            for dt in (50, 1, 99, 1):
                ops += [["Tick", dt]] + _reads(0, [0]) + _reads(1, [0, 1], dt == 1)
            cases.append(mk("SRP", ["R", "P"], [0, 1], ops, "response-expiry-seq"))
    return cases


def expiry_random_history(rng):
    """(a'') seeded histories of Responses / direct logins / resets / clock advances / reads only: 2-3 subjects,
    2-3 issuers, times drawn around the clock (passed, now, soon, late) independently for the two attributes, the
    clock advanced preferably ONTO a stored time or one second past it"""
    nk = rng.randint(2, 3)
    ns = rng.randint(2, 3)
    idps = rng.sample(NOSOAP_KINDS, nk)
    subjects = rng.sample(range(BASE_N), ns)
    now = T0
    times = []
    ops = []
    tok = 1
    real = 0

    def when():
        return rng.choice([None, None, now - 1, now, now + 1, now + rng.randint(2, 40), now + rng.randint(41, 90), now + 500])

    for _ in range(rng.randint(12, 30)):
        x = rng.random()
        s, i = rng.randrange(ns), rng.randrange(nk)
        if x < 0.2 and real < 6:
            cn, sn = when(), when()
            real += 1
            ops.append(["Accept", s, i, cn, sn, tok, rng.choice(["good"] * 6 + ["badsig", "wrongdest"])])
            times += [t for t in (cn, sn) if t is not None and t >= now]
            tok += 1
        elif x < 0.28:
            t = when()
            ops.append(["Login", s, i, 0 if t is None else t, tok])
            times += [t] if t is not None and t >= now else []
            tok += 1
        elif x < 0.32:
            ops.append(["Reset", s, i])
        elif x < 0.55:
            ahead = sorted(set(t for t in times if t >= now))
            if ahead and rng.random() < 0.75:
                t = ahead[0] if rng.random() < 0.7 else rng.choice(ahead)
                dt = t - now + rng.choice([0, 1])
            else:
                dt = rng.choice([0, 1, 2, 30])
            ops.append(["Tick", dt])
            now += dt
        else:
            y = rng.random()
            if y < 0.4:
                ops.append(["GetInfoFrom", s, i, rng.random() < 0.85])
            elif y < 0.8:
                ops.append(["GetIdentity", s, rng.choice([[], [], [i], list(range(nk))]), rng.random() < 0.85])
            else:
                ops.append(["Stale", s, rng.choice([[], [i], list(range(nk))])])
    return mk(rng.choice(PREFS), idps, subjects, ops, "random-expiry")


def flow_histories(prefs):
    """(b) logout flows over every ordered world of 1 or 2 IdPs, every answer order"""
    cases = []
    worlds = [[k] for k in KINDS] + [[a, b] for a in KINDS for b in KINDS if a != b]
    for pref in prefs:
        for idps in worlds:
            k = len(idps)
            orders = [[0]] if k == 1 else [[0, 1], [1, 0]]
            for order in orders:
                ops = [["Login", 0, i, T0 + 1000, i + 1] for i in range(k)]
                ops.append(["StartLogout", 0, T0 + 500, ["ok"] * k])
                for j in order:
                    ops.append(["LogoutResponse", {"live": j}, "addr", True, ["ok"] * k, "R" if j == 0 else "P"])
                # duplicate of an old id, unknown id, wrong issuer on what is left, re-login, left-overs
                ops.append(["LogoutResponse", {"old": 0}, "addr", True, ["ok"] * k, "R"])
                ops.append(["LogoutResponse", {"unknown": 1}, 0, True, ["ok"] * k, "P"])
                ops.append(["Login", 0, 0, T0 + 1000, 7])
                ops.append(["LogoutResponse", {"live": 0}, "addr", True, ["ok"] * k, "R"])
                ops.append(["LogoutResponse", {"live": 0}, (k - 1), True, ["ok"] * k, "R"])
                ops.append(["GetIdentity", 0, [], True])
                cases.append(mk(pref, idps, [0, 1], ops, "flow"))
    return cases


def flow_variants():
    """deadline, failing SOAP peers, wrong issuer, failure status on the standard two-IdP worlds"""
    cases = []
    for idps in (["R", "P"], ["R", "S"], ["S", "R"], ["SR", "PR"], ["R", "N"], ["S", "SRP"]):
        for dl in (None, T0 - 1, T0, T0 + 10):
            for ans in (["ok", "ok"], ["fail", "ok"], ["http", "ok"], ["none", "fail"], ["ok", "http"]):
                ops = [["Login", 0, 0, T0 + 1000, 1], ["Login", 0, 1, T0 + 1000, 2], ["Login", 1, 0, T0 + 1000, 3],
                       ["StartLogout", 0, dl, ans], ["Tick", 5],
                       ["LogoutResponse", {"live": 0}, "addr", False, ans, "R"],
                       ["LogoutResponse", {"live": 0}, 1, True, ans, "R"],
                       ["LogoutResponse", {"live": 0}, "addr", True, ans, "P"], ["Tick", 10],
                       ["LogoutResponse", {"live": 0}, "addr", True, ans, "R"],
                       ["LogoutResponse", {"live": 1}, "addr", True, ans, "R"],
                       ["GetIdentity", 0, [], True], ["GetIdentity", 1, [], True]]
                cases.append(mk("SRP", idps, [0, 1], ops, "flow-variant"))
    return cases


def three_idp_histories(thorough):
    """(b') three front-channel IdPs: every sequence of four answers chosen among the live requests (a party
    can hold two requests of the same logout: moot second answers, class 4), then a re-login and a late answer"""
    import itertools

    cases = []
    triples = [["R", "P", "RP"], ["PR", "R", "P"]] + ([["P", "RP", "PR"]] if thorough else [])
    for idps in triples:
        for seq in itertools.product(range(3), repeat=4):
            ops = [["Login", 0, i, T0 + 1000, i + 1] for i in range(3)] + [["Login", 1, 0, T0 + 1000, 9]]
            ops.append(["StartLogout", 0, T0 + 500, ["ok"] * 3])
            for j in seq:
                ops.append(["LogoutResponse", {"live": j}, "addr", True, ["ok"] * 3, "RP"[j % 2]])
            ops += [["GetIdentity", 0, [], True], ["Login", 0, 0, T0 + 1000, 7],
                    ["LogoutResponse", {"old": seq[0]}, "addr", True, ["ok"] * 3, "R"],
                    ["LogoutResponse", {"live": 0}, "addr", True, ["ok"] * 3, "R"],
                    ["GetIdentity", 0, [], True], ["GetIdentity", 1, [], True]]
            cases.append(mk("SRP", idps, [0, 1], ops, "flow3"))
    return cases


def soap_pass_histories():
    """(b'') mixed logouts (front channel, SOAP, front channel): the SOAP IdP answers ok / http error / failure status
    in each of three passes, with and without the third IdP's session information reset (a pass that raises
    after the SOAP IdP has answered: class 5; or before it is reached: it has then not answered)"""
    import itertools

    cases = []
    for idps, ri in ((["R", "S", "P"], 2), (["P", "SR", "R"], 2), (["S", "R", "P"], 2), (["R", "P", "S"], 1)):
        si = [i for i, k in enumerate(idps) if k.startswith("S")][0]
        for reset in (False, True):
            for a1, a2, a3 in itertools.product(["ok", "http", "fail"], repeat=3):
                def ans(a):
                    return ["ok" if j != si else a for j in range(3)]

                ops = [["Login", 0, i, T0 + 1000, i + 1] for i in range(3)] + [["Login", 1, si, T0 + 1000, 8]]
                if reset:
                    ops.append(["Reset", 0, ri])
                ops += [["StartLogout", 0, None, ans(a1)], ["GetIdentity", 0, [], True], ["Login", 0, ri, T0 + 1000, 4],
                        ["LogoutResponse", {"live": 0}, "addr", True, ans(a2), "R"], ["GetIdentity", 0, [], True],
                        ["LogoutResponse", {"live": 0}, "addr", True, ans(a3), "P"],
                        ["GetIdentity", 0, [], True], ["GetIdentity", 1, [], True]]
                cases.append(mk("SRP", idps, [0, 1], ops, "soap-pass"))
    return cases


def request_histories():
    """(c) IdP-initiated LogoutRequest: named x current x IdP kind x binding"""
    cases = []
    for kind in KINDS:
        for b in "RPS":
            ops = []
            t = 1
            for named in (0, 1):
                for cur in (0, 1):
                    ops += [["Login", 0, 0, T0 + 1000, t], ["Login", 1, 0, T0 + 1000, t + 1]]
                    t += 2
                    ops += [["LogoutRequest", named, cur, 0, b], ["GetIdentity", 0, [], True], ["GetIdentity", 1, [], True]]
            ops += [["LogoutRequest", 0, 0, 0, b], ["LogoutRequest", 0, 0, 0, b], ["LogoutRequest", 2, 2, 0, b]]
            cases.append(mk("SRP", [kind], [0, 1, 2], ops, "request"))
    return cases


def shape_histories():
    """(e) the content of the NameID, complete over the pool: every member of every family of SHAPE_FAMILIES takes
    the role of subject 0 with its two neighbours in the family (the NameIDs a wrong coding would confuse it with) as
    subjects 1 and 2, in three histories that between them go through every place where the coded form is written
    or read back: Cache.set / get / get_identity / active / delete, Cache.subjects (every view), the pending entries
    of a front-channel logout and handle_logout_response's local_logout(decode(..)) at completion, its do_logout(decode
    (..)) continuation and the 504 branch after the deadline, global_logout(<coded string>), the NameID arriving in
    XML (Response, LogoutRequest over the three bindings) and compared with the current subject."""
    cases = []
    late = T0 + 1000
    for fam, members in SHAPE_IDX.items():
        k = len(members)
        for p in range(k):
            subjects = [members[p], members[(p + 1) % k], members[(p + 2) % k]]
            ok2 = ["ok", "ok"]
            # A: front-channel logout to completion; coded-string form with the deadline passing before the answer;
            #    deadline already passed at the start
            ops = [["Login", 0, 0, late, 1], ["Login", 0, 1, late, 2], ["Login", 1, 0, late, 3], ["Login", 2, 1, late, 4],
                   ["Login", 1, 1, late, 5], ["GetInfoFrom", 0, 0, True], ["GetIdentity", 0, [], True], ["GetIdentity", 1, [], True],
                   ["GetIdentity", 2, [], True],
                   ["StartLogout", 0, T0 + 500, ok2], ["LogoutResponse", {"live": 0}, "addr", True, ok2, "R"],
                   ["GetIdentity", 0, [], True], ["LogoutResponse", {"live": 0}, "addr", True, ok2, "P"],
                   ["GetIdentity", 0, [], True], ["GetInfoFrom", 0, 0, False], ["GetIdentity", 1, [], True],
                   ["GetIdentity", 2, [], True],
                   ["StartLogout", 1, T0 + 500, ok2, "str"], ["Tick", 600],
                   ["LogoutResponse", {"live": 0}, "addr", True, ok2, "R"], ["GetIdentity", 1, [], True],
                   ["GetIdentity", 2, [], True],
                   ["StartLogout", 2, T0, ok2, "str"], ["GetIdentity", 2, [], True], ["GetInfoFrom", 2, 1, False]]
            cases.append(mk("SRP", ["R", "P"], subjects, ops, "shape-" + fam))
            # B: the NameID arrives in XML: Responses, IdP-initiated LogoutRequests (named / current: this subject or
            #    its neighbour) over the three bindings; synchronous (SOAP) logout asked for by coded string
            ops = [["Accept", 0, 0, late, None, 1, "good"], ["Accept", 1, 0, late, None, 2, "good"], ["Login", 2, 0, late, 3],
                   ["Accept", 0, 1, None, late, 4, "good"],
                   ["GetInfoFrom", 0, 0, True], ["GetInfoFrom", 1, 0, True], ["GetIdentity", 0, [], True], ["Stale", 0, []],
                   ["LogoutRequest", 1, 0, 0, "R"], ["GetIdentity", 0, [], True], ["GetIdentity", 1, [], True],
                   ["LogoutRequest", 0, 0, 0, "P"], ["GetIdentity", 0, [], True], ["GetIdentity", 1, [], True],
                   ["GetIdentity", 2, [], True],
                   ["LogoutRequest", 1, 1, 0, "S"], ["LogoutRequest", 2, 2, 0, "R"], ["LogoutRequest", 2, 2, 0, "R"],
                   ["Accept", 0, 1, late, None, 5, "good"], ["Login", 1, 1, late, 6],
                   ["StartLogout", 0, None, ok2, "str"], ["GetIdentity", 0, [], True], ["GetIdentity", 1, [], True],
                   ["StartLogout", 1, None, ["ok", "http"]], ["StartLogout", 1, None, ok2, "str"], ["GetIdentity", 1, [], True]]
            cases.append(mk("SRP", ["R", "S"], subjects, ops, "shape-" + fam))
            # C: the three neighbours side by side at ONE issuer with different times: isolation, expiry, reset, local logout
            ops = [["Login", 0, 0, T0 + 10, 1], ["Login", 1, 0, T0 + 20, 2], ["Login", 2, 0, T0 + 30, 3]]
            for s in range(3):
                ops += [["GetInfoFrom", s, 0, True], ["GetIdentity", s, [], True]]
            ops += [["Tick", 11]]
            for s in range(3):
                ops += [["GetInfoFrom", s, 0, True], ["GetIdentity", s, [], False], ["Stale", s, []]]
            ops += [["Reset", 1, 0], ["GetInfoFrom", 1, 0, False], ["GetInfoFrom", 0, 0, False], ["GetInfoFrom", 2, 0, True],
                    ["LocalLogout", 2], ["GetIdentity", 2, [], False], ["GetIdentity", 0, [], False], ["LocalLogout", 2],
                    ["StartLogout", 1, None, ["ok"], "str"], ["StartLogout", 0, None, ["ok"], "str"],
                    ["LogoutResponse", {"live": 0}, "addr", True, ["ok"], "P"], ["GetIdentity", 0, [], False],
                    ["GetIdentity", 1, [], False]]
            cases.append(mk("SRP", ["P"], subjects, ops, "shape-" + fam))
    return cases


def shape_random_history(rng, idx):
    """(e') a random history of (d) whose subjects are drawn from ONE family of the pool (or, one time in four, from
    the whole pool), and whose global logouts are asked for by coded string one time in three"""
    c = random_history(rng, idx)
    ns = len(c["subjects"])
    if rng.random() < 0.75:
        fam = rng.choice(sorted(SHAPE_IDX))
        c["subjects"] = rng.sample(SHAPE_IDX[fam], ns)
    else:
        c["subjects"] = rng.sample(range(len(NAMEIDS)), ns)
    for op in c["ops"]:
        if op[0] == "StartLogout" and rng.random() < 0.34:
            op.append("str")
    c["tag"] = "random-shape"
    return c


def random_history(rng, idx):
    nosoap = rng.random() < 0.5
    nk = rng.randint(1, 3)
    idps = rng.sample(NOSOAP_KINDS if nosoap else KINDS, nk)
    if nosoap and rng.random() < 0.1:
        idps[rng.randrange(nk)] = "N"
    ns = rng.randint(1, 3)
    subjects = rng.sample(range(BASE_N), ns)
    pref = rng.choice(PREFS)
    length = rng.randint(8, 40)
    st = {"now": T0, "tok": 1, "real": 0}
    ops = []
    maybe_in = set()      # subjects that probably have a session (generator's guess only)

    def answers():
        return [rng.choice(["ok", "ok", "ok", "ok", "fail", "http", "none"]) for _ in range(nk)]

    def login(s=None):
        s = rng.randrange(ns) if s is None else s
        i = rng.randrange(nk)
        now = st["now"]
        if rng.random() < 0.12 and st["real"] < 4:
            st["real"] += 1
            cn = rng.choice([None, now + rng.randint(0, 60), now + 1000])
            sn = rng.choice([None, None, now + rng.randint(0, 60), now + 2000])
            ops.append(["Accept", s, i, cn, sn, st["tok"], rng.choice(["good", "good", "good", "badsig", "wrongdest"])])
        else:
            nooa = rng.choice([0, now - 1, now, now + 1, now + rng.randint(2, 50), now + 1000, now + 1000, now + 1000])
            ops.append(["Login", s, i, nooa, st["tok"]])
        st["tok"] += 1
        maybe_in.add(s)

    def read():
        s = rng.randrange(ns)
        i = rng.randrange(nk)
        y = rng.random()
        if y < 0.4:
            ops.append(["GetIdentity", s, rng.choice([[], [], [i], sorted(rng.sample(range(nk), rng.randint(1, nk)))]),
                        rng.random() < 0.8])
        elif y < 0.8:
            ops.append(["GetInfoFrom", s, i, rng.random() < 0.8])
        else:
            ops.append(["Stale", s, rng.choice([[], [], [i], list(range(nk))])])

    def tick():
        dt = rng.choice([0, 1, 1, 2, 5, 30, 60, 400, 1200])
        ops.append(["Tick", dt])
        st["now"] += dt

    def response():
        y = rng.random()
        rsel = {"live": rng.randrange(6)} if y < 0.8 else ({"old": rng.randrange(12)} if y < 0.93 else {"unknown": rng.randrange(5)})
        isel = "addr" if rng.random() < 0.88 else rng.randrange(nk)
        ops.append(["LogoutResponse", rsel, isel, rng.random() < 0.92, answers(), rng.choice("RP")])

    def start():
        cand = sorted(maybe_in) or list(range(ns))
        s = rng.choice(cand) if rng.random() < 0.9 else rng.randrange(ns)
        now = st["now"]
        dl = rng.choice([None, None, now + 60, now + 60, now + 600, now + 5, now, now - 1])
        ops.append(["StartLogout", s, dl, answers()])
        for _ in range(rng.choice([0, 1, 1, 2, 2, 3])):
            z = rng.random()
            if z < 0.15:
                tick()
            elif z < 0.25:
                read()
            elif z < 0.32:
                login(s)
            response()

    for s in range(ns):
        login(s)
        if rng.random() < 0.6:
            login(s)
    while len(ops) < length:
        x = rng.random()
        if x < 0.22:
            login()
        elif x < 0.42:
            read()
        elif x < 0.52:
            tick()
        elif x < 0.70:
            start()
        elif x < 0.84:
            response()
        elif x < 0.93:
            named = rng.randrange(ns)
            cur = named if rng.random() < 0.6 else rng.randrange(ns)
            ops.append(["LogoutRequest", named, cur, rng.randrange(nk), rng.choice("RPS")])
            if named == cur:
                maybe_in.discard(cur)
        elif x < 0.97:
            ops.append(["Reset", rng.randrange(ns), rng.randrange(nk)])
        else:
            s = rng.randrange(ns)
            ops.append(["LocalLogout", s])
            maybe_in.discard(s)
    return mk(pref, idps, subjects, ops[:40], "random-nosoap" if nosoap and "N" not in idps else "random", t0=T0)


def _drain(n, k, b="R"):
    """deliver what is still out, oldest first: every request the SP has sent gets its answer in the end"""
    return [["LogoutResponse", {"sent": 0}, "addr", True, ["ok"] * k, b if j % 2 == 0 else "P"] for j in range(n)]


def concurrent_histories(thorough):
    """(f) SEVERAL logouts in flight at the same identity providers (round 6).  Two subjects (and a bystander) are
    logged in at the same front-channel IdPs; both start a global logout before any answer arrives; then EVERY
    sequence of three answers chosen among the requests handed out and not yet answered (the j-th oldest, j < 4;
    continuation requests and second, moot requests to a party included), then every request still out is answered,
    oldest first: each answer to a request the SP has sent must be consumed, each session must end exactly with
    its last answer, the bystander and the other subject's pending requests are nobody else's business.
    Variants = how the two lists of IdPs still to answer relate: `same` (same IdPs, same login order: lists EQUAL
    by value, distinct objects), `reversed` (same IdPs, other order), `subset` (subject 1 only at the first IdP:
    the lists become equal when subject 0's other IdP has answered), `twice` (subject 0 starts its logout twice:
    two transactions of ONE subject with equal lists, plus subject 1), `deadline` (subject 0's deadline passes
    after the second answer: 504 branch, subject 1 unaffected)."""
    import itertools

    cases = []
    late = T0 + 1000
    worlds2 = [["R", "P"]] + ([["RP", "R"], ["P", "PR"]] if thorough else [])
    for idps in worlds2:
        ok = ["ok"] * 2
        for variant in ("same", "reversed", "subset", "twice", "deadline"):
            # quick tier: the three oldest requests for the variants other than `same`
            for seq in itertools.product(range(4 if thorough or variant == "same" else 3), repeat=3):
                ops = [["Login", 0, 0, late, 1], ["Login", 0, 1, late, 2]]
                if variant == "reversed":
                    ops += [["Login", 1, 1, late, 3], ["Login", 1, 0, late, 4]]
                elif variant == "subset":
                    ops += [["Login", 1, 0, late, 3]]
                else:
                    ops += [["Login", 1, 0, late, 3], ["Login", 1, 1, late, 4]]
                ops += [["Login", 2, 0, late, 5]]
                dl0 = T0 + 50 if variant == "deadline" else T0 + 500
                ops += [["StartLogout", 0, dl0, ok], ["StartLogout", 1, None if variant == "deadline" else T0 + 600, ok]]
                if variant == "twice":
                    ops += [["StartLogout", 0, T0 + 500, ok]]
                for n, j in enumerate(seq):
                    if variant == "deadline" and n == 2:
                        ops += [["Tick", 100]]
                    ops += [["LogoutResponse", {"sent": j}, "addr", True, ok, "RP"[j % 2]]]
                ops += [["GetIdentity", 0, [], True], ["GetIdentity", 1, [], True]]
                ops += _drain(6 if variant == "twice" else 5, 2)
                ops += [["GetIdentity", 0, [], True], ["GetIdentity", 1, [], True], ["GetIdentity", 2, [], True],
                        ["LogoutResponse", {"old": seq[0]}, "addr", True, ok, "R"]]
                cases.append(mk("SRP", idps, [0, 1, 2], ops, "concurrent-" + variant))
    # one IdP, up to three subjects logging out at the same time (the lists are all [IdP]), every order of answers
    for kind in ("R", "P", "RP") + (("PR",) if thorough else ()):
        for nsub in (2, 3):
            for seq in itertools.product(range(nsub), repeat=nsub):
                ops = [["Login", s, 0, late, s + 1] for s in range(3)]
                ops += [["StartLogout", s, T0 + 500, ["ok"]] for s in range(nsub)]
                for j in seq:
                    ops += [["LogoutResponse", {"sent": j}, "addr", True, ["ok"], "RP"[j % 2]]]
                    ops += [["GetIdentity", s, [], True] for s in range(3)]
                ops += _drain(nsub, 1)
                ops += [["GetIdentity", s, [], True] for s in range(3)]
                cases.append(mk("SRP", [kind], [0, 1, 2], ops, "concurrent-one-idp"))
    return cases


DEPLOYS = [
    {"mode": "one", "state": "none", "ident": "none"},
    {"mode": "one", "state": "dict", "ident": "cache"},
    {"mode": "one", "state": "userdict", "ident": "cache"},
    {"mode": "one", "state": "obj", "ident": "cache"},
    {"mode": "one", "state": "dict", "ident": "file"},
    {"mode": "per-op", "state": "dict", "ident": "cache"},
    {"mode": "per-op", "state": "userdict", "ident": "cache"},
    {"mode": "per-op", "state": "obj", "ident": "cache"},
    {"mode": "workers", "n": 2, "state": "dict", "ident": "cache"},
    {"mode": "workers", "n": 3, "state": "userdict", "ident": "cache"},
    {"mode": "workers", "n": 3, "sched": [0, 0, 1, 2, 1], "state": "obj", "ident": "cache"},
    {"mode": "restart", "every": 3, "state": "dict", "ident": "cache"},
    {"mode": "restart", "every": 2, "state": "userdict", "ident": "cache"},
]


def deploy_histories(thorough):
    """(g) the DEPLOYMENT (round 6): who owns the SP's identity cache and state store, and how many Saml2Client
    objects work on them - every entry of DEPLOYS (one long-lived client built by the real constructor with the
    default stores / with the application's EMPTY dict, UserDict (falsy when empty), mapping object without __len__,
    shelve-backed identity cache; a fresh client for every operation; 2-3 workers; restarts) x logout flows over four
    worlds (front channel, SOAP + front channel, three IdPs; thorough: mixed endpoints, an IdP without SLO endpoint) x answer order, each with a
    duplicate answer, an unknown InResponseTo, an answer from the wrong issuer, a re-login, an IdP-initiated
    LogoutRequest, a local logout and a real Response accepted by one client and read through another; and two
    concurrent logouts of (f).  Requests are addressed by the runner's own record of what was handed out."""
    cases = []
    late = T0 + 1000
    worlds = [["R"], ["R", "P"], ["S", "R"], ["P", "R", "RP"]] + ([["SR", "PR"], ["R", "N"]] if thorough else [])
    for dep in DEPLOYS:
        for idps in worlds:
            k = len(idps)
            ok = ["ok"] * k
            for order in ("fwd", "rev"):
                ops = [["Login", 0, i, late, i + 1] for i in range(k)] + [["Login", 1, 0, late, 9]]
                ops += [["StartLogout", 0, T0 + 500, ok], ["GetIdentity", 0, [], True]]
                first = {"sent": 0} if order == "fwd" else {"sent": k - 1}
                ops += [["LogoutResponse", first, "addr", True, ok, "R"],
                        ["LogoutResponse", {"sent": 0}, (k - 1), True, ok, "P"],       # maybe from the wrong issuer
                        ["LogoutResponse", {"unknown": 1}, 0, True, ok, "P"],
                        ["LogoutResponse", {"sent": 0}, "addr", False, ok, "R"]]     # failure status
                ops += _drain(k + 1, k)
                ops += [["GetIdentity", 0, [], True], ["GetIdentity", 1, [], True],
                        ["LogoutResponse", {"old": 0}, "addr", True, ok, "R"],         # duplicate
                        ["Accept", 0, 0, late, None, 11, "good"], ["GetInfoFrom", 0, 0, True],
                        ["Accept", 2, 0, late, None, 12, "badsig"],
                        ["StartLogout", 0, None, ok], ["StartLogout", 1, None, ok],
                        ["LogoutRequest", 1, 1, 0, "R"], ["LogoutRequest", 0, 1, 0, "P"]]
                ops += _drain(2, k)
                ops += [["Login", 1, 0, late, 13], ["StartLogout", 1, T0 + 5, ok], ["Tick", 10], ["LocalLogout", 0]]
                ops += _drain(1, k)
                ops += [["GetIdentity", 0, [], True], ["GetIdentity", 1, [], True], ["Stale", 1, []]]
                cases.append(mk("SRP", idps, [0, 1, 2], ops, "deploy-" + dep["mode"], deploy=dep))
        if dep["mode"] == "one" and dep["state"] != "dict":
            continue
        # two logouts in flight (f) under this deployment
        for variant, seq in (("same", (0, 1, 1)), ("same", (2, 0, 2)), ("subset", (1, 0, 0))):
            ok = ["ok"] * 2
            ops = [["Login", 0, 0, late, 1], ["Login", 0, 1, late, 2], ["Login", 1, 0, late, 3]]
            ops += [["Login", 1, 1, late, 4]] if variant == "same" else []
            ops += [["Login", 2, 0, late, 5], ["StartLogout", 0, T0 + 500, ok], ["StartLogout", 1, T0 + 600, ok]]
            ops += [["LogoutResponse", {"sent": j}, "addr", True, ok, "RP"[j % 2]] for j in seq]
            ops += _drain(6, 2)
            ops += [["GetIdentity", s, [], True] for s in range(3)]
            cases.append(mk("SRP", ["R", "P"], [0, 1, 2], ops, "deploy-" + dep["mode"], deploy=dep))
    return cases


def deploy_random_history(rng, idx):
    """(g') a random history of (d) under a random deployment; the adaptive `live` selectors (what the client has on
    file) are turned into `sent` selectors (what the SP has handed out) two times in three"""
    c = random_history(rng, idx)
    dep = dict(rng.choice([d for d in DEPLOYS if d["ident"] != "file"]))
    if dep["mode"] == "workers":
        dep["sched"] = [rng.randrange(dep["n"]) for _ in range(rng.randint(3, 7))]
    if rng.random() < 0.67:
        for op in c["ops"]:
            if op[0] == "LogoutResponse" and isinstance(op[1], dict) and "live" in op[1]:
                op[1] = {"sent": op[1]["live"]}
    c["deploy"] = dep
    c["tag"] = "random-deploy"
    return c


def concurrent_random_history(rng, idx):
    """(f') seeded: 2-3 subjects logged in at 1-3 front-channel IdPs in seeded orders / subsets, all start a global
    logout (some twice), then answers drawn among the requests handed out, with re-logins, ticks, IdP-initiated
    requests and reads in between, then the rest is delivered"""
    nk = rng.randint(1, 3)
    ns = rng.randint(2, 3)
    idps = [rng.choice(NOSOAP_KINDS) for _ in range(nk)]
    idps = list(dict.fromkeys(idps)) or ["R"]
    nk = len(idps)
    ok = ["ok"] * nk
    late = T0 + 1000
    ops = []
    tok = 1
    for s in range(ns):
        order = rng.sample(range(nk), rng.randint(1, nk)) if rng.random() < 0.5 else list(range(nk))
        for i in order:
            ops.append(["Login", s, i, late, tok])
            tok += 1
    starters = [s for s in range(ns) if rng.random() < 0.9] or [0]
    rng.shuffle(starters)
    for s in starters:
        ops.append(["StartLogout", s, rng.choice([None, T0 + 500, T0 + 30]), ok])
    if rng.random() < 0.3:
        ops.append(["StartLogout", rng.choice(starters), T0 + 500, ok])
    for _ in range(rng.randint(2, 3 * nk + 2)):
        x = rng.random()
        if x < 0.08:
            ops.append(["Tick", rng.choice([1, 40, 40, 600])])
        elif x < 0.14:
            ops.append(["Login", rng.randrange(ns), rng.randrange(nk), late, tok])
            tok += 1
        elif x < 0.18:
            s = rng.randrange(ns)
            ops.append(["LogoutRequest", s, s, rng.randrange(nk), rng.choice("RP")])
        elif x < 0.26:
            ops.append(["GetIdentity", rng.randrange(ns), [], True])
        else:
            ops.append(["LogoutResponse", {"sent": rng.randrange(5)}, "addr" if rng.random() < 0.93 else rng.randrange(nk),
                        rng.random() < 0.95, ok, rng.choice("RP")])
    ops += _drain(ns * nk + 2, nk)
    ops += [["GetIdentity", s, [], True] for s in range(ns)]
    c = mk(rng.choice(PREFS), idps, rng.sample(range(BASE_N), ns), ops[:60], "random-concurrent")
    if rng.random() < 0.4:
        c["deploy"] = dict(rng.choice([d for d in DEPLOYS if d["mode"] != "one"]))
    return c


def generate(ctx):
    rng = ctx.rng
    cases = boundary_histories()
    cases += response_expiry_histories()
    cases += flow_histories(PREFS if ctx.thorough else ["SRP"])
    if not ctx.thorough:
        # the other preference orders on a seeded third of the worlds
        extra = flow_histories(["RPS", "PSR"])
        cases += rng.sample(extra, len(extra) // 3)
    cases += flow_variants()
    cases += three_idp_histories(ctx.thorough)
    cases += soap_pass_histories()
    cases += request_histories()
    for k in range(3000 if ctx.thorough else 300):
        cases.append(random_history(rng, k))
    # a generator of its own (derived seed): the cases above stay what they were
    import random as _random

    erng = _random.Random(ctx.seed * 7919 + 19)
    for k in range(400 if ctx.thorough else 40):
        cases.append(expiry_random_history(erng))
    # the content of the NameID (round 4): complete over the pool, then seeded histories (again a generator of its own)
    cases += shape_histories()
    srng = _random.Random(ctx.seed * 7919 + 23)
    for k in range(800 if ctx.thorough else 80):
        cases.append(shape_random_history(srng, k))
    # round 6: several logouts in flight at the same IdPs; the deployment (whose stores, how many client objects)
    cases += concurrent_histories(ctx.thorough)
    cases += deploy_histories(ctx.thorough)
    drng = _random.Random(ctx.seed * 7919 + 29)
    for k in range(400 if ctx.thorough else 40):
        cases.append(concurrent_random_history(drng, k))
    for k in range(400 if ctx.thorough else 40):
        cases.append(deploy_random_history(drng, k))
    return cases


# ---------------------------------------------------------------------------- evidence helpers
def _world_class(case):
    ks = case["idps"]
    return ("soap" if any("S" in k for k in ks) else "front") + ("+noslo" if "N" in ks else "") + str(len(ks))


def nontrivial(case, obs):
    keys = set()
    for st in obs["steps"]:
        o = st["out"]
        keys.add((st["op"][0], o[0] if o[0] != "Exn" else "Exn:" + o[1]))
    return [_world_class(case), sorted(keys)] if len(keys) > 1 else None


def histogram(cases, observed):
    h = {"by_tag": {}, "ops": {}, "outs": {}, "length": {}, "world": {}, "steps": 0, "max_pending": 0}
    for c, o in zip(cases, observed):
        h["by_tag"][c["tag"]] = h["by_tag"].get(c["tag"], 0) + 1
        h["world"][_world_class(c)] = h["world"].get(_world_class(c), 0) + 1
        lb = "%d-%d" % (len(c["ops"]) // 10 * 10, len(c["ops"]) // 10 * 10 + 9)
        h["length"][lb] = h["length"].get(lb, 0) + 1
        for st in o["steps"]:
            h["steps"] += 1
            k = st["op"][0]
            h["ops"][k] = h["ops"].get(k, 0) + 1
            ok = st["out"][0] if st["out"][0] != "Exn" else "Exn:" + st["out"][1]
            key = k + "->" + ok
            h["outs"][key] = h["outs"].get(key, 0) + 1
            h["max_pending"] = max(h["max_pending"], len(st["view"]["pending"]))
    return h


def explain_term(term):
    return "C19.Corr.explain (%s)" % term
