"""C14 — bindings deliver messages and relay state intact and inert.

Sub-checks (one constructor of C14.Corr.case each):
  stdlib : the Coq models of base64 / html.escape / urllib.parse against the Python standard library
  post   : Entity.apply_binding(HTTP-POST) / pack.http_form_post_message -> HTML form, read back with
           html.parser, payload through Entity.unravel
  redir  : Entity.apply_binding(HTTP-Redirect) / pack.http_redirect_message -> Location, read back with
           urllib.parse, payload through Entity.unravel
  arturl : Entity.apply_binding(HTTP-Artifact) (httpbase.use_http_artifact)
  uriurl : Entity.apply_binding(URI) / HTTPBase.use_http_uri (request side: ...?ID=...)
  soap   : Entity.apply_binding(SOAP) (pack.make_soap_enveloped_saml_thingy), read back with
           soap.parse_soap_enveloped_saml_thingy / Entity.unravel
  unravel: Entity.unravel on deflated / plain / malformed payloads, every binding
  art    : entity.create_artifact + Entity.artifact2destination
  artfed : the same through the resolver's METADATA on a long-lived Saml2Client / Server: federations of several
           documents and entities (SP / IdP roles, several descriptors, with / without ArtifactResolutionService)
           -> Entity.__init__ / reload_metadata -> MetadataStore.construct_source_id -> Entity.sourceid;
           create_artifact / Entity.use_artifact at the issuer, apply_binding(HTTP-Artifact), SAMLart read from
           the URL, artifact2destination at the resolver; judged against the metadata documents.  The documents
           reach the resolver(s) as inline text, files, a directory, URLs or exported mdfiles, configured old-style
           or as a class list, refreshed in place or under new names, by reload_metadata / store reload + new
           Entity / new Config / a failing reload; one or two resolvers per process
"""
import base64
import hashlib
import html
import html.parser
import os
import re
import urllib.parse
import zlib

from harness import common, env, render, world
from harness.common import Raw, cq

PID = "C14"
PARALLEL = 6
CASE_TYPE = "C14.Corr.case"
RUNNER = "C14.Corr.run"
# 1: open.  2, 3, 4, 5, 6: repaired in /repo (status fixed): a case in these classes is a VIOLATION again.
FINDING_CLASSES = {1: "C14-F1", 2: "C14-F2", 3: "C14-F3", 4: "C14-F4", 5: "C14-F8", 6: "C14-F9"}
RULE = ("stdlib: seeded random + boundary byte strings through base64/html/urllib.parse and the Coq models (equality of "
        "outputs); post/redir/arturl: complete product RelayState alphabet x destination alphabet for a small unicode "
        "message (destinations: every combination of none/empty/non-empty query, trailing '?' '&', fragment, markup, "
        "unicode, control characters), every message of the pool (library-made by Saml2Client/Server incl. a signed one, "
        "independently rendered with unicode, with/without XML declaration, one-line/multi-line/CRLF, long) x sampled "
        "RelayState/destination, message types SAMLRequest/SAMLResponse/SAMLart/other; uriurl: destination alphabet x "
        "RelayState sample; soap: every pool message incl. declaration variants and declaration text inside the body; "
        "unravel: deflated, plain and malformed payloads x all bindings; art: endpoint indexes 0..300 + sample of "
        "301..65535 (thorough: all 0..65535), entityIDs incl. unicode, metadata via MetadataStore.construct_source_id and "
        "synthetic maps (missing descriptor / service keys, several descriptors), malformed artifacts; artfed: operation "
        "sequences on a long-lived Saml2Client / Server - construction, then 0..3 reload_metadata (order reversed / rotated, "
        "members removed / added / moved to other endpoints / given other roles, documents merged) - over federations of 1..5 "
        "metadata documents (EntitiesDescriptor or single EntityDescriptor) with 1..7 entities, each entity IdP, SP, both, two "
        "descriptors of one role, descriptors without ArtifactResolutionService, attribute authority only; entityIDs incl. "
        "unicode, markup characters, one a prefix of another, case variants, a duplicated one; index attributes canonical, "
        "with white space, with leading zeros; every 2- and 3-member federation whose members all publish index 0 and 1 in "
        "every document order; after every load: every member x both roles x every published index + an unpublished one, "
        "issuers that are not (or no longer) in the metadata; artifacts by create_artifact and by Entity.use_artifact; "
        "where the documents come from: every kind of metadata source (inline text, file, directory of files, URL served by a "
        "local stand-in for HTTPBase.send, exported mdfile) in both configuration styles (dict keyed by type / list of class "
        "entries), refreshed in place (same source names, new content) or under new names, through Entity.reload_metadata, "
        "through MetadataStore.reload + a new Entity on the same Config, through a new Config, and by a reload that fails "
        "half-way (the resolver must keep serving what it had); one or two resolvers in the process that read the same files "
        "at different times, each judged against what IT loaded last.  non-trivial = "
        "distinct (sub-check, character classes present in RelayState/destination/message, type, outcome)")
def regenerate_tables(ctx):
    """Translators.  v1: pack.add_query as it reads NOW -> coq/gen/C14Src.v (C14/Source.v proves it equal to the
    model).  v2: nine functions of the anchored code -> coq/gen/C14Src2.v (C14/Source2.v: one theorem each)."""
    from harness import py2coq, py2coq2
    info = py2coq.regenerate(os.path.join(common.GEN, "C14Src.v"), [
        (os.path.join(env.SRC, "saml2", "pack.py"), "add_query", {"name": "src_add_query", "params": ["location", "query"]})])
    info2 = py2coq2.regenerate(os.path.join(common.GEN, "C14Src2.v"), src2_items())
    out = dict(info)
    out["obligations"] = info.get("obligations", 0) + info2["obligations"]
    out["discharged"] = info.get("discharged", 0) + info2["discharged"]
    out["untranslatable"] = list(info.get("untranslatable", [])) + list(info2["untranslatable"])
    out["translated"] = list(info.get("translated", [])) + list(info2["translated"])
    out["changed"] = bool(info.get("changed")) or bool(info2["changed"])
    return out


# ---------------------------------------------------------------------------- translator v2: specs
def module_const(path, name):
    """Value of the module-level assignment NAME = <literal> in the CURRENT source text."""
    import ast
    from harness.py2coq2 import Untranslatable

    with open(path) as f:
        tree = ast.parse(f.read())
    for n in tree.body:
        if isinstance(n, ast.Assign) and len(n.targets) == 1 and isinstance(n.targets[0], ast.Name) and n.targets[0].id == name:
            try:
                return ast.literal_eval(n.value)
            except ValueError:
                raise Untranslatable("module constant %s of %s is not a literal" % (name, path))
    raise Untranslatable("module constant %s not found in %s" % (name, path))


def const_term(v):
    """Python literal (str, bytes, list/tuple of these) -> pyval term; bytes are the str of the same bytes."""
    from harness.py2coq2 import Untranslatable, cstr

    if isinstance(v, str):
        return "(PStr %s)" % cstr(v)
    if isinstance(v, bytes):
        if all(0x20 <= c <= 0x7E for c in v):
            return "(PStr %s)" % cstr(v.decode("ascii"))
        return "(PStr (sb [%s]%%N))" % ";".join(str(c) for c in v)
    if isinstance(v, (list, tuple)):
        return "(PList [%s])" % "; ".join(const_term(x) for x in v)
    raise Untranslatable("constant %r" % (v,))


def template_call(path, name):
    """spec['calls'] entry for NAME.format(k=v, ...), NAME a module-level str constant: the template is read from the
    current source text and becomes the f-string it denotes (named fields only, no specs / conversions)."""
    import string
    from harness.py2coq2 import Untranslatable, cstr

    def build(args, kw):
        if args:
            raise Untranslatable("positional arguments of %s.format" % name)
        tpl = module_const(path, name)
        if not isinstance(tpl, str):
            raise Untranslatable("%s is not a str constant" % name)
        parts = []
        for lit, field, fspec, conv in string.Formatter().parse(tpl):
            if lit:
                parts.append("PStr %s" % cstr(lit))
            if field is None:
                continue
            if fspec or conv or field not in kw:
                raise Untranslatable("field %r of %s" % (field, name))
            parts.append("p2_str %s" % kw[field])
        return "(p2_fconcat [%s])" % "; ".join(parts)
    return build


def consts(path, names):
    """{NAME: pyval term} for module-level literals; a constant that cannot be read is left out, so the function
    that mentions it becomes untranslatable (poisoned definition: its theorem no longer checks)."""
    from harness.py2coq2 import Untranslatable

    out = {}
    for n in names:
        try:
            out[n] = const_term(module_const(path, n))
        except (Untranslatable, OSError, SyntaxError):
            pass
    return out


def src2_items():
    """[(path, qualname, spec)] for harness.py2coq2.  External calls are extra parameters of the definitions
    (Section variables with hypotheses in C14/Source2.v); module constants are read from the source text."""
    S = lambda *p: os.path.join(env.SRC, "saml2", *p)
    pack, ent, hb, su = S("pack.py"), S("entity.py"), S("httpbase.py"), S("s_utils.py")
    F1, F2 = "pyval -> pyval", "pyval -> pyval -> pyval"
    g_bind = consts(S("__init__.py"), ["BINDING_HTTP_REDIRECT", "BINDING_HTTP_POST", "BINDING_SOAP", "BINDING_URI",
                                       "BINDING_HTTP_ARTIFACT"])
    g_order = consts(S("sigver.py"), ["REQ_ORDER", "RESP_ORDER"])
    g_art = consts(ent, ["ARTIFACT_TYPECODE"])
    urlenc = lambda a: "(urlencode %s)" % a[0]
    addq = lambda a: "(src2_add_query %s %s)" % (a[0], a[1])
    b64d = lambda a: "(b64decode %s)" % a[0]
    dbi = lambda a: "(src2_decode_base64_and_inflate b64decode zlib_decompress %s)" % a[0]
    esc = lambda a: "(src2_html_escape html_escape %s)" % a[0]
    return [
        (pack, "add_query", {"name": "src2_add_query", "params": ["location", "query"]}),
        (pack, "_html_escape", {
            "name": "src2_html_escape", "params": ["payload"], "extra_params": [("html_escape", F2)],
            "calls": {"html.escape": lambda a, kw: "(html_escape %s %s)" % (a[0], kw.get("quote", "PErr"))}}),
        (su, "decode_base64_and_inflate", {
            "name": "src2_decode_base64_and_inflate", "params": ["string"],
            "extra_params": [("b64decode", F1), ("zlib_decompress", F2)],
            "calls": {"base64.b64decode": b64d, "zlib.decompress": lambda a: "(zlib_decompress %s %s)" % (a[0], a[1])}}),
        (pack, "http_form_post_message", {
            "name": "src2_http_form_post_message", "params": ["message", "location", "relay_state", "typ", "kwargs"],
            "extra_params": [("html_escape", F2), ("b64encode", F1), ("str_encode", F2), ("bytes_decode", F2)],
            "classes": {"bytes": ["bytes"]},
            "calls": {"_html_escape": esc, "base64.b64encode": lambda a: "(b64encode %s)" % a[0],
                      "message.encode": lambda a: "(str_encode v_message %s)" % a[0],
                      "_msg.decode": lambda a: "(bytes_decode v__msg %s)" % a[0],
                      "HTML_INPUT_ELEMENT_SPEC.format": template_call(pack, "HTML_INPUT_ELEMENT_SPEC"),
                      "HTML_FORM_SPEC.format": template_call(pack, "HTML_FORM_SPEC")}}),
        (pack, "http_redirect_message", {
            "name": "src2_http_redirect_message",
            "params": ["message", "location", "relay_state", "typ", "sigalg", "sign", "backend"],
            "extra_params": [("urlencode", F1), ("deflate_b64", F1), ("sig_allowed_alg", "pyval"),
                             ("ext", "string -> list pyval -> pyval")],
            "globals": dict(g_order, SIG_ALLOWED_ALG="sig_allowed_alg"),
            "calls": {"urlencode": urlenc, "add_query": addq,
                      "deflate_and_base64_encode": lambda a: "(deflate_b64 %s)" % a[0],
                      # the signing branch (property C15): opaque external calls
                      "backend.get_signer": lambda a: '(ext "get_signer" [v_backend; %s])' % a[0],
                      "string.encode": lambda a: '(ext "encode" [v_string; %s])' % a[0],
                      "signer.sign": lambda a: '(ext "sign" [v_signer; %s])' % a[0],
                      "base64.b64encode": lambda a: '(ext "b64encode" [%s])' % a[0]}}),
        (hb, "HTTPBase.use_http_artifact", {
            "name": "src2_use_http_artifact", "params": ["message", "destination", "relay_state"],
            "extra_params": [("urlencode", F1)], "calls": {"urlencode": urlenc, "add_query": addq}}),
        (hb, "HTTPBase.use_http_uri", {
            "name": "src2_use_http_uri", "params": ["message", "typ", "destination", "relay_state"],
            "extra_params": [("urlencode", F1)], "calls": {"urlencode": urlenc, "add_query": addq}}),
        (ent, "Entity.unravel", {
            "name": "src2_unravel", "params": ["txt", "binding", "msgtype"],
            "extra_params": [("b64decode", F1), ("zlib_decompress", F2), ("soap_mod", "pyval"), ("call_fn", F2)],
            "globals": dict(g_bind, soap="soap_mod"),
            "exc_parents": {"UnknownBinding": ["SAMLError", "Exception"], "SAMLError": ["Exception"],
                            "UnravelError": ["Exception"], "error": ["Exception"]},
            "calls": {"decode_base64_and_inflate": dbi, "base64.b64decode": b64d,
                      "func": lambda a: "(call_fn v_func %s)" % a[0]}}),
        (ent, "Entity.artifact2destination", {
            "name": "src2_artifact2destination", "params": ["self", "artifact", "descriptor"],
            "extra_params": [("b64decode", F1), ("int_base", F2), ("int_dec", F1), ("str_isascii", F1), ("str_isdigit", F1)],
            "globals": g_art, "lenient_raise_args": True,
            "calls": {"base64.b64decode": b64d,
                      "int": lambda a: "(int_base %s %s)" % (a[0], a[1]) if len(a) > 1 else "(int_dec %s)" % a[0],
                      "_index.isascii": lambda a: "(str_isascii v__index)",
                      "_index.isdigit": lambda a: "(str_isdigit v__index)"}}),
        # the table Entity.__init__ / reload_metadata store in self.sourceid: one dict.update per loaded source, nothing
        # kept between calls (round 6; the per-source construct_source_id is an external call)
        (S("mdstore.py"), "MetadataStore.construct_source_id", {
            "name": "src2_store_construct_source_id", "params": ["self"], "extra_params": [("md_csi", F1)],
            "calls": {"_md.construct_source_id": lambda a: "(md_csi v__md)"}}),
    ]


TRUSTED = ["source-to-Gallina translator harness/py2coq.py + coq/theories/Base/Py.v (pack.add_query is re-translated from the source "
           "text on every run; c14_source_add_query proves it equal to the model)",
           "source-to-Gallina translator v2 harness/py2coq2.py + coq/theories/Base/Py2.v (its trusted base: notes/translator_v2.md) and "
           "the specs in harness/c14.py:src2_items (which external calls become parameters; module constants BINDING_*, REQ_ORDER, "
           "RESP_ORDER, ARTIFACT_TYPECODE and the templates HTML_FORM_SPEC / HTML_INPUT_ELEMENT_SPEC are read from the source text).  "
           "Re-translated on every run into coq/gen/C14Src2.v and proved equal to the model for all inputs (c14_source2_*): "
           "pack.add_query, pack._html_escape, pack.http_form_post_message, pack.http_redirect_message (theorem: sign=None/False), "
           "HTTPBase.use_http_artifact, HTTPBase.use_http_uri (theorem: request branch and unknown typ), "
           "s_utils.decode_base64_and_inflate, Entity.unravel, Entity.artifact2destination (theorem: artifacts whose decoded bytes "
           "are < 128 - the embedding refuses to slice other strings; sha1 source ids are covered by the correspondence cases only), "
           "MetadataStore.construct_source_id (the per-source InMemoryMetaData.construct_source_id is a hypothesis)",
           "hypotheses of the c14_source2 theorems about external calls: html.escape(s, quote=True), base64.b64encode/b64decode, "
           "zlib.decompress(d, -15), urllib.parse.urlencode, str.encode('utf-8') = identity on the byte representation, "
           "bytes.decode('ascii'), getattr(soap, ...) + call, int(b, 16) on at most two bytes, str.isascii(), str.isdigit() on an ASCII "
           "str and int(s) on a str of ASCII decimal digits (artifact2destination since fbf0c2eb)",
           "zlib (observed per case, abstract in the proofs)", "hashlib.sha1 (observed per case, abstract in the proofs)",
           "artfed: the metadata parser (saml2.md / mdie.to_dict) is modelled only in what construct_source_id and artifact2destination "
           "read: which of spsso_descriptor / idpsso_descriptor exist, which descriptors carry artifact_resolution_service, "
           "index (white space stripped) and location of every service, first occurrence of a duplicated entityID in one document "
           "wins; the model's table is compared with the real Entity.sourceid after every load",
           "xml.etree / defusedxml parser and serialiser on the SOAP receiver side (compared by canonical tree digest)",
           "html.parser.HTMLParser and urllib.parse as the receiver's readers", "renderer harness/render.py",
           "abstraction in harness/c14.py"]
ASSUMPTIONS = [
    "Python str = its UTF-8 bytes: no lone surrogates in messages, RelayState, destinations",
    "unquote/unquote_plus/parse_qsl are compared on inputs whose percent-decoded bytes are valid UTF-8 (Python decodes "
    "with errors='replace')",
    "destinations never make urlsplit raise (no unbalanced '[' ']' in the netloc, no NFKC-unsafe netloc characters)",
    "POST round trip: the message is not itself a complete raw DEFLATE stream (zlib's answer is recorded per case)",
    "SOAP: header_parts=None, str input; the ElementTree serialisation of the empty envelope is a constant of the model",
    "int(b, 16) is modelled for slices of at most two bytes (what artifact2destination passes)",
    "redirect signing (sign=True) is property C15, not C14",
    "open finding class: 1 (artifact endpoint index >= 256); the artifact round-trip theorem is stated outside it (idx_ok)",
    "artfed: no SHA-1 collision among the entityIDs of a federation and the issuer (hypothesis of c14_artifact_federation); "
    "entityIDs identify entities (no claim for a federation that lists one entityID twice); index attributes are valid "
    "xs:unsignedShort (an invalid one makes pysaml2 drop the whole EntitiesDescriptor); inline metadata sources",
]

POST, REDIRECT = world.BINDING_HTTP_POST, world.BINDING_HTTP_REDIRECT
SOAP, ARTIFACT, URI, PAOS = world.BINDING_SOAP, world.BINDING_HTTP_ARTIFACT, world.BINDING_URI, world.BINDING_PAOS


# ---------------------------------------------------------------------------- Coq terms
# Coq parses a string literal at ~80 us per character and a packed byte string (Corr.pk: 7 bytes per
# primitive integer) at ~28 us per byte.  The case files therefore
#   * write every byte string of 16+ bytes (or with non-printable bytes) packed and only once per case (let-bound),
#   * refer to a small file-level dictionary (defined through IMPORTS at the top of every shard) for the constant
#     segments of pysaml2's HTML form, for the long RelayState of the alphabet and for the constant form tokens.
# The dictionary is a compression aid only: every term still denotes exactly the observed value (a string that
# does not contain a dictionary segment is simply written out in full).
def _b(s):
    return s.encode("utf-8") if isinstance(s, str) else bytes(s)


def _pk(b):
    ints = ";".join(str(int.from_bytes(b[i:i + 7], "little")) for i in range(0, len(b), 7))
    return "(pk %d [%s]%%uint63)" % (len(b), ints)


def _lit_ok(b):
    return len(b) < 16 and all(0x20 <= c <= 0x7E for c in b)


def _lit(b):
    return '"' + b.decode("ascii").replace('"', '""') + '"'


_FORM_TEMPLATE = """<!DOCTYPE html>
<html>
  <head>
    <meta charset="utf-8" />
  </head>
  <body onload="document.forms[0].submit()">
    <noscript>
      <p>
        <strong>Note:</strong>
        Since your browser does not support JavaScript,
        you must press the Continue button once to proceed.
      </p>
    </noscript>
    <form action="{action}" method="post">
      {saml_response_input}
      {relay_state_input}
      <noscript>
        <input type="submit" value="Continue"/>
      </noscript>
    </form>
  </body>
</html>"""
LONG_X = "x" * 1500
DICT_STR = [("d%d" % k, _b(seg)) for k, seg in enumerate(
    [x for x in re.split(r"\{[a-z_]+\}", _FORM_TEMPLATE) if len(x) >= 20]
    + ['<input type="hidden" name="', LONG_X, "https://idp.example.org/sso", "https://ars.example.org/"])]
_DICT_BY_VAL = {b: n for n, b in DICT_STR}
_DICT_RE = re.compile(b"|".join(re.escape(b) for _, b in sorted(DICT_STR, key=lambda e: -len(e[1]))))
# constant tokens of the auto-submitting form, as html.parser reports them
DICT_TOK = [["s", "html", []], ["s", "head", []], ["s", "meta", [["charset", "utf-8"]]], ["e", "head"],
            ["s", "body", [["onload", "document.forms[0].submit()"]]], ["s", "noscript", []], ["s", "p", []],
            ["s", "strong", []], ["e", "strong"], ["e", "p"], ["e", "noscript"],
            ["s", "input", [["type", "submit"], ["value", "Continue"]]], ["e", "form"], ["e", "body"], ["e", "html"]]


def _tok_plain(t):
    if t[0] == "s":
        return "TStart %s [%s]" % (_lit(_b(t[1])), "; ".join("(%s, %s)" % (_lit(_b(k)), _lit(_b(v))) for k, v in t[2]))
    return "TEnd %s" % _lit(_b(t[1]))


IMPORTS = "\n".join(
    ["From Coq Require Import Uint63.",
     "From Verif Require Import Base.Percent Base.Base64 Base.Html Base.Query C14.Model C14.Spec C14.Corr.",
     "Import ListNotations.", "Open Scope string_scope."]
    + ["Definition %s : string := Eval vm_compute in %s." % (n, _pk(b)) for n, b in DICT_STR]
    + ["Definition tk%d : token := %s." % (k, _tok_plain(t)) for k, t in enumerate(DICT_TOK)]
    + ['Definition hid (n v : string) : token := TStart "input" [("type", "hidden"); ("name", n); ("value", v)].',
       'Definition frm (a : string) : token := TStart "form" [("action", a); ("method", "post")].'])


class _Pool:
    """Strings of one case: short printable ones as literals, the others let-bound once."""

    def __init__(self):
        self.names = {}
        self.defs = []

    def _atom(self, b):
        if _lit_ok(b):
            return _lit(b)
        if b in _DICT_BY_VAL:
            return _DICT_BY_VAL[b]
        return _pk(b)

    def s(self, v):
        b = _b(v)
        if _lit_ok(b):
            return _lit(b)
        if b in _DICT_BY_VAL:
            return _DICT_BY_VAL[b]
        if b not in self.names:
            parts, pos = [], 0
            for m in _DICT_RE.finditer(b):
                if m.start() > pos:
                    parts.append(b[pos:m.start()])
                parts.append(m.group(0))
                pos = m.end()
            if pos < len(b):
                parts.append(b[pos:])
            assert b"".join(parts) == b
            term = self._atom(parts[0]) if len(parts) == 1 else "(" + " ++ ".join(self._atom(x) for x in parts) + ")"
            name = "b%d" % len(self.names)
            self.names[b] = name
            self.defs.append("let %s := %s in" % (name, term))
        return self.names[b]

    def opt(self, v):
        return "None" if v is None else "(Some %s)" % self.s(v)

    def pairs(self, l):
        return "[" + "; ".join("(%s, %s)" % (self.s(k), self.s(v)) for k, v in l) + "]"

    def ures(self, r):
        if r[0] == "ok":
            return "(UOk %s)" % self.s(bytes.fromhex(r[1]))
        return {"unravel": "UUnravelError", "unknown": "UUnknownBinding"}[r[0]]

    def ares(self, r):
        if r[0] == "ok":
            return "(AOk %s)" % self.opt(r[1])
        return "AErr"

    def ztab(self, t):
        return "[" + "; ".join("(%s, %s)" % (self.s(bytes.fromhex(k)), self.opt(None if v is None else bytes.fromhex(v)))
                               for k, v in t) + "]"

    def dtab(self, t):
        return "[" + "; ".join("(%s, %s)" % (self.s(bytes.fromhex(k)), self.s(bytes.fromhex(v))) for k, v in t) + "]"

    def sm(self, sm):
        ents = []
        for sid, descs in sm:
            if descs is None:
                e = "None"
            else:
                e = "(Some [" + "; ".join("None" if d is None else "(Some %s)" % self.pairs(d) for d in descs) + "])"
            ents.append("(%s, %s)" % (self.s(bytes.fromhex(sid)), e))
        return "[" + "; ".join(ents) + "]"

    def view(self, v):
        if v is None:
            return "None"
        return "(Some [" + "; ".join("None" if d is None else "(Some %s)" % self.pairs(d) for d in v) + "])"

    def fsm(self, sm):
        return "[" + "; ".join("(%s, (%s, %s))" % (self.s(bytes.fromhex(k)), self.view(a), self.view(b)) for k, a, b in sm) + "]"

    def fed(self, fed):
        def descs(ds):
            return "[" + "; ".join(self.pairs(d) for d in ds) + "]"

        return "[" + "; ".join("[" + "; ".join("{| fe_eid := %s; fe_sp := %s; fe_idp := %s |}" % (
            self.s(e["eid"]), descs(e["sp"]), descs(e["idp"])) for e in src["ents"]) + "]" for src in fed) + "]"

    def cfg(self, named):
        return "[" + "; ".join("(%s, %s)" % (self.s(n), self.fed([src])[1:-1]) for n, src in named) + "]"

    def toks(self, toks):
        out = []
        for t in toks:
            if t in DICT_TOK:
                out.append("tk%d" % DICT_TOK.index(t))
            elif t[0] == "s" and t[1] == "input" and len(t[2]) == 3 and t[2][0] == ["type", "hidden"] \
                    and t[2][1][0] == "name" and t[2][2][0] == "value":
                out.append("hid %s %s" % (self.s(t[2][1][1]), self.s(t[2][2][1])))
            elif t[0] == "s" and t[1] == "form" and len(t[2]) == 2 and t[2][0][0] == "action" and t[2][1] == ["method", "post"]:
                out.append("frm %s" % self.s(t[2][0][1]))
            elif t[0] == "s":
                out.append("TStart %s %s" % (self.s(t[1]), self.pairs(t[2])))
            else:
                out.append("TEnd %s" % self.s(t[1]))
        return "[" + "; ".join(out) + "]"

    def wrap(self, term):
        if not self.defs:
            return term
        return "(" + " ".join(self.defs) + " " + term + ")"


BINDING_COQ = {REDIRECT: "BRedirect", POST: "BPost", SOAP: "BSoap", URI: "BUri", ARTIFACT: "BArtifact", None: "BNoBinding",
               PAOS: "BOther", "urn:example:unknown": "BOther"}


# ---------------------------------------------------------------------------- real entities (per process)
_ENT = {}
ARS_EID = "https://ars-idp.example.org/idp.xml"
ARS_INDEXES = [0, 1, 2, 10, 16, 171, 255, 256, 300, 4096]


def ars_md():
    extra = "".join(world.endpoint("ArtifactResolutionService", SOAP, "https://ars-idp.example.org/ars/%d" % i, i)
                    for i in ARS_INDEXES)
    return world.idp_descriptor(ARS_EID, [("other", None)], extra=extra)


def ent(who):
    if who not in _ENT:
        env.VClock(1700000000).install()
        if who == "sp":
            _ENT[who] = world.make_sp()
        elif who == "idp":
            _ENT[who] = world.make_idp()
        elif who == "sp_ars":
            _ENT[who] = world.make_sp(metadata_xml=[world.default_idp_md(), ars_md()])
    return _ENT[who]


# ---------------------------------------------------------------------------- message pool
def fix_ids(xml):
    n = [0]

    def sub(m):
        n[0] += 1
        return 'ID="id-fixed-%d"' % n[0]

    return re.sub(r'ID="id-[A-Za-z0-9]+"', sub, xml)


def pool(thorough):
    """[(tag, kind, text)], kind in request/response/other (selects SAMLRequest / SAMLResponse)."""
    from saml2.saml import NAMEID_FORMAT_TRANSIENT, NameID

    sp, idp = ent("sp"), ent("idp")
    out = []
    _, req = sp.create_authn_request(world.IDP_SSO_REDIRECT, message_id="id-req-1")
    out.append(("lib-authnreq", "request", str(req)))
    _, sreq = sp.create_authn_request(world.IDP_SSO_POST, message_id="id-req-2", sign=True)
    out.append(("lib-authnreq-signed", "request", str(sreq)))
    resp = idp.create_authn_response(
        {"uid": ["jörg ✓ \U0001F600"], "mail": ["a@x.example", "<b>&\"'"]}, "id-req-1", world.SP_ACS_POST, world.SP_ID,
        name_id=NameID(format=NAMEID_FORMAT_TRANSIENT, text="nid-1"),
        authn={"class_ref": render.AC_PASSWORD, "authn_auth": "https://idp.example.org"}, sign_response=False,
        sign_assertion=False)
    out.append(("lib-response", "response", fix_ids(str(resp))))
    _, lreq = sp.create_logout_request(world.IDP_SLO_SOAP, world.IDP_ID,
                                       name_id=NameID(format=NAMEID_FORMAT_TRANSIENT, text="nid-1"), message_id="id-lo-1")
    out.append(("lib-logoutreq", "request", str(lreq)))

    def rendered(n_attr, val):
        a = {"id": "a-1", "issue_instant": env.iso(1700000000), "issuer": world.IDP_ID,
             "subject": {"name_id": "sübject 中文", "confirmations": [
                 {"data": {"recipient": world.SP_ACS_POST, "in_response_to": "id-req-1",
                           "not_on_or_after": env.iso(1700000600)}}]},
             "conditions": {"not_before": env.iso(1699999990), "not_on_or_after": env.iso(1700000600),
                            "audience_restrictions": [[world.SP_ID]]},
             "authn_statements": [{"authn_instant": env.iso(1700000000), "session_index": "s1"}],
             "attributes": [("urn:oid:2.5.4.%d" % i, render.NF_URI, "attr%d" % i, [val, "v%d" % i]) for i in range(n_attr)]}
        return render.response({"id": "r-1", "in_response_to": "id-req-1", "destination": world.SP_ACS_POST,
                                "issue_instant": env.iso(1700000000), "issuer": world.IDP_ID,
                                "assertions_xml": [render.assertion(a)]})

    r_small = rendered(2, "café ☃ \U0001F512 <&> \"q\" 'a'")
    out.append(("rend-response", "response", r_small))
    out.append(("rend-decl-dq-oneline", "response", '<?xml version="1.0" encoding="UTF-8"?>' + r_small))
    out.append(("rend-decl-sq-nl", "response", "<?xml version='1.0' encoding='UTF-8'?>\n" + r_small))
    out.append(("rend-decl-crlf", "response", '<?xml version="1.0" encoding="UTF-8" standalone="yes"?>\r\n\r\n' + r_small))
    out.append(("rend-decl-noenc-sp", "response", '<?xml version="1.0"?>  ' + r_small))
    out.append(("rend-multiline", "response", '<?xml version="1.0" encoding="utf-8"?>\n' + r_small.replace("><", ">\n  <")))
    out.append(("rend-pi-comment", "response", "<?xml version='1.0'?>\n<!-- c > ?> --><?pi x?>\n" + r_small))
    out.append(("rend-long", "response", rendered(400 if thorough else 20, "x" * 100 + "é")))
    out.append(("tiny", "other", "<a/>"))
    out.append(("tiny-text", "other", "<a xmlns='urn:x' b=\"1\">täxt &amp; &lt;<b/>tail</a>"))
    out.append(("cdata-prefix", "other", '<a><![CDATA[<?xml version="1.0" encoding="UTF-8"?>]]></a>'))
    out.append(("second-decl-in-comment", "other", '<?xml version="1.0" encoding="UTF-8"?>\n<a><!-- <?xml version="1.0" encoding="UTF-8"?> -->x</a>'))
    out.append(("upper-decl", "other", "<?XML version='1.0'?><a/>"))
    # characters that are special to regex replacement templates, %-formatting and str.format
    out.append(("backslash", "other", "<a b='CORP\\1234'>CORP\\alice \\g&lt;0&gt; \\\\ \\s {0} {} %s %(x)s $1 \\n</a>"))
    out.append(("backslash-decl", "other", "<?xml version='1.0'?>\n<a>\\1 \\g&lt;1&gt; {typ}</a>"))
    return out


RS_ALPHABET = [
    "", "rs", "/path?x=1&y=2", "\"><script>alert(1)</script>", "' onmouseover='alert(1)", "a&b=c", "a b+c%20d",
    "&SAMLRequest=evil&SAMLResponse=evil", "ünï✓\U0001F600", "#frag", "?q", "a;b", "<>&\"'", "&amp;&lt;&#x27;&quot;",
    "=", "%", "%zz%41", "line1\nline2\r\n\ttab", " ", LONG_X + "\"'<>&" * 20, "RelayState=1&RelayState=2", "\\", "{}{0}{action}",
]

DEST_ALPHABET = [
    "https://idp.example.org/sso", "https://idp.example.org/sso?a=1", "https://idp.example.org/sso?a=1&b=%26x+y",
    "https://idp.example.org/sso?", "https://idp.example.org/sso#frag", "https://idp.example.org/sso?a=1#frag",
    "https://idp.example.org/sso\"><script>alert(1)</script>", "https://idp.example.org/sso?x='&y=\"<>",
    "https://idp.example.org/ssö/中", "https://idp.example.org/sso?next=https%3A%2F%2Fx%2F%3Fy%3D1",
    "https://idp.example.org/s s o", "", "/relative/path", "https://idp.example.org/sso?\t", "https://idp.example.org/sso?a",
    "https://idp.example.org/sso?=v&&k=", "https://idp.example.org/sso;p=1?q=2", "javascript:alert(1)//&",
    "https://idp.example.org/sso?{0}{action}",
    # the query component in every state add_query distinguishes: ends in '&', ends in '?', '?' '&' next to '#'
    "https://idp.example.org/sso?a=1&", "https://idp.example.org/sso?&", "https://idp.example.org/sso?a=1&#frag",
    "https://idp.example.org/sso?#frag", "https://idp.example.org/sso#frag?x=1&y", "https://idp.example.org/sso#",
    "https://idp.example.org/sso?a=1#", "https://idp.example.org/sso#a#b", "https://idp.example.org/sso?a=1\n&",
    "https://idp.example.org/sso&a=1", "https://idp.example.org/sso?a=1?", "https://idp.example.org/sso??",
    "https://idp.example.org/sso?a=1?#frag", "https://idp.example.org/sso?a=1?\t",
]

# the message of the complete RelayState x destination products: small, with unicode and markup characters
PROD_MSG = "<R xmlns='urn:x' a=\"1\">é✓ &amp; &lt;</R>"

TYPS_FORM = ["SAMLRequest", "SAMLResponse", "SAMLart", "\"><script>x</script>", "t'y&p", "typé"]


def char_classes(s):
    c = []
    for name, chars in (("q", "\"'"), ("ab", "<>"), ("amp", "&"), ("qm", "?"), ("hash", "#"), ("eq", "="), ("pct", "%"),
                        ("sp", " +"), ("ctl", "\n\r\t")):
        if any(ch in s for ch in chars):
            c.append(name)
    if any(ord(ch) > 127 for ch in s):
        c.append("u")
    if len(s) > 1000:
        c.append("long")
    if not s:
        c.append("empty")
    return "+".join(c)


def query_state(loc):
    """What pack.add_query has to distinguish about a destination."""
    base, h, _ = loc.partition("#")
    path, q, query = base.partition("?")
    st = "no-query" if not q else "empty-query" if not query else "query-ends-amp" if query.endswith("&") else \
        "query-ends-qm" if query.endswith("?") else "query"
    return st + ("+fragment" if h else "")


# ---------------------------------------------------------------------------- generators
def rand_bytes(rng, maxlen=40):
    k = rng.random()
    n = rng.randint(0, maxlen)
    if k < 0.35:
        return bytes(rng.randrange(256) for _ in range(n))
    if k < 0.7:
        return "".join(rng.choice("abzAZ09 +/=&<>\"'%#?;:@-_.~\n\téü中\U0001F600") for _ in range(n)).encode("utf-8")
    return bytes(rng.choice(b"&<>\"'&&<<;#x27amp") for _ in range(n))


def gen_stdlib(ctx):
    rng = ctx.rng
    n = 3000 if ctx.thorough else 150
    cases = []
    bound = [b"", b"\x00", b"\xff", b"\x00\x00", b"\xff\xff", b"\x00\x00\x00", b"\xff\xff\xff", b"\xfb\xff\xbf", bytes(range(256)),
             b"&", b"&&", b"&amp;", b"<>\"'&", b"a", b"ab", b"abc", b"abcd", b" ", b"+", b"%", b"~_.-/", b"/"]
    for b in bound + [rand_bytes(rng) for _ in range(n)]:
        cases.append({"k": "b64enc", "b": b.hex()})
    # decoding: encodings, damaged encodings, junk
    dec = [b"", b"=", b"==", b"A", b"AA", b"AAA", b"AAAA", b"A=", b"A==", b"AA=", b"AA==", b"AA=A", b"AA=A==", b"AAA=", b"AAA=AAAA",
           b"=AAAA", b"A=AAA", b"AA\n==", b"AA = =", b"AAAA====", b"AAAAA", b"AAAAAA", b"AAAAAA=", b"AA==AAAA", b"A-_A", b"\xffAAAA",
           b"QUJD\xc3\xa9", "QUJDé".encode()]
    for _ in range(n):
        e = base64.b64encode(rand_bytes(rng, 20))
        k = rng.random()
        if k < 0.3:
            pass
        elif k < 0.5:
            e = e.rstrip(b"=")[: rng.randint(0, len(e))]
        elif k < 0.7:
            i = rng.randint(0, len(e))
            e = e[:i] + rng.choice([b"=", b"\n", b" ", b"-", b"_", b"\xc3\xa9", b"==", b"!"]) + e[i:]
        else:
            e = bytes(rng.choice(b"ABab09+/=\n -_") for _ in range(rng.randint(0, 12)))
        dec.append(e)
    for e in dec:
        cases.append({"k": "b64dec", "s": e.hex()})
    # html.escape: valid UTF-8 text only (it takes a str)
    texts = [b.decode("utf-8", "ignore") for b in bound] + ["&amp;", "&#x27;", "&lt;script&gt;", "a&b<c>d\"e'f", "&&&", "é&中"]
    texts += [rand_bytes(rng).decode("utf-8", "ignore") for _ in range(n)]
    for t in texts:
        cases.append({"k": "html", "s": t})
        cases.append({"k": "quote", "s": t})
    # unquote: quoted text, hex-case variants, stray percent signs
    uq = ["", "%", "%%", "%4", "%41", "%4g", "%zz", "a%2", "%c3%a9", "%C3%A9", "+", "a+b", "%2B", "%2b%20+", "100%", "%25%32%35"]
    for _ in range(n):
        t = rand_bytes(rng, 20).decode("utf-8", "ignore")
        q = urllib.parse.quote_plus(t) if rng.random() < 0.5 else urllib.parse.quote(t)
        k = rng.random()
        if k < 0.3:
            q = q.lower() if rng.random() < 0.5 else q
        elif k < 0.5:
            i = rng.randint(0, len(q))
            q = q[:i] + rng.choice(["%", "+", "%4", "%g1", " ", "é", "%25"]) + q[i:]
        uq.append(q)
    for q in uq:
        u, up = urllib.parse.unquote(q), urllib.parse.unquote_plus(q)
        if ("�" in u and "�" not in q) or ("�" in up and "�" not in q):
            continue  # decoded bytes not valid UTF-8: outside the byte-level model (ASSUMPTIONS)
        cases.append({"k": "unquote", "s": q})
    # parse_qsl / urlencode / urlsplit
    qss = ["", "&", "a", "a=", "=b", "a=b", "a=b&c=d", "a=b&&c=d&", "a=b=c", "a==", "a+b=c+d", "%41=%42", "a=b;c=d", "?a=b", "a=b#c",
           "SAMLRequest=x&RelayState=a%26SAMLRequest%3Devil", "a=%", "a=%zz", "é=ü", "a=b&a=c"]
    for _ in range(n // 2):
        parts = []
        for _ in range(rng.randint(0, 4)):
            parts.append(rng.choice(["k", "", "a+b", "%3D", "k=", "=v", "k=v", "k=v=w", "k=%26", "é=1", "k= v", "?k=1", "k=1#"]))
        qss.append(rng.choice(["&", "&&", ";"]).join(parts) if rng.random() < 0.3 else "&".join(parts))
    for q in qss:
        r = urllib.parse.parse_qsl(q)
        if any("�" in a + b for a, b in r) and "�" not in q:
            continue
        cases.append({"k": "qs", "s": q})
    for _ in range(n // 2):
        l = {}
        for _ in range(rng.randint(0, 3)):
            l[rng.choice(RS_ALPHABET[:19] + ["SAMLRequest", "RelayState"])] = rng.choice(RS_ALPHABET[:19])
        cases.append({"k": "urlenc", "l": [[k, v] for k, v in l.items()]})
    urls = list(DEST_ALPHABET) + ["?", "#", "?#", "#?", "a?b?c", "a#b#c", "a#b?c", "a?b#c?d", " \t?x", "\n?x\n#\ny", "http://h?\r\n", "x:y?z"]
    for _ in range(n // 2):
        urls.append("".join(rng.choice(["https://h", "/p", "?", "#", "a=1", "&", "\t", "\n", " ", ":", "//", "é", "%3F"])
                            for _ in range(rng.randint(0, 7))))
    for u in urls:
        cases.append({"k": "url", "s": u})
    # int(b, 16) on slices of at most two bytes; formatting
    al = b"0123456789abcdefABCDEFgGxX+-_ \t\n\r\x0b\x0c\x00\xff.o"
    i16 = [bytes([a]) for a in range(256)] + [b""] + [bytes([a, b]) for a in al for b in al]
    if not ctx.thorough:
        i16 = i16[:257] + rng.sample(i16[257:], 150)
    for b in i16:
        cases.append({"k": "int16", "b": b.hex()})
    for i in list(range(0, 260 if not ctx.thorough else 4200)) + [4095, 4096, 65535, 65536, 1000000] + [rng.randrange(260, 65536) for _ in range(40)]:
        cases.append({"k": "fmt", "n": i})
    return cases


# quick tier: the structurally distinct destinations (no / empty / non-empty query, trailing '?' '&', fragment, markup,
# unicode, control character, empty) and the RelayStates that every destination is combined with
DEST_CORE = [DEST_ALPHABET[i] for i in (0, 1, 3, 4, 5, 6, 7, 8, 11, 13)] + [
    "https://idp.example.org/sso?a=1&", "https://idp.example.org/sso?a=1&#frag", "https://idp.example.org/sso?a=1?"]
RS_CORE = ["", "rs", "&SAMLRequest=evil&SAMLResponse=evil", "\"><script>alert(1)</script>", "ünï✓\U0001F600"]
QUICK_SKIP = {"rend-decl-dq-oneline", "rend-decl-sq-nl", "rend-decl-noenc-sp", "rend-multiline", "rend-pi-comment",
              "second-decl-in-comment", "upper-decl"}


def rs_dest_pairs(ctx):
    if ctx.thorough:
        return [(rs, d) for rs in RS_ALPHABET for d in DEST_ALPHABET]
    seen, out = set(), []
    for rs, d in [(rs, d) for rs in RS_ALPHABET for d in DEST_CORE] + [(rs, d) for d in DEST_ALPHABET for rs in RS_CORE]:
        if (rs, d) not in seen:
            seen.add((rs, d))
            out.append((rs, d))
    return out


def gen_bindings(ctx, msgs):
    rng = ctx.rng
    cases = []
    byname = {t: (kind, m) for t, kind, m in msgs}
    small = byname["rend-response"][1]

    def typ_for(kind):
        return "SAMLResponse" if kind == "response" else "SAMLRequest"

    # RelayState x destination on one message, POST and Redirect.  thorough: the complete product; quick: every
    # RelayState with the structurally distinct destinations (DEST_CORE) and every destination with RS_CORE
    for rs, d in rs_dest_pairs(ctx):
        cases.append({"k": "post", "msg": PROD_MSG, "mtag": "prod", "loc": d, "rs": rs, "typ": "SAMLResponse", "via": "idp"})
        cases.append({"k": "redir", "msg": PROD_MSG, "mtag": "prod", "loc": d, "rs": rs, "typ": "SAMLResponse", "via": "idp"})
    # every message x sampled RelayState / destination (quick: the declaration variants of the rendered response only
    # matter for SOAP and are left to the thorough tier here)
    for t, kind, m in msgs:
        if not ctx.thorough and t in QUICK_SKIP:
            continue
        picks = [(RS_ALPHABET[1], DEST_ALPHABET[0])]
        if ctx.thorough:
            picks.append(("", DEST_ALPHABET[1]))
        for _ in range(6 if ctx.thorough else 1):
            picks.append((rng.choice(RS_ALPHABET), rng.choice(DEST_ALPHABET)))
        for rs, d in picks:
            typ = typ_for(kind)
            via = "idp" if typ == "SAMLResponse" else "sp"
            cases.append({"k": "post", "msg": m, "mtag": t, "loc": d, "rs": rs, "typ": typ, "via": via})
            cases.append({"k": "redir", "msg": m, "mtag": t, "loc": d, "rs": rs, "typ": typ, "via": via})
    # message types: direct calls of the pack functions
    for typ in TYPS_FORM:
        for m, mt in ((small if ctx.thorough else PROD_MSG, "rend-response" if ctx.thorough else "prod"), ("<a/>", "tiny"),
                      ("AAQAAMFbLinlXaCM+plain/artifact==", "artifact-str")):
            for rs, d in [("", DEST_ALPHABET[0]), (RS_ALPHABET[3], DEST_ALPHABET[6]), (rng.choice(RS_ALPHABET), rng.choice(DEST_ALPHABET))]:
                cases.append({"k": "post", "msg": m, "mtag": mt, "loc": d, "rs": rs, "typ": typ, "via": "pack"})
    for typ in ["SAMLart", "SAMLRequest", "SAMLResponse", "Other", ""]:
        for m, mt in (("AAQAAMFbLinlXaCM+plain/artifact==", "artifact-str"), ("", "empty"), ("<a/>", "tiny")):
            for rs in ["", "rs", RS_ALPHABET[7]]:
                for d in (DEST_ALPHABET[:6] + DEST_ALPHABET[-4:]) if ctx.thorough else [DEST_ALPHABET[i] for i in (0, 1, 3, 4, -4, -3)]:
                    cases.append({"k": "redir", "msg": m, "mtag": mt, "loc": d, "rs": rs, "typ": typ, "via": "pack"})
    # artifact URLs
    for rs, d in rs_dest_pairs(ctx):
        cases.append({"k": "arturl", "art": "AAQAAMFbLinlXaCM+plain/artifact==", "dest": d, "rs": rs,
                      "response": rng.random() < 0.5})
    # URI binding URLs: through apply_binding (no RelayState reaches use_http_uri) and the static method itself
    for d in DEST_ALPHABET:
        cases.append({"k": "uriurl", "id": "id-" + rng.choice(["1", "a b", "é&=?#", "x" * 40]), "dest": d, "rs": "", "via": "sp"})
        for rs in ["", "rs", RS_ALPHABET[7], rng.choice(RS_ALPHABET)] if ctx.thorough else ["rs", rng.choice(RS_ALPHABET)]:
            cases.append({"k": "uriurl", "id": rng.choice(["id-1", "a&ID=b", "é ✓", "", "#?"]), "dest": d, "rs": rs, "via": "static"})
    # SOAP
    for t, kind, m in msgs:
        cases.append({"k": "soap", "msg": m, "mtag": t, "kind": kind})
    for extra in ["<?xml version='1.0'?>", "<?xml version='1.0'?>\n", "<?xml?>", "<?xml version='1.0'?", "<?xml", "", "\n<a/>", "<a/>\n",
                  "<?xml version='1.0'?>\r<a/>", "<?xml version=\"1.0\" encoding=\"UTF-8\"?><?xml version=\"1.0\" encoding=\"UTF-8\"?><a/>",
                  "<a>?></a>", "<?xml-stylesheet href='x'?><a/>", " <?xml version='1.0'?><a/>",
                  "<a b='<?xml version=\"1.0\" encoding=\"UTF-8\"?>'/>",
                  "<?xml version=\"1.0\" encoding=\"UTF-8\"?>\r\n<a><?xml version=\"1.0\" encoding=\"UTF-8\"?></a>"]:
        cases.append({"k": "soap", "msg": extra, "mtag": "edge", "kind": "other"})
    # unravel
    bindings = [REDIRECT, POST, SOAP, URI, ARTIFACT, None, PAOS, "urn:example:unknown"]
    um = msgs[:6] if ctx.thorough else [msgs[0], msgs[3]]
    for t, kind, m in um + [("tiny-text", "other", byname["tiny-text"][1]), ("tiny", "other", "<a/>"), ("empty", "other", "")]:
        for enc in ("deflate", "plain", "raw"):
            for b in bindings:
                if not ctx.thorough and len(m) > 300 and (enc == "raw" or b in (SOAP, None, PAOS)):
                    continue
                cases.append({"k": "unravel", "msg": m, "mtag": t, "enc": enc, "binding": b})
    for junk in ["!!!!", "AAAA", "A", "AA=A", "éé", "eJwr", "SGVsbG8", "SGVsbG8=", " S G V s b G 8 = ", "80nNyckHAA==", "80nNyckHAA",
                 "y0nNyckHAA==", "AwA=", ""]:
        for b in bindings:
            cases.append({"k": "unravel", "msg": junk, "mtag": "junk", "enc": "raw", "binding": b})
    return cases


EIDS = [world.IDP_ID, "https://sp.example.org/sp.xml", "urn:x", "", "https://ünï.example/中", "a" * 300]


def gen_artifacts(ctx):
    rng = ctx.rng
    cases = []
    idxs = list(range(0, 65536)) if ctx.thorough else list(range(0, 301)) + sorted(rng.sample(range(301, 65536), 60)) + [
        4095, 4096, 65535]
    for i in idxs:
        eid = EIDS[i % len(EIDS)] if i % 7 else rng.choice(EIDS)
        # the issuer's services: the index itself, the values a mis-read index could hit, a few others
        others = {i, i % 256, i // 16, i % 16, int(("%02x" % i)[:2], 16), rng.randrange(0, 300)}
        if i % 5 == 0:
            others.discard(i)       # issuer has no service with that index
        svcs = [[str(j), "L%d" % j] for j in sorted(others)]
        rng.shuffle(svcs)
        cut = rng.randint(0, len(svcs))
        descs = [svcs[:cut], svcs[cut:]] if i % 3 == 0 else [svcs]
        cases.append({"k": "art", "eid": eid, "idx": i, "handle": hashlib.sha1(b"h%d" % i).hexdigest(), "descs": descs,
                      "descriptor": "idpsso" if i % 2 else "spsso", "mode": "synthetic"})
    # through real metadata (MetadataStore.construct_source_id)
    for i in ARS_INDEXES + [3, 17, 99, 254, 257, 511, 512]:
        cases.append({"k": "art", "eid": ARS_EID, "idx": i, "handle": hashlib.sha1(b"r%d" % i).hexdigest(), "descs": None,
                      "descriptor": "idpsso", "mode": "metadata"})
    # malformed artifacts and incomplete entity records
    sid = hashlib.sha1(b"urn:x").digest()
    good = b"\x00\x04" + b"0a" + sid + b"H" * 20
    raws = [good, good[:3], good[:4], good[:23], good[:24], b"", b"\x00", b"\x00\x04", b"\x00\x05" + good[2:], b"\x01\x04" + good[2:]]
    for f in [b"a", b"A0", b"0A", b" 1", b"1 ", b"+1", b"-1", b"-0", b"0x", b"0X", b"1_", b"_1", b"gg", b"  ", b"\x00\x01", b"\t9", b"7\n", b"0b", b"0o",
              b"ff", b"FF", b"fF", b"--", b"++"]:
        raws.append(b"\x00\x04" + f + sid + b"H" * 20)
    for r in raws:
        for shape in ("ok", "nodesc", "nosvc", "unknown"):
            cases.append({"k": "artraw", "raw": base64.b64encode(r).decode(), "shape": shape, "sid": sid.hex()})
    for txt in ["AAQ", "AAQw", "!!!!", "é", "AAQwYQ=", "A" * 61]:
        cases.append({"k": "artraw", "raw": txt, "shape": "ok", "sid": sid.hex()})
    return cases


# ---------------------------------------------------------------------------- artifacts through the resolver's metadata
# A federation = the metadata documents a resolving party is configured with: sources in configuration order,
# entities in document order, each entity with its SPSSODescriptor / IDPSSODescriptor elements and their
# ArtifactResolutionService elements (index attribute as spelled, Location).  This is the ground truth of the
# `artfed` cases; what the library derives from it (Entity.sourceid) is an observation.
FED_EIDS = [world.SP_ID, world.IDP_ID, "urn:mace:example.org:sp:three", "https://idp-två.example.org/idp?x=1&y=2", "urn:x", "URN:X",
            "https://a.example/<\"'>&", world.IDP_ID + "2", "e" * 200, "https://ünï.example/中", "urn:x ", "0"]
FED_SHAPES = ["idp", "idp", "sp", "both", "idp2", "idp-noars", "sp-noars", "idp+sp-noars", "idp2-one-noars", "none"]
FED_UNKNOWN = "urn:not-in-any-metadata"


def fed_spell(rng, i, odd):
    """Spelling of an index attribute.  odd = the federation may use legal non-canonical xs:unsignedShort spellings."""
    k = rng.random()
    if odd and k < 0.5:
        return rng.choice(["0%d", "00%d", "000%d"]) % i
    if k > 0.93:
        return rng.choice([" %d", "%d ", " %d  ", "\t%d\n"]) % i
    return str(i)


def fed_entity(rng, eid, n, shape, odd=False, big=False):
    """One entity; n makes its locations unique, so that an endpoint of another entity is never the right answer."""
    pool_ = [0, 1, 1, 0, 2, 7, 10, 16, 171, 255] + ([256, 300, 4096] if big else [])

    def svcs(role, d, k=None):
        idxs = []
        for i in [0, 1][: rng.randint(1, 2)] + [rng.choice(pool_) for _ in range(rng.randint(0, 2) if k is None else k)]:
            if i not in idxs:
                idxs.append(i)
        rng.shuffle(idxs)
        return [[fed_spell(rng, i, odd), "https://e%d.example.org/ars/%s/%d/%d" % (n, role, d, i)] for i in idxs]

    sp, idp = [], []
    if shape in ("idp", "both", "idp+sp-noars"):
        idp = [svcs("idp", 0)]
    if shape in ("sp", "both"):
        sp = [svcs("sp", 0)]
    if shape == "idp2":
        a = svcs("idp", 0)
        idp = [a[:1], [[fed_spell(rng, 100 + j, odd), "https://e%d.example.org/ars/idp/1/%d" % (n, 100 + j)] for j in range(rng.randint(1, 2))] + a[1:]]
    if shape == "idp-noars":
        idp = [[]]
    if shape in ("sp-noars", "idp+sp-noars"):
        sp = [[]]
    if shape == "idp2-one-noars":
        idp = [svcs("idp", 0), []]
        if rng.random() < 0.5:
            idp.reverse()
    return {"eid": eid, "sp": sp, "idp": idp}


def fed_index_value(spelled):
    t = spelled.strip(" \t\r\n")
    return int(t) if t and all("0" <= c <= "9" for c in t) else None


def fed_resolutions(rng, fed, extra_eids, limit, counter, prefer=None, rcv=None):
    """Resolutions to try against a federation: every entity in both roles with every index it publishes, an index it
    does not publish, entities that are not (or no longer) in the metadata.  prefer: entityIDs whose resolutions are
    kept first when the list is cut to `limit`; rcv: number of the resolver that resolves (None: the only one)."""
    out = []
    ents = [e for src in fed for e in src["ents"]]
    for e in ents:
        for role in ("idpsso", "spsso"):
            descs = e["idp" if role == "idpsso" else "sp"]
            vals = []
            for d in descs:
                for i, _ in d:
                    v = fed_index_value(i)
                    if v is not None and v not in vals:
                        vals.append(v)
            absent = rng.choice([x for x in (3, 5, 99, 254) if x not in vals])
            for idx in (vals + [absent]) if descs else [rng.choice([0, 1])]:
                out.append((e["eid"], idx, role))
    for eid in extra_eids:
        if eid not in [e["eid"] for e in ents]:
            out.append((eid, rng.choice([0, 1]), rng.choice(["idpsso", "spsso"])))
    if limit is not None and len(out) > limit and prefer:
        first = [i for i, o_ in enumerate(out) if o_[0] in prefer and (fed_publishes(ents, o_) or o_[0] not in [e["eid"] for e in ents])]
        rng.shuffle(first)
        first = first[:max(1, limit - 2)]
        rest = [i for i in range(len(out)) if i not in first]
        out = [out[i] for i in sorted(first + rng.sample(rest, limit - len(first)))]
    elif limit is not None and len(out) > limit:
        keep = sorted(rng.sample(range(len(out)), limit))
        out = [out[i] for i in keep]
    steps = []
    for eid, idx, role in out:
        counter[0] += 1
        # the artifact is made by Entity.use_artifact of the real issuer, or by create_artifact with the entityID /
        # message handle given as str or as bytes
        via = "use" if eid in (world.SP_ID, world.IDP_ID) and rng.random() < 0.7 else \
            rng.choice(["create", "create", "create-eid-bytes", "create-handle-str"])
        c = counter[0]
        steps.append({"op": "res", "eid": eid, "idx": idx, "role": role, "via": via,
                      # 20 ASCII bytes, distinct per resolution; mostly zero bytes keep the Coq term short
                      "handle": (bytes([c & 0x7F, (c >> 7) & 0x7F, (c >> 14) & 0x7F]) + bytes(16) + b"\x01").hex()})
        if rcv is not None:
            steps[-1]["r"] = rcv
    return steps


def fed_publishes(ents, res):
    """Does the issuer of the resolution (eid, idx, role) publish a service with that index in that role?"""
    eid, idx, role = res
    for e in ents:
        if e["eid"] == eid:
            for d in e["idp" if role == "idpsso" else "sp"]:
                if any(fed_index_value(i) == idx for i, _ in d):
                    return True
    return False


def fed_source(ents, rng):
    return {"doc": "single" if len(ents) == 1 and rng.random() < 0.5 else "entities", "ents": ents}


def fed_mutate(rng, fed, n0, kind=None):
    """The federation after a metadata refresh: order changed, members removed / added / moved to other endpoints."""
    import copy

    fed = copy.deepcopy(fed)
    if kind is None:
        kind = rng.choice(["reverse", "rotate", "remove", "add", "move", "reshape", "merge"])
    ents = [e for s_ in fed for e in s_["ents"]]
    if kind == "reverse":
        for s_ in fed:
            s_["ents"].reverse()
        fed.reverse()
    elif kind == "rotate":
        for s_ in fed:
            s_["ents"] = s_["ents"][1:] + s_["ents"][:1]
        fed = fed[1:] + fed[:1]
    elif kind == "remove" and len(ents) > 1:
        victim = rng.choice(ents)["eid"]
        for s_ in fed:
            s_["ents"] = [e for e in s_["ents"] if e["eid"] != victim]
        fed = [s_ for s_ in fed if s_["ents"]]
    elif kind == "add":
        free = [x for x in FED_EIDS if x not in [e["eid"] for e in ents]]
        new = fed_entity(rng, rng.choice(free), n0 + 50, rng.choice(FED_SHAPES[:5]))
        if rng.random() < 0.5:
            fed.insert(rng.randint(0, len(fed)), fed_source([new], rng))
        else:
            s_ = rng.choice(fed)
            s_["ents"].insert(rng.randint(0, len(s_["ents"])), new)
    elif kind in ("move", "reshape"):
        e = rng.choice(ents)
        new = fed_entity(rng, e["eid"], n0 + 60, rng.choice(FED_SHAPES) if kind == "reshape" else
                         ("idp" if e["idp"] else "sp"))
        e["sp"], e["idp"] = new["sp"], new["idp"]
    else:   # merge: all entities in one document
        fed = [{"doc": "entities", "ents": ents}]
    for s_ in fed:
        if len(s_["ents"]) != 1:
            s_["doc"] = "entities"
    return fed


def gen_federations(ctx):
    import itertools

    rng = ctx.rng
    cases = []
    counter = [0]

    def case(recv, feds, extra, limit=None):
        steps = []
        for fed in feds:
            steps.append({"op": "load", "fed": fed})
            steps += fed_resolutions(rng, fed, extra, limit, counter)
        return {"k": "artfed", "recv": recv, "steps": steps}

    # (1) small federations, complete: 2 and 3 members that all publish index 0 and 1, every document order, in one
    #     document (then re-loaded in reversed order) or one document per member
    for n in (2, 3):
        members = [fed_entity(rng, eid, j, sh) for j, (eid, sh) in
                   enumerate(zip(["https://idp-one.example.org/idp.xml", world.SP_ID, "https://idp-två.example.org/idp?x=1&y=2"],
                                 ["idp", "both", "idp2"]))][:n]
        for pi, perm in enumerate(itertools.permutations(range(n))):
            ents = [members[i] for i in perm]
            one = [{"doc": "entities", "ents": ents}]
            many = [{"doc": "single" if i % 2 else "entities", "ents": [e]} for i, e in enumerate(ents)]
            lim = None if ctx.thorough else 7
            if ctx.thorough or pi % 2 == 0:
                cases.append(case("sp" if len(cases) % 2 else "idp", [one, [{"doc": "entities", "ents": ents[::-1]}]], [FED_UNKNOWN], lim))
            else:
                cases.append(case("sp" if len(cases) % 2 else "idp", [one], [FED_UNKNOWN], lim))
            if ctx.thorough or pi % 2 == 1:
                cases.append(case("sp" if len(cases) % 2 else "idp", [many], [FED_UNKNOWN], lim))
    # (1b) index attributes in every legal spelling of an xs:unsignedShort: canonical, white space, leading zeros
    spelled = {"eid": "https://idp-one.example.org/idp.xml", "sp": [],
               "idp": [[[sp_, "https://e9.example.org/ars/idp/0/%d" % i] for i, sp_ in
                        enumerate(["0", " 1", "2 ", "03", "004", "\t5\n", "6", "00007"])]]}
    other = fed_entity(rng, "urn:x", 8, "idp")
    cases.append(case("sp", [[{"doc": "entities", "ents": [spelled, other]}]], []))
    # (2) random federations on a long-lived resolver: construction, then metadata refreshes
    for c in range(200 if ctx.thorough else 32):
        odd = c % 9 == 4
        eids = rng.sample(FED_EIDS, rng.randint(1, 6))
        ents = [fed_entity(rng, eid, j, rng.choice(FED_SHAPES), odd=odd, big=(c % 11 == 7)) for j, eid in enumerate(eids)]
        if c % 13 == 5 and len(ents) > 1:      # the same entityID twice (two documents, or one): no claim, model only
            ents.append(fed_entity(rng, ents[0]["eid"], 40, "idp"))
        fed, i = [], 0
        while i < len(ents):
            k = rng.randint(1, 3)
            fed.append(fed_source(ents[i:i + k], rng))
            i += k
        feds = [fed]
        for r in range(rng.choice([0, 1, 1, 2, 3])):
            feds.append(fed_mutate(rng, feds[-1], 10 * (r + 1)))
        cases.append(case("sp" if c % 2 else "idp", feds, [FED_UNKNOWN] + eids, limit=20 if ctx.thorough else 6))
    return cases


# ---- where the documents come from (strengthening round 6): the KIND of every metadata source (inline text, file,
# directory of files, URL, loader function, exported "mdfile"), the STYLE of the configuration (old-style dict keyed by
# type / list of {"class": ..., "metadata": [...]}), the NAMES of the sources across refreshes (same file / URL / loader
# with new content - the ordinary refresh -, or new names), HOW the new metadata gets into the resolver
# (Entity.reload_metadata, MetadataStore.reload + a new Entity on the same Config object, a new Entity on a new Config, a
# reload that fails half-way and must leave everything as it was) and HOW MANY resolvers live in the process
# (two of them reading the same files at different times).
# ("loader" is not in the list: MetaDataLoader.__init__ calls MetaDataFile.__init__ without a file name, which raises
# SAMLError("No file specified.") - such a source cannot be configured at all in /repo; fed_materialise supports it)
FED_KINDS = ["inline", "local", "dir", "remote", "mdfile"]
FED_TYPEKEY = {"inline": "inline", "local": "local", "dir": "local", "remote": "remote", "loader": "loader", "mdfile": "mdfile"}
FED_CLASS = {"inline": "saml2.mdstore.InMemoryMetaData", "local": "saml2.mdstore.MetaDataFile", "dir": "saml2.mdstore.MetaDataFile",
             "remote": "saml2.mdstore.MetaDataExtern", "loader": "saml2.mdstore.MetaDataLoader", "mdfile": "saml2.mdstore.MetaDataMD"}
FED_HOWS = ["init", "reload", "rebuild", "newconf", "fail"]


def fed_configure(fed, style, kinds, names, dirname):
    """-> (the sources in the order in which a configuration of that style loads them, the configuration).
    Old style: a dict keyed by type, so sources of one type are neighbours (a directory is one entry of "local");
    class list: MetadataStore.imp returns after a directory, so the directory comes last."""
    items = list(zip(fed, kinds, names))
    if style == "dict":
        out = []
        for tk in dict.fromkeys(FED_TYPEKEY[k] for _, k, _ in items):
            grp = [it for it in items if FED_TYPEKEY[it[1]] == tk]
            dirs = [it for it in grp if it[1] == "dir"]
            if dirs:
                rest = [it for it in grp if it[1] != "dir"]
                n_before = len([it for it in grp[:grp.index(dirs[0])] if it[1] != "dir"])
                grp = rest[:n_before] + dirs + rest[n_before:]
            out += grp
    else:
        out = [it for it in items if it[1] != "dir"] + [it for it in items if it[1] == "dir"]
    return [it[0] for it in out], {"style": style, "dir": dirname, "srcs": [{"kind": k, "name": n} for _, k, n in out]}


def fed_changed(old, new):
    """entityIDs whose record differs between two federations (moved, added, removed)"""
    a = {e["eid"]: e for s_ in old for e in s_["ents"]}
    b = {e["eid"]: e for s_ in new for e in s_["ents"]}
    return [k for k in list(b) + [k for k in a if k not in b] if a.get(k) != b.get(k)]


def gen_fed_sources(ctx):
    rng = ctx.rng
    cases = []
    counter = [0]

    def load(steps, state, r, fed, how, style, palette, stable, ev):
        """one (re)load of resolver r; state[r] = the federation it serves afterwards"""
        n = len(fed)
        kinds = [palette[i % len(palette)] for i in range(n)]
        names = ["s%d" % i if stable else "t%d-%d" % (ev, i) for i in range(n)]
        fed, cfg = fed_configure(fed, style, kinds, names, "d" if stable else "d%d" % ev)
        if how == "fail":
            cfg["missing"] = True
        steps.append({"op": "load", "r": r, "how": how, "fed": fed, "cfg": cfg})
        if how != "fail":
            state[r] = fed
        return fed

    def probe(steps, state, r, prefer, limit, extra):
        steps += fed_resolutions(rng, state[r], extra, limit, counter, prefer=prefer, rcv=r)

    def members(k):
        eids = rng.sample(FED_EIDS, k)
        return eids, [fed_entity(rng, eid, j, rng.choice(["idp", "idp", "sp", "both", "idp2"])) for j, eid in enumerate(eids)]

    # (3a) the ordinary refresh, for every kind of source in both configuration styles: the sources keep their names,
    #      one member has moved its endpoints and one has joined; then once more through the other way of reloading
    for ki, kind in enumerate(FED_KINDS):
        for si, style in enumerate(("dict", "list")):
            eids, ents = members(3)
            fed = [fed_source(ents[:2], rng), fed_source(ents[2:], rng)]
            steps, state = [], {}
            fed = load(steps, state, 0, fed, "init", style, [kind], True, 0)
            probe(steps, state, 0, None, 3, [FED_UNKNOWN])
            for ev, how in enumerate(["reload", "rebuild"] if (ki + si) % 2 == 0 else ["rebuild", "reload"], 1):
                new = fed_mutate(rng, fed_mutate(rng, state[0], 20 * ev, "move"), 20 * ev, "add")
                prefer = fed_changed(state[0], new)
                load(steps, state, 0, new, how, style, [kind], True, ev)
                probe(steps, state, 0, prefer, 5, [FED_UNKNOWN] + eids)
            cases.append({"k": "artfed", "recvs": ["sp" if (ki + si) % 2 else "idp"], "steps": steps})
    # (3b) random: one or two resolvers, mixed kinds, any way of reloading, names kept or new
    for c in range(80 if ctx.thorough else 14):
        recvs = [rng.choice(["sp", "idp"]) for _ in range(1 + c % 2)]
        palette = rng.sample(FED_KINDS, rng.randint(1, 3))
        steps, state = [], {}
        eids, ents = members(rng.randint(2, 5))
        fed, i = [], 0
        while i < len(ents):
            k = rng.randint(1, 2)
            fed.append(fed_source(ents[i:i + k], rng))
            i += k
        for r in range(len(recvs)):
            # the second resolver starts from what the federation publishes a little later, under the same names
            f0 = fed if r == 0 else fed_mutate(rng, fed, 7, rng.choice(["move", "add", "remove"]))
            load(steps, state, r, f0, "init", rng.choice(["dict", "list"]), palette, True, 0)
            probe(steps, state, r, fed_changed(fed, f0), 3, [FED_UNKNOWN])
        for ev in range(1, rng.randint(2, 4) + 1):
            r = rng.randrange(len(recvs))
            how = rng.choice(["reload", "reload", "rebuild", "newconf", "fail"])
            new = fed_mutate(rng, state[r], 20 * ev, rng.choice(["move", "add", "remove", "reshape", "reverse", "move"]))
            if rng.random() < 0.3:
                new = fed_mutate(rng, new, 20 * ev + 3, rng.choice(["move", "add"]))
            prefer = fed_changed(state[r], new)
            load(steps, state, r, new, how, rng.choice(["dict", "list"]), palette, rng.random() < 0.75, ev)
            probe(steps, state, r, prefer, 4, [FED_UNKNOWN] + eids)
            for other in range(len(recvs)):
                if other != r:      # ... and the other resolver still serves what IT has loaded
                    probe(steps, state, other, prefer, 2, [])
        cases.append({"k": "artfed", "recvs": recvs, "steps": steps})
    return cases


def _weight(c):
    """Rough size of the Coq term of a case (bytes of string data), for balancing the shards."""
    k = c["k"]
    if k == "post":
        return 6 * len(c["msg"]) + 4 * (len(c["loc"]) + len(c["rs"])) + 400
    if k == "redir":
        return 3 * len(c["msg"]) + 3 * (len(c["loc"]) + len(c["rs"])) + 100
    if k in ("soap", "unravel"):
        return 4 * len(c["msg"]) + 50
    if k in ("arturl", "uriurl"):
        return 3 * (len(c["dest"]) + len(c["rs"])) + 100
    if k in ("art", "artraw"):
        return 500
    if k == "artfed":
        return 300 * len(c["steps"])
    return 60


SHARD = 400        # harness.common.eval_cases writes 400 consecutive cases per coqc job


def balance(cases):
    """Reorder so that every run of SHARD consecutive cases carries about the same amount of string data
    (the driver evaluates the shards in parallel; the heaviest shard decides the wall time)."""
    n = (len(cases) + SHARD - 1) // SHARD
    if n <= 1:
        return cases
    cap = [SHARD] * (n - 1) + [len(cases) - SHARD * (n - 1)]
    bins = [[] for _ in range(n)]
    load = [0] * n
    for w, i in sorted(((_weight(c), i) for i, c in enumerate(cases)), key=lambda e: (-e[0], e[1])):
        j = min((b for b in range(n) if len(bins[b]) < cap[b]), key=lambda b: (load[b] / cap[b], b))
        bins[j].append(i)
        load[j] += w
    return [cases[i] for b in bins for i in sorted(b)]


def generate(ctx):
    msgs = pool(ctx.thorough)
    ent("sp_ars")      # built before the driver forks its observers
    return balance(gen_stdlib(ctx) + gen_bindings(ctx, msgs) + gen_artifacts(ctx) + gen_federations(ctx) + gen_fed_sources(ctx))


# ---------------------------------------------------------------------------- observation
class FormReader(html.parser.HTMLParser):
    def __init__(self):
        super().__init__(convert_charrefs=True)
        self.toks = []

    def handle_starttag(self, tag, attrs):
        self.toks.append(["s", tag, [[k, "" if v is None else v] for k, v in attrs]])

    def handle_startendtag(self, tag, attrs):
        self.handle_starttag(tag, attrs)

    def handle_endtag(self, tag):
        self.toks.append(["e", tag])


def _exc(e):
    return type(e).__name__


# what observe() reports as the URL when the artifact / URI binding raised instead of returning one (every real URL
# of these bindings contains "SAMLart=" or "ID=")
NO_URL = "!exception:"


def inflate_obs(d):
    try:
        return zlib.decompress(d, -15).hex()
    except zlib.error:
        return None


def unravel_obs(txt, binding, msgtype="response"):
    """-> (result, zlib table for the bytes the codec will see)"""
    from saml2.entity import Entity, UnknownBinding
    from saml2.s_utils import UnravelError

    zt = []
    try:
        d = base64.b64decode(txt)
        zt.append([d.hex(), inflate_obs(d)])
    except Exception:
        pass
    try:
        r = Entity.unravel(txt, binding, msgtype)
        r = ["ok", _b(r).hex()]
    except UnknownBinding:
        r = ["unknown"]
    except UnravelError:
        r = ["unravel"]
    return r, zt


def canon_digest(xml):
    """Digest of the element tree (Clark names, attributes sorted, text and tails kept); None if not XML."""
    import defusedxml.ElementTree as DET

    try:
        root = DET.fromstring(xml)
    except Exception:
        return None
    out = []

    def walk(e, top):
        out.append("<%s" % e.tag)
        for k in sorted(e.attrib):
            out.append(" %s=%r" % (k, e.attrib[k]))
        out.append(">%r" % (e.text or ""))
        for c in e:
            if callable(c.tag):      # comments / processing instructions are not elements
                out.append("~%r" % (c.tail or ""))
                continue
            walk(c, False)
        out.append("</>")
        if not top:
            out.append("%r" % (e.tail or ""))

    walk(root, True)
    return hashlib.sha256("".join(out).encode("utf-8")).hexdigest()[:24]


# ---- artfed: the federation as metadata documents, the resolver as a real Saml2Client / Server
def fed_entity_xml(e):
    from xml.sax.saxutils import quoteattr

    body = ""
    for d in e["idp"]:
        body += "<md:IDPSSODescriptor protocolSupportEnumeration=%s>%s%s</md:IDPSSODescriptor>" % (
            quoteattr(world.PROTO), "".join(world.endpoint("ArtifactResolutionService", SOAP, l, i) for i, l in d),
            world.endpoint("SingleSignOnService", REDIRECT, "https://example.org/sso"))
    for d in e["sp"]:
        body += "<md:SPSSODescriptor protocolSupportEnumeration=%s>%s%s</md:SPSSODescriptor>" % (
            quoteattr(world.PROTO), "".join(world.endpoint("ArtifactResolutionService", SOAP, l, i) for i, l in d),
            world.endpoint("AssertionConsumerService", POST, "https://example.org/acs", 0))
    if not body:     # an entity that is neither: an attribute authority
        body = ("<md:AttributeAuthorityDescriptor protocolSupportEnumeration=%s>%s</md:AttributeAuthorityDescriptor>"
                % (quoteattr(world.PROTO), world.endpoint("AttributeService", SOAP, "https://example.org/aa")))
    return "<md:EntityDescriptor %s entityID=%s>%s</md:EntityDescriptor>" % (world.MD_NS, quoteattr(e["eid"]), body)


def fed_docs(fed):
    return [fed_entity_xml(src["ents"][0]) if src["doc"] == "single" else world.entities(*[fed_entity_xml(e) for e in src["ents"]])
            for src in fed]


def _view(ent_, key):
    if key not in ent_:
        return None
    return [None if "artifact_resolution_service" not in d else [[s_["index"], s_["location"]] for s_ in d["artifact_resolution_service"]]
            for d in ent_[key]]


# ---- artfed: where the documents come from.  Files live in a scratch directory of the case, URLs are served by a local
# stand-in for HTTPBase.send (harness-local: harness/env.py has no HTTP stand-in), loaders are module-level functions.
_FED_HTTP = {}             # url -> bytes, for the duration of one artfed case
_FED_LOADER_DOCS = {}      # slot -> str / bytes
_FED_ATTRC = []


class _FedResponse:
    def __init__(self, content):
        self.status_code = 200 if content is not None else 404
        self.content = content or b""
        self.text = self.content.decode("utf-8")
        self.headers = {}


def _fed_http_send(self, url, method="GET", **kwargs):
    return _FedResponse(_FED_HTTP.get(url))


def _mk_loader(slot):
    def loader():
        return _FED_LOADER_DOCS[slot]

    loader.__name__ = loader.__qualname__ = "fed_loader_%d" % slot
    return loader


for _i in range(16):
    globals()["fed_loader_%d" % _i] = _mk_loader(_i)


def fed_md_export(xml):
    """What tools/mdexport writes for a document: the JSON text that MetaDataMD ("mdfile") reads."""
    from saml2.attribute_converter import ac_factory
    from saml2.mdstore import InMemoryMetaData

    if not _FED_ATTRC:
        _FED_ATTRC.append(ac_factory())
    md = InMemoryMetaData(_FED_ATTRC[0], xml)
    md.load()
    return md.dumps()


def _write(path, text):
    with open(path, "w", encoding="utf-8") as fp:
        fp.write(text)


def fed_materialise(root, cfg, docs, state):
    """Publish the documents of one load under their names (write the files, serve the URLs, arm the loaders) and build
    the `metadata` configuration.  -> (configuration, name of every source as the Coq case spells it, loading order:
    indexes into cfg["srcs"] - the files of a directory are read in os.listdir order)."""
    style = cfg["style"]
    entries, names, dir_at, dir_files = [], [], None, {}
    for j, (src, xml) in enumerate(zip(cfg["srcs"], docs)):
        k, n = src["kind"], src["name"]
        if k == "inline":
            if style == "dict":       # key = a counter of the store
                state["ii"] += 1
                names.append("inline#%d" % state["ii"])
            else:                     # key = the text
                names.append("inline:" + hashlib.sha1(xml.encode("utf-8")).hexdigest()[:12])
            entries.append((k, xml))
        elif k == "local":
            path = os.path.join(root, n + ".xml")
            _write(path, xml)
            entries.append((k, path))
            names.append("file:%s.xml" % n)
        elif k == "dir":
            d = os.path.join(root, cfg["dir"])
            if dir_at is None:
                dir_at = j
                os.makedirs(d, exist_ok=True)
                for f in os.listdir(d):        # the operator removes what is no longer published
                    os.remove(os.path.join(d, f))
                entries.append((k, d))
            _write(os.path.join(d, n + ".xml"), xml)
            dir_files[n + ".xml"] = j
            names.append("file:%s/%s.xml" % (cfg["dir"], n))
        elif k == "remote":
            url = "https://md.example.org/%s.xml" % n
            _FED_HTTP[url] = xml.encode("utf-8")
            entries.append((k, url))
            names.append("url:" + n)
        elif k == "loader":
            slot = state["slots"].setdefault(n, len(state["slots"]))
            _FED_LOADER_DOCS[slot] = xml if slot % 2 else xml.encode("utf-8")
            entries.append((k, slot))
            names.append("loader:" + n)
        elif k == "mdfile":
            path = os.path.join(root, n + ".json")
            _write(path, fed_md_export(xml))
            entries.append((k, path))
            names.append("mdfile:" + n)
        else:
            raise ValueError(k)
    missing = os.path.join(root or "/nonexistent", "no-such-file.xml")
    if style == "dict":
        conf = {}
        for j, (k, v) in enumerate(entries):
            if k == "remote":
                v = {"url": v, "cert": None} if j % 2 else {"url": v}
            elif k == "loader":
                v = globals()["fed_loader_%d" % v]
            conf.setdefault(FED_TYPEKEY[k], []).append(v)
        if cfg.get("missing"):
            conf.setdefault("local", []).append(missing)
    else:
        conf = []
        for j, (k, v) in enumerate(entries):
            if k == "loader":
                v = "harness.c14.fed_loader_%d" % v
            if conf and conf[-1]["class"] == FED_CLASS[k] and k != "dir" and j % 3:
                conf[-1]["metadata"].append((v,))
            else:
                conf.append({"class": FED_CLASS[k], "metadata": [(v,)]})
        if cfg.get("missing"):
            conf.insert(0, {"class": FED_CLASS["local"], "metadata": [(missing,)]})
    order = [j for j in range(len(names)) if cfg["srcs"][j]["kind"] != "dir" or j == dir_at]
    if dir_at is not None:
        listing = [dir_files[f] for f in os.listdir(os.path.join(root, cfg["dir"]))]
        at = order.index(dir_at)
        order[at:at + 1] = listing
    return conf, names, order


def fed_default_cfg(fed):
    """the configuration of the cases of rounds 2..5: every document inline, old-style dict"""
    return {"style": "dict", "dir": "d", "srcs": [{"kind": "inline", "name": ""} for _ in fed]}


def fed_recvs(case):
    return case["recvs"] if "recvs" in case else [case["recv"]]


def observe_artfed(case):
    import shutil
    import tempfile

    from saml2.entity import create_artifact
    from saml2.httpbase import HTTPBase

    env.VClock(1700000000).install()
    kinds = fed_recvs(case)
    recvs = [None] * len(kinds)
    state = {"ii": 0, "slots": {}}
    steps = []
    eids = []
    root = None
    if any("cfg" in st for st in case["steps"]):
        root = tempfile.mkdtemp(prefix="c14fed-")
    saved_send = HTTPBase.send
    HTTPBase.send = _fed_http_send
    _FED_HTTP.clear()
    _FED_LOADER_DOCS.clear()
    try:
        for st in case["steps"]:
            r = st.get("r", 0)
            recv = recvs[r]
            if st["op"] == "load":
                docs = fed_docs(st["fed"])
                for src in st["fed"]:
                    eids += [e["eid"] for e in src["ents"]]
                cfg = st.get("cfg") or fed_default_cfg(st["fed"])
                how = st.get("how") or ("init" if recv is None else "reload")
                names, order = [], list(range(len(docs)))
                try:
                    conf, names, order = fed_materialise(root, cfg, docs, state)
                    if how in ("init", "newconf") or recv is None:
                        recv = (world.make_sp if kinds[r] == "sp" else world.make_idp)(metadata=conf)
                        ok = True
                    elif how == "rebuild":      # the store is refreshed, then a new entity is built on the same Config
                        recv.metadata.reload(conf)
                        recv = type(recv)(config=recv.config)
                        ok = True
                    else:
                        ok = recv.reload_metadata(conf)
                    recvs[r] = recv
                except Exception as ex:
                    ok = _exc(ex)
                sm = [] if recv is None else [[kk.hex(), _view(v, "spsso_descriptor"), _view(v, "idpsso_descriptor")]
                                              for kk, v in recv.sourceid.items()]
                steps.append({"ok": ok, "sm": sm, "names": names, "order": order})
                continue
            eids.append(st["eid"])
            handle = bytes.fromhex(st["handle"])
            try:
                if st["via"] == "use":
                    issuer = ent("sp" if st["eid"] == world.SP_ID else "idp")
                    art = issuer.use_artifact("<m>%d</m>" % st["idx"], st["idx"])
                    handle = base64.b64decode(art)[-20:]      # random part of the handle: read back from the artifact
                else:
                    issuer = ent("sp")
                    art = create_artifact(st["eid"].encode("utf-8") if st["via"] == "create-eid-bytes" else st["eid"],
                                          handle.decode("ascii") if st["via"] == "create-handle-str" else handle, st["idx"])
                info = issuer.apply_binding(ARTIFACT, art, "https://rp.example.org/art?keep=1", "rs&%d#?=" % st["idx"],
                                            response=False, sign=False)
                got = dict(urllib.parse.parse_qsl(urllib.parse.urlsplit(info["url"]).query)).get("SAMLart", "")
            except Exception as ex:
                steps.append({"art": "", "handle": handle.hex(), "dest": ["err", "send:" + _exc(ex)]})
                continue
            try:
                dest = ["ok", recv.artifact2destination(got, st["role"])]
            except Exception as ex:
                dest = ["err", _exc(ex)]
            steps.append({"art": got, "handle": handle.hex(), "dest": dest})
    finally:
        HTTPBase.send = saved_send
        if root is not None:
            shutil.rmtree(root, ignore_errors=True)
    sha = []
    for e_ in eids:
        if e_ not in [x[0] for x in sha]:
            sha.append([e_, hashlib.sha1(e_.encode("utf-8")).hexdigest()])
    return {"sha": sha, "steps": steps}


def observe(case):
    from saml2 import pack
    from saml2.entity import create_artifact

    k = case["k"]
    # ---- stdlib
    if k == "b64enc":
        return {"enc": base64.b64encode(bytes.fromhex(case["b"])).decode("ascii")}
    if k == "b64dec":
        s = bytes.fromhex(case["s"])
        try:
            ab = base64.b64decode(s).hex()
        except Exception:
            ab = None
        try:
            st = base64.b64decode(s.decode("utf-8")).hex()
        except Exception:
            st = None
        return {"bytes": ab, "str": st}
    if k == "html":
        e = html.escape(case["s"], quote=True)
        return {"esc": e, "unesc_ok": html.unescape(e) == case["s"]}
    if k == "quote":
        return {"q": urllib.parse.quote(case["s"]), "qp": urllib.parse.quote_plus(case["s"])}
    if k == "unquote":
        return {"u": urllib.parse.unquote(case["s"]), "up": urllib.parse.unquote_plus(case["s"])}
    if k == "qs":
        return {"pairs": [list(p) for p in urllib.parse.parse_qsl(case["s"])]}
    if k == "urlenc":
        return {"s": urllib.parse.urlencode(dict((a, b) for a, b in case["l"]))}
    if k == "url":
        try:
            sp = urllib.parse.urlsplit(case["s"])
            return {"q": sp.query, "f": sp.fragment, "exc": None}
        except ValueError as e:
            return {"q": None, "f": None, "exc": _exc(e)}
    if k == "int16":
        try:
            return {"r": str(int(bytes.fromhex(case["b"]), 16))}
        except ValueError:
            return {"r": None}
    if k == "fmt":
        return {"hex": f"{case['n']:02x}", "dec": str(case["n"])}
    # ---- bindings
    if k == "post":
        typ = case["typ"]
        try:
            if case["via"] == "pack":
                info = pack.http_form_post_message(case["msg"], case["loc"], case["rs"], typ)
            else:
                info = ent(case["via"]).apply_binding(POST, case["msg"], case["loc"], case["rs"], response=(typ == "SAMLResponse"),
                                                      sign=False)
            form = info["data"]
        except Exception as e:
            return {"form": None, "exc": _exc(e), "received": ["unravel"], "zt": [], "hp": []}
        fr = FormReader()
        fr.feed(form)
        fr.close()
        payload = None
        for t in fr.toks:
            if t[0] == "s" and t[1] == "input" and dict(t[2]).get("name") == typ and payload is None:
                payload = dict(t[2]).get("value")
        received, zt = ["unravel"], []
        if typ in ("SAMLRequest", "SAMLResponse") and payload is not None:
            received, zt = unravel_obs(payload, POST)
        return {"form": form, "exc": None, "received": received, "zt": zt, "hp": fr.toks}
    if k == "redir":
        typ = case["typ"]
        msg = case["msg"]
        dt = [[_b(msg).hex(), zlib.compress(_b(msg))[2:-4].hex()]]
        try:
            if case["via"] == "pack":
                info = pack.http_redirect_message(msg, case["loc"], case["rs"], typ)
            else:
                info = ent(case["via"]).apply_binding(REDIRECT, msg, case["loc"], case["rs"], response=(typ == "SAMLResponse"),
                                                      sign=False)
            url = dict(info["headers"])["Location"]
        except Exception as e:
            return {"url": None, "exc": _exc(e), "received": ["unravel"], "zt": [], "dt": dt, "params": []}
        params = urllib.parse.parse_qsl(urllib.parse.urlsplit(url).query)
        vals = [v for kk, v in params if kk == typ]
        received, zt = ["unravel"], []
        if typ in ("SAMLRequest", "SAMLResponse"):
            received, zt = unravel_obs(vals[-1] if vals else "", REDIRECT)
        return {"url": url, "exc": None, "received": received, "zt": zt, "dt": dt, "params": [list(p) for p in params]}
    if k == "arturl":
        try:
            info = ent("idp" if case["response"] else "sp").apply_binding(ARTIFACT, case["art"], case["dest"], case["rs"],
                                                                          response=case["response"], sign=False)
            return {"url": info["url"]}
        except Exception as e:      # no URL at all: reported as a text that is no URL (the spec fails on it)
            return {"url": NO_URL + _exc(e)}
    if k == "uriurl":
        try:
            if case["via"] == "static":
                from saml2.httpbase import HTTPBase

                info = HTTPBase.use_http_uri(case["id"], "SAMLRequest", case["dest"], case["rs"])
            else:
                info = ent(case["via"]).apply_binding(URI, case["id"], case["dest"], case["rs"], response=False, sign=False)
            return {"url": info["url"]}
        except Exception as e:
            return {"url": NO_URL + _exc(e)}
    if k == "soap":
        from saml2 import soap as s2soap

        msg = case["msg"]
        try:
            env_ = ent("sp").apply_binding(SOAP, msg, "https://idp.example.org/soap", "", response=(case["kind"] == "response"),
                                           sign=False)["data"]
        except Exception as e:
            return {"env": None, "exc": _exc(e), "sent": canon_digest(_b(msg)), "recv": None}
        sent = canon_digest(_b(msg))
        recv = None
        if sent is not None:
            import defusedxml.ElementTree as DET

            tag = DET.fromstring(_b(msg)).tag
            try:
                got = s2soap.parse_soap_enveloped_saml_thingy(env_, [tag])
                recv = canon_digest(got)
            except Exception:
                recv = None
            mt = {"{urn:oasis:names:tc:SAML:2.0:protocol}Response": "authn_response",
                  "{urn:oasis:names:tc:SAML:2.0:protocol}AuthnRequest": "authn_request",
                  "{urn:oasis:names:tc:SAML:2.0:protocol}LogoutRequest": "logout_request"}.get(tag)
            if mt:   # the same through Entity.unravel
                r, _ = unravel_obs(env_, SOAP, mt)
                if r[0] != "ok" or canon_digest(bytes.fromhex(r[1])) != recv:
                    recv = None
        return {"env": env_, "exc": None, "sent": sent, "recv": recv}
    if k == "unravel":
        m = _b(case["msg"])
        if case["enc"] == "deflate":
            txt = base64.b64encode(zlib.compress(m)[2:-4]).decode("ascii")
        elif case["enc"] == "plain":
            txt = base64.b64encode(m).decode("ascii")
        else:
            txt = case["msg"]
        if case["binding"] == SOAP:
            return {"txt": txt, "res": ["skip"], "zt": []}
        r, zt = unravel_obs(txt, case["binding"])
        return {"txt": txt, "res": r, "zt": zt}
    if k == "art":
        eid = case["eid"]
        handle = bytes.fromhex(case["handle"])
        sid = hashlib.sha1(eid.encode("utf-8")).digest()
        art = create_artifact(eid, handle, case["idx"])
        if case["mode"] == "metadata":
            e = ent("sp_ars")
            e.sourceid = e.metadata.construct_source_id()
        else:
            e = ent("sp")
            key = "%s_descriptor" % case["descriptor"]
            e.sourceid = {sid: {key: [{"artifact_resolution_service": [{"index": i, "location": l, "binding": SOAP} for i, l in d]}
                                      for d in case["descs"]]}}
        # the resolver's map, as data (from the real structure)
        sm = []
        for kk, v in e.sourceid.items():
            key = "%s_descriptor" % case["descriptor"]
            if key not in v:
                sm.append([kk.hex(), None])
            else:
                sm.append([kk.hex(), [None if "artifact_resolution_service" not in d else
                                      [[s["index"], s["location"]] for s in d["artifact_resolution_service"]] for d in v[key]]])
        try:
            dest = ["ok", e.artifact2destination(art, case["descriptor"])]
        except Exception as ex:
            dest = ["err", _exc(ex)]
        return {"art": art, "sid": sid.hex(), "sm": sm, "dest": dest}
    if k == "artraw":
        e = ent("sp")
        sid = bytes.fromhex(case["sid"])
        rec = {"ok": {"idpsso_descriptor": [{"artifact_resolution_service": [
                   {"index": str(i), "location": "L%d" % i} for i in (0, 1, 9, 10, 15, 161, 255)]},
                   {"artifact_resolution_service": [{"index": "-1", "location": "Lneg"}, {"index": "10", "location": "L10b"}]}]},
               "nodesc": {"spsso_descriptor": []},
               "nosvc": {"idpsso_descriptor": [{"artifact_resolution_service": [{"index": "10", "location": "L10"}]}, {"x": 1}]},
               "unknown": None}[case["shape"]]
        e.sourceid = {} if rec is None else {sid: rec}
        sm = []
        if rec is not None:
            if "idpsso_descriptor" not in rec:
                sm.append([sid.hex(), None])
            else:
                sm.append([sid.hex(), [None if "artifact_resolution_service" not in d else
                                       [[s["index"], s["location"]] for s in d["artifact_resolution_service"]]
                                       for d in rec["idpsso_descriptor"]]])
        try:
            dest = ["ok", e.artifact2destination(case["raw"], "idpsso")]
        except Exception as ex:
            dest = ["err", _exc(ex)]
        return {"sm": sm, "dest": dest}
    if k == "artfed":
        return observe_artfed(case)
    raise ValueError(k)


# ---------------------------------------------------------------------------- Coq cases
def coq_case(case, obs):
    P = _Pool()
    return P.wrap(_coq_case(P, case, obs))


def _coq_case(P, case, obs):
    k = case["k"]
    if k == "b64enc":
        return "KB64enc %s %s" % (P.s(bytes.fromhex(case["b"])), P.s(obs["enc"]))
    if k == "b64dec":
        return "KB64dec %s %s %s" % (P.s(bytes.fromhex(case["s"])), P.opt(None if obs["bytes"] is None else bytes.fromhex(obs["bytes"])),
                                     P.opt(None if obs["str"] is None else bytes.fromhex(obs["str"])))
    if k == "html":
        return "KHtml %s %s %s" % (P.s(case["s"]), P.s(obs["esc"]), cq(bool(obs["unesc_ok"])))
    if k == "quote":
        return "KQuote %s %s %s" % (P.s(case["s"]), P.s(obs["q"]), P.s(obs["qp"]))
    if k == "unquote":
        return "KUnquote %s %s %s" % (P.s(case["s"]), P.s(obs["u"]), P.s(obs["up"]))
    if k == "qs":
        return "KQs %s %s" % (P.s(case["s"]), P.pairs(obs["pairs"]))
    if k == "urlenc":
        return "KUrlenc %s %s" % (P.pairs(case["l"]), P.s(obs["s"]))
    if k == "url":
        if obs["exc"]:
            return "KUrl \"\" \"\" \"\""     # urlsplit raised: outside the model (never generated for destinations)
        return "KUrl %s %s %s" % (P.s(case["s"]), P.s(obs["q"]), P.s(obs["f"]))
    if k == "int16":
        return "KInt16 %s %s" % (P.s(bytes.fromhex(case["b"])), P.opt(obs["r"]))
    if k == "fmt":
        return "KFmt (%d)%%Z %s %s" % (case["n"], P.s(obs["hex"]), P.s(obs["dec"]))
    if k == "post":
        x = "{| p_msg := %s; p_loc := %s; p_rs := %s; p_typ := %s |}" % (P.s(case["msg"]), P.s(case["loc"]), P.s(case["rs"]), P.s(case["typ"]))
        return "KPost %s %s %s %s %s" % (x, P.ztab(obs["zt"]), P.opt(obs["form"]), P.ures(obs["received"]), P.toks(obs["hp"]))
    if k == "redir":
        x = "{| r_msg := %s; r_loc := %s; r_rs := %s; r_typ := %s |}" % (P.s(case["msg"]), P.s(case["loc"]), P.s(case["rs"]), P.s(case["typ"]))
        return "KRedir %s %s %s %s %s" % (x, P.dtab(obs["dt"]), P.ztab(obs["zt"]), P.opt(obs["url"]), P.ures(obs["received"]))
    if k == "arturl":
        x = "{| u_art := %s; u_dest := %s; u_rs := %s |}" % (P.s(case["art"]), P.s(case["dest"]), P.s(case["rs"]))
        return "KArtUrl %s %s" % (x, P.s(obs["url"]))
    if k == "uriurl":
        x = "{| i_id := %s; i_dest := %s; i_rs := %s |}" % (P.s(case["id"]), P.s(case["dest"]), P.s(case["rs"]))
        return "KUriUrl %s %s" % (x, P.s(obs["url"]))
    if k == "soap":
        return "KSoap %s %s %s %s" % (P.s(case["msg"]), P.opt(obs["env"]), P.opt(obs["sent"]), P.opt(obs["recv"]))
    if k == "unravel":
        if obs["res"][0] == "skip":
            return "KUnravel \"\" BUri [] (UOk \"\")"
        return "KUnravel %s %s %s %s" % (P.s(obs["txt"]), BINDING_COQ[case["binding"]], P.ztab(obs["zt"]), P.ures(obs["res"]))
    if k == "art":
        x = "{| a_eid := %s; a_sid := %s; a_handle := %s; a_idx := Z.to_nat (%d)%%Z; a_sm := %s |}" % (
            P.s(case["eid"]), P.s(bytes.fromhex(obs["sid"])), P.s(bytes.fromhex(case["handle"])), case["idx"], P.sm(obs["sm"]))
        return "KArt %s %s %s" % (x, P.s(obs["art"]), P.ares(obs["dest"]))
    if k == "artraw":
        return "KArtRaw %s %s %s" % (P.sm(obs["sm"]), P.s(case["raw"]), P.ares(obs["dest"]))
    if k == "artfed":
        steps = []
        served = {}       # per resolver: the configuration it serves (a reload that reported failure changes nothing)
        for st, o in zip(case["steps"], obs["steps"]):
            r = st.get("r", 0)
            if st["op"] == "load":
                names = o["names"] if len(o["names"]) == len(st["fed"]) else ["?%d" % j for j in range(len(st["fed"]))]
                cfg = [(names[j], st["fed"][j]) for j in o["order"]]
                if o["ok"] is True or r not in served:
                    served[r] = cfg
                steps.append("FLoad %d %s %s" % (r, P.cfg(served[r]), P.fsm(o["sm"])))
            else:
                steps.append("FResolve %d %s %s (Z.to_nat (%d)%%Z) %s %s %s" % (
                    r, P.s(st["eid"]), P.s(bytes.fromhex(o["handle"])), st["idx"], "RIdp" if st["role"] == "idpsso" else "RSp",
                    P.s(o["art"]), P.ares(o["dest"])))
        return "KArtFed %s [%s]" % (P.dtab([[_b(a).hex(), b] for a, b in obs["sha"]]), "; ".join(steps))
    raise ValueError(k)


# ---------------------------------------------------------------------------- evidence
def nontrivial(case, obs):
    k = case["k"]
    if k in ("b64enc", "b64dec", "html", "quote", "unquote", "qs", "url", "int16"):
        s = case.get("s", case.get("b", ""))
        return (k, len(s) % 7, hashlib.sha1(repr(s).encode()).hexdigest()[:6])
    if k in ("urlenc", "fmt"):
        return (k, repr(case.get("l", case.get("n"))))
    if k in ("post", "redir"):
        if case["rs"] == "rs" and case["loc"] == DEST_ALPHABET[0] and case["mtag"] == "tiny":
            return None
        return (k, case["mtag"], char_classes(case["rs"]), char_classes(case["loc"]), case["loc"][-3:], case["typ"], case["via"],
                obs.get("exc"), obs["received"][0])
    if k == "arturl":
        return (k, char_classes(case["rs"]), char_classes(case["dest"]), case["dest"][-3:])
    if k == "uriurl":
        return (k, char_classes(case["rs"]), char_classes(case["dest"]), case["dest"][-3:], case["via"])
    if k == "soap":
        return (k, case["mtag"], case["msg"][:30], obs["recv"] is not None)
    if k == "unravel":
        return (k, case["mtag"], case["enc"], str(case["binding"]), obs["res"][0])
    if k == "art":
        i = case["idx"]
        return (k, "lt16" if i < 16 else "lt256" if i < 256 else "lt4096" if i < 4096 else "ge4096", case["mode"],
                len(case["descs"] or []), obs["dest"][0], obs["dest"][1] is not None if obs["dest"][0] == "ok" else obs["dest"][1],
                i if i < 300 else i % 97)
    if k == "artraw":
        return (k, case["raw"][:12], case["shape"], obs["dest"][0])
    if k == "artfed":
        loads = [st["fed"] for st in case["steps"] if st["op"] == "load"]
        outs = [o["dest"][0] if o["dest"][0] == "err" else ("loc" if o["dest"][1] else "none") for o in obs["steps"] if "dest" in o]
        hows = tuple((st.get("how", ""), st["cfg"]["style"], tuple(sorted({x["kind"] for x in st["cfg"]["srcs"]})),
                      st["cfg"]["srcs"][0]["name"][:1] if st["cfg"]["srcs"] else "")
                     for st in case["steps"] if st["op"] == "load" and "cfg" in st)
        return (k, tuple(fed_recvs(case)), len(loads), tuple(tuple(len(src["ents"]) for src in f) for f in loads),
                outs.count("loc"), outs.count("none"), outs.count("err"), hows)
    return None


def histogram(cases, observed):
    h = {"by_subcheck": {}, "post_outcomes": {}, "redirect_outcomes": {}, "unravel_outcomes": {}, "artifact_outcomes": {},
         "messages": {}, "relaystate_classes": {}, "destination_classes": {}, "destination_query_state": {},
         "artifact_index_ranges": {}, "federation_loads": {}, "federation_resolutions": {}, "federation_issuer_position": {},
         "federation_source_kinds": {}, "federation_refresh": {}}

    def inc(d, key):
        d[key] = d.get(key, 0) + 1

    for c, o in zip(cases, observed):
        k = c["k"]
        inc(h["by_subcheck"], k)
        if k in ("post", "redir"):
            inc(h["messages"], c["mtag"])
            inc(h["relaystate_classes"], char_classes(c["rs"]) or "plain")
            inc(h["destination_classes"], char_classes(c["loc"]) or "plain")
            inc(h["destination_query_state"], query_state(c["loc"]))
            inc(h["post_outcomes" if k == "post" else "redirect_outcomes"], o.get("exc") or ("sent/" + o["received"][0]))
        elif k in ("arturl", "uriurl"):
            inc(h["destination_query_state"], query_state(c["dest"]))
        elif k == "unravel":
            inc(h["unravel_outcomes"], o["res"][0])
        elif k in ("art", "artraw"):
            d = o["dest"]
            inc(h["artifact_outcomes"], "error" if d[0] == "err" else ("resolved" if d[1] else "no-endpoint"))
            if k == "art":
                i = c["idx"]
                inc(h["artifact_index_ranges"], "0-15" if i < 16 else "16-255" if i < 256 else "256-4095" if i < 4096 else "4096-65535")
        elif k == "artfed":
            curs, prev_names = {}, {}
            cur = None
            for st, so in zip(c["steps"], o["steps"]):
                r_ = st.get("r", 0)
                if st["op"] == "load":
                    first = r_ not in curs
                    if so["ok"] is True or first:
                        curs[r_] = st["fed"]
                    cur = st["fed"]
                    n_ars = len(so["sm"])
                    how = st.get("how") or ("init" if first else "reload")
                    inc(h["federation_loads"], "%s: %s, %s with an ArtifactResolutionService" % (
                        "construction" if how == "init" else "reload_metadata" if how == "reload" else how,
                        "one document" if len(cur) == 1 else "several documents",
                        "no entity" if n_ars == 0 else "one entity" if n_ars == 1 else "several entities"))
                    cfg_ = st.get("cfg") or fed_default_cfg(cur)
                    for x in cfg_["srcs"]:
                        inc(h["federation_source_kinds"], "%s (%s configuration)" % (x["kind"], cfg_["style"]))
                    names_ = [x["kind"] + ":" + x["name"] for x in cfg_["srcs"] if x["kind"] != "inline"]
                    if not first:
                        inc(h["federation_refresh"], "%s, %s, reported %s; %d resolver(s) in the process" % (
                            how, "no named source" if not names_ else
                            "same source names as before" if sorted(names_) == sorted(prev_names.get(r_, [])) else
                            "some source names as before" if set(names_) & set(prev_names.get(r_, [])) else "new source names",
                            so["ok"], len(fed_recvs(c))))
                    if so["ok"] is True or first:
                        prev_names[r_] = names_
                    continue
                cur = curs.get(r_, [])
                d = so["dest"]
                inc(h["federation_resolutions"], "error:" + d[1] if d[0] == "err" else ("resolved" if d[1] else "no-endpoint"))
                pos = "not in the metadata"
                for s_ in cur:
                    ids = [e["eid"] for e in s_["ents"]]
                    if st["eid"] in ids:
                        i = ids.index(st["eid"])
                        pos = "only entity of its document" if len(ids) == 1 else "last of its document" if i == len(ids) - 1 \
                            else "first of its document" if i == 0 else "inside its document"
                inc(h["federation_issuer_position"], pos)
    return h


def explain_term(term):
    return "C14.Corr.explain (%s)" % term
