"""Entry point: ./check Cxx [--tier quick|thorough] [--replay file] | ./check --setup"""
import argparse
import importlib
import json
import os
import sys

from harness import common, env


def setup():
    from harness import fixtures

    fixtures.generate()
    with open(os.path.join(common.VERIF, "MANIFEST.json")) as f:
        pids = sorted({c["property_id"] for c in json.load(f)["checks"]})
    # regenerate tables (translator) for every claimed property that has one
    for pid in pids:
        mod = importlib.import_module("harness." + pid.lower())
        if hasattr(mod, "regenerate_tables"):
            mod.regenerate_tables(common.Ctx(pid, "quick", 0))
    # build the theories of the claimed properties (others may be under construction)
    targets = []
    for pid in pids:
        targets += common.build_targets(pid)
    rc, out = common.coq_make(targets)
    print(out[-3000:])
    return rc


def main():
    ap = argparse.ArgumentParser()
    ap.add_argument("pid", nargs="?")
    ap.add_argument("--tier", default=os.environ.get("VERIF_TIER", "quick"))
    ap.add_argument("--replay")
    ap.add_argument("--setup", action="store_true")
    a = ap.parse_args()
    if a.setup:
        sys.exit(setup())
    env.check_repo_import()
    seed = int(os.environ.get("VERIF_SEED", "20260926"))
    mod = importlib.import_module("harness." + a.pid.lower())
    ctx = common.Ctx(a.pid, a.tier, seed)
    replay_case = None
    if a.replay:
        with open(a.replay) as f:
            rp = json.load(f)
        if "case" not in rp:
            print("replay file names a broken theorem/correspondence, not an input:", json.dumps(rp.get("what"))[:2000])
            # re-run the whole check: it re-examines exactly that obligation
        else:
            replay_case = rp["case"]
    if hasattr(mod, "run"):
        rc = mod.run(ctx, replay_case)
    else:
        rc = common.run_property(mod, ctx, replay_case)
    sys.exit(rc)


if __name__ == "__main__":
    main()
