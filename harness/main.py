"""Entry point: ./check Cxx [--tier quick|thorough] [--replay file] | ./check --setup"""
import argparse
import importlib
import json
import os
import sys

from harness import common, env


def setup():
    from harness import fixtures

    fixtures.generate()
    # regenerate tables for every property that has a translator, then build everything
    for f in sorted(os.listdir(os.path.dirname(os.path.abspath(__file__)))):
        if len(f) == 6 and f.startswith("c") and f.endswith(".py") and f[1:3].isdigit():
            mod = importlib.import_module("harness." + f[:-3])
            if hasattr(mod, "regenerate_tables"):
                mod.regenerate_tables(common.Ctx(mod.PID, "quick", 0))
    rc, out = common.coq_make()
    print(out[-3000:])
    return rc


def main():
    ap = argparse.ArgumentParser()
    ap.add_argument("pid", nargs="?")
    ap.add_argument("--tier", default=os.environ.get("VERIF_TIER", "quick"))
    ap.add_argument("--replay")
    ap.add_argument("--setup", action="store_true")
    a = ap.parse_args()
    if a.setup:
        sys.exit(setup())
    env.check_repo_import()
    seed = int(os.environ.get("VERIF_SEED", "20260926"))
    mod = importlib.import_module("harness." + a.pid.lower())
    ctx = common.Ctx(a.pid, a.tier, seed)
    replay_case = None
    if a.replay:
        with open(a.replay) as f:
            rp = json.load(f)
        if "case" not in rp:
            print("replay file names a broken theorem/correspondence, not an input:", json.dumps(rp.get("what"))[:2000])
            # re-run the whole check: it re-examines exactly that obligation
        else:
            replay_case = rp["case"]
    if hasattr(mod, "run"):
        rc = mod.run(ctx, replay_case)
    else:
        rc = common.run_property(mod, ctx, replay_case)
    sys.exit(rc)


if __name__ == "__main__":
    main()
